#!/bin/bash
# Builds the offline overlay venv /verif/.venv (python 3.12 = the interpreter of the repo's test suite)
# with z3-solver, cvc5, jsonschema from the local wheelhouse. Idempotent.
set -e
cd "$(dirname "$0")"
export PIP_NO_INDEX=1 PIP_DISABLE_PIP_VERSION_CHECK=1
if [ ! -x .venv/bin/python ] || ! .venv/bin/python -c "import z3, cvc5, jsonschema, outsourcer" 2>/dev/null; then
  rm -rf .venv
  /venv/bin/python -m venv .venv
  .venv/bin/python -m pip install -q --no-index --find-links /opt/veriftools/wheels z3-solver cvc5 jsonschema
  SP=$(.venv/bin/python -c "import sysconfig; print(sysconfig.get_paths()['purelib'])")
  # third-party deps of the repository (outsourcer) come from the repo's own venv; the repo itself
  # is always imported from $VERIF_REPO (default /repo) by pyvc/paths.py, never from site-packages.
  echo "import site; site.addsitedir('/venv/lib/python3.12/site-packages')" > "$SP/zz_repo_deps.pth"
fi
.venv/bin/python -c "import z3, cvc5, jsonschema, outsourcer; print('venv ok: z3', z3.get_version_string())"
.venv/bin/python -m compileall -q pyvc contracts checks 2>/dev/null || true
