"""Verification of emitted fragments against per-class contracts with ABSTRACT children.

A child is known only by contract (uninterpreted outcome functions ok/val/end/fpos/err over position
and environment, constrained by its two static flags); the parent fragment must satisfy the same
shape of contract with the PEG meaning given by the class contract's ``spec``.  See DESIGN.md 1, 6."""
import ast
import time
import z3
from z3 import (And, Or, Not, Implies, If, IntVal, BoolVal, Const, Function, Length, Select, Store, Array)

from . import frag
from .symx import (Exec, St, VC, Val, I, B, SeqV, NONE, Tup, StrLit, TextV, Opaque, OutOfSubset, LoopSpec,
                   is_err, truthy, app, kind, K_OBJ, K_ERR, K_FUNC)
from .solve import discharge

reach = Function('reach', I, B)               # position was left behind by some attempt of this run (or is p0)
env_f = {}                                    # arity -> Function packing user-visible bindings into one Val
RHO0 = Const('RHO0', Val)

# driver contract: outcome of request (CALL, f, p)
d_ok = Function('d_ok', Val, I, B)
d_val = Function('d_val', Val, I, Val)
d_end = Function('d_end', Val, I, I)
d_fpos = Function('d_fpos', Val, I, I)
d_err = Function('d_err', Val, I, Val)

# re contract
re_ok = Function('re_ok', Val, I, B)
re_end = Function('re_end', Val, I, I)
re_val = Function('re_val', Val, I, Val)

# heap for parsed objects
md = Function('md', Val, Val)                 # obj -> its _metadata object
md_owner = Function('md_owner', Val, Val)
class_of = Function('class_of', Val, Val)
nfields = Function('nfields', Val, I)
field = Function('field', Val, I, Val)        # constructor argument i of a parsed object
birth = Function('birth', Val, I)             # allocation stamp


class Child:
    def __init__(self, k, a_s, cps):
        self.k, self.a_s, self.cps = k, a_s, cps
        self.ok = Function(f'ok{k}', I, Val, B)
        self.val = Function(f'val{k}', I, Val, Val)
        self.end = Function(f'end{k}', I, Val, I)
        self.fpos = Function(f'fpos{k}', I, Val, I)
        self.err = Function(f'err{k}', I, Val, Val)

    def axioms(self, p, rho, N):
        ok = self.ok(p, rho)
        ax = [Implies(ok, And(0 <= self.end(p, rho), self.end(p, rho) <= N)),
              Implies(Not(ok), And(0 <= self.fpos(p, rho), self.fpos(p, rho) <= N, is_err(self.err(p, rho))))]
        if self.a_s:
            ax.append(ok)
        if not self.cps:
            ax.append(Implies(Not(ok), self.fpos(p, rho) == p))
        return ax

    def outcome(self, p, rho):
        ok = self.ok(p, rho)
        return ok, If(ok, self.val(p, rho), self.err(p, rho)), If(ok, self.end(p, rho), self.fpos(p, rho))


class Outcome:
    """what the spec assigns: ok (Bool), val (Val, meaningful when ok), end (Int, when ok);
    extra: further named clauses (spec side conditions, class specific)"""
    def __init__(self, ok, val, end, extra=()):
        self.ok, self.val, self.end, self.extra = ok, val, end, list(extra)


class Cx:
    """context of one unit (class x configuration)"""
    def __init__(self, contract, cfg, node, kids, uses_context):
        self.contract, self.cfg, self.node, self.uses_context = contract, cfg, node, uses_context
        self.kids = {c.k: c for c in kids}
        self.p0 = Const('p0', I)
        self.N = Const('N', I)
        self.text = TextV(Array('TEXT', I, I), self.N, bool(cfg.get('bytes', False)))
        self.user_names = list(cfg.get('user_names', []))   # (name, sort) visible to children through rho
        self.user_sorts = dict(cfg.get('user_sorts', {}))
        self.status_in = Const('status_in', B)
        self.result_in = Const('result_in', Val)
        self.src = None
        self.tree = None
        self.temps = set()
        self.ex = None
        self.entry_env = {}

    def rho(self, st, ex):
        if not self.user_names:
            return RHO0
        n = len(self.user_names)
        if n not in env_f:
            env_f[n] = Function(f'env{n}', *([Val] * n), Val)
        vals = []
        for name in self.user_names:
            v = st.env.get(name)
            vals.append(Const(f'UNBOUND_{name}', Val) if v is None else ex.box(v))
        return env_f[n](*vals)

    # role helpers: bind contract roles to emitted temporaries by data-flow pattern, not by name
    def names_initialised(self, pred):
        """names whose FIRST store in source order is a simple assignment whose value satisfies pred(ast)"""
        seen, out = set(), []
        for n in _walk_src_order(self.tree):
            if isinstance(n, ast.Assign):
                for t in n.targets:
                    for nm in _target_names(t):
                        if nm not in seen:
                            seen.add(nm)
                            if isinstance(t, ast.Name) and pred(n.value):
                                out.append(nm)
        return out

    def one(self, names, role):
        if len(names) != 1:
            raise RoleError(f'role {role}: candidates {names}')
        return names[0]


def contract_binding_failure(e):
    """an IndexError / KeyError / ... raised INSIDE a sidecar contract (contracts/*.py) while it looks for the variables it speaks about
    (the list that is the memo, the loop that is the driver, ...) means the code no longer has the shape the contract binds to: a role
    failure (undecided, bounded stand-in), not a fault of the engine.  Anything raised elsewhere stays a crash."""
    import traceback
    if not isinstance(e, (IndexError, KeyError, StopIteration, AttributeError, ValueError, TypeError, AssertionError)):
        return False
    tb = traceback.extract_tb(e.__traceback__)
    return bool(tb) and '/contracts/' in tb[-1].filename.replace('\\', '/')


class RoleError(Exception):
    pass


def _walk_src_order(node):
    yield node
    for c in ast.iter_child_nodes(node):
        yield from _walk_src_order(c)


def _target_names(t):
    if isinstance(t, ast.Name):
        return [t.id]
    if isinstance(t, (ast.Tuple, ast.List)):
        return [n for e in t.elts for n in _target_names(e)]
    return []


def is_empty_list(n):
    return isinstance(n, ast.List) and not n.elts


def is_name(n, ident):
    return isinstance(n, ast.Name) and n.id == ident


class FragContract:
    """base class of per-class contracts (see /verif/contracts)"""
    cls_name = '?'
    properties = ()

    def configs(self, tier):
        raise NotImplementedError

    def build(self, cfg):
        """-> (real expression node over stubs, [Child...])"""
        raise NotImplementedError

    def setup(self, cx, ex, st):
        pass

    def loops(self, cx):
        return {}

    def spec(self, cx, ex, st):
        raise NotImplementedError

    HIDE = ('user_names', 'user_sorts', 'binds', 'scope_names', 'globals', 'frame_extra')

    def label(self, cfg):
        return ','.join(f'{k}={v}' for k, v in cfg.items() if k not in self.HIDE)


# ---------------------------------------------------------------------------------------------- hooks
def install_hooks(ex, cx):
    N = cx.N

    def child_call(ex, node, st):
        k = int(node.func.id[len('_CHILD_'):])
        c = cx.kids[k]
        if len(node.args) != 2:
            raise OutOfSubset('child marker arity')
        pos = ex.as_int(ex.ev(node.args[1], st))
        ex.safety(st, f'child{k}-pre-pos-in-range', node, And(0 <= pos, pos <= N))
        rho = cx.rho(st, ex)
        st.assume(*c.axioms(pos, rho, N))
        ok, res, np = c.outcome(pos, rho)
        st.assume(reach(np))
        extra = getattr(cx, 'child_value_axioms', {}).get(k)
        if extra is not None:
            st.assume(Implies(ok, And(*extra(ex, c, pos, rho))))       # typing of the child's value (part of ITS contract)
        hook = getattr(cx, 'after_child', None)
        if hook is not None:
            hook(ex, st, k, pos, rho, ok, np)
        # FRAME of an inline child: besides the registers it may assign its own temporaries - disjoint from the parent's, which come from
        # out.var and carry a fresh number - and any FIXED private name (a name starting with an underscore that was not handed out by
        # out.var, e.g. the scratch names of the operator table): a nested instance of the same class uses the same fixed names.  So a
        # parent must not rely on a fixed name across a child: they are havocked here.
        temps = getattr(cx, 'temps', None)
        if temps is not None:
            keep = {'_text', '_ctx', '_pos', '_status', '_result'} | set(temps) | set(cx.user_names) | set(cx.user_sorts)
            for nm in sorted(st.env):
                if nm.startswith('_') and nm not in keep and not nm.startswith('__'):
                    try:
                        st.env[nm] = ex.havoc_value(nm + '_after_child', st.env[nm])
                    except OutOfSubset:
                        del st.env[nm]
        st.trace.append(f'child{k}')
        st.ghost.setdefault('calls', []).append((k, pos, rho))
        return Tup([ok, res, np])

    for k in cx.kids:
        ex.call_hooks[f'_CHILD_{k}'] = child_call

    def modified_hook(ex, stmts, st):
        # a loop whose body runs an inline child: the child's frame (fixed private names, see child_call) is part of what the loop modifies
        temps = getattr(cx, 'temps', None)
        if temps is None or not any(isinstance(n, ast.Name) and n.id.startswith('_CHILD_') for s_ in stmts for n in ast.walk(s_)):
            return ()
        keep = {'_text', '_ctx', '_pos', '_status', '_result'} | set(temps) | set(cx.user_names) | set(cx.user_sorts)
        return [nm for nm in st.env if nm.startswith('_') and nm not in keep and not nm.startswith('__')]
    ex.modified_hook = modified_hook

    def yield_hook(ex, node, v, st):
        # request to the driver: (CALL, f, pos) -> the callee's outcome triple
        if isinstance(v, Tup) and len(v.items) > 3:
            # protocol of the driver: _run memoises on the WHOLE request tuple, so anything beyond (CALL, callee, position) becomes part of
            # the memo key (one evaluation per referring site instead of one per rule and position)
            ex.vcs.append(VC(f'safety:request-is-the-triple (CALL, callee, position): nothing else enters the memo key@{ex.ordn(node)}', st.pc + st.guards,
                             BoolVal(False), 'safety', path=list(st.trace)))           # reported, not assumed: the rest is checked as for a triple
            v = Tup(v.items[:3])
        if not (isinstance(v, Tup) and len(v.items) == 3):
            raise OutOfSubset('yield of a non-request')
        tag, f, pos = v.items
        ex.safety(st, 'request-tag-is-CALL', node, ex.as_int(tag) == 3)
        pos = ex.as_int(pos)
        ex.safety(st, 'request-pos-in-range', node, And(0 <= pos, pos <= N))
        f = ex.box(f)
        ok = d_ok(f, pos)
        st.assume(Implies(ok, And(0 <= d_end(f, pos), d_end(f, pos) <= N)),
                  Implies(Not(ok), And(0 <= d_fpos(f, pos), d_fpos(f, pos) <= N, is_err(d_err(f, pos)))))
        ign = cx.ignored_callee() if hasattr(cx, 'ignored_callee') else None
        if ign is not None:
            st.assume(Implies(f == ign, ok))     # the _ignored rule is Skip(...): always succeeds (C01 Skip / C04 wiring)
        np = If(ok, d_end(f, pos), d_fpos(f, pos))
        st.assume(reach(np))
        st.trace.append('yield')
        st.ghost.setdefault('requests', []).append((f, pos))
        return Tup([ok, If(ok, d_val(f, pos), d_err(f, pos)), np])

    ex.yield_hook = yield_hook

    def name_hook(ex, ident, st):
        if ident.startswith('_raise_error'):
            c = Const(ident, Val)
            ex.axiom(is_err(c))
            return c
        if ident.startswith('_try_') or ident in ('_ctx', '_super_ctx') or ident.startswith('_parse_function_'):
            return Const(ident, Val)
        g = cx.cfg.get('globals', {})
        if ident in g:
            return Const(f'G_{ident}', Val) if g[ident] == 'val' else Const(f'G_{ident}', I)
        if ident in getattr(cx, 'ctor_names', ()):
            return Opaque('ctor', name=ident, as_val=Const(f'CLASS_{ident}', Val))
        return None

    ex.name_hook = name_hook

    def ctx_attr(ex, node, recv, st):
        # _ctx.<name> / _ctx._super_ctx.<name>: late-bound attribute of the run-time context
        if isinstance(recv, z3.ExprRef) and recv.sort() == Val and str(recv).startswith(('_ctx', '_super_ctx')):
            return Const(f'{recv}.{node.attr}', Val)
        return NotImplemented

    ex.attr_hooks['*'] = ctx_attr

    # ---- regex
    def compile_re(ex, node, st):
        pat = ex.ev(node.args[0], st)
        flags = None
        for kw in node.keywords:
            if kw.arg == 'flags':
                flags = ast.unparse(kw.value)
        if not isinstance(pat, StrLit):
            raise OutOfSubset('non literal pattern')
        pid = ex.lit(('re', pat.value, flags))
        return Opaque('re', pid=pid, pattern=pat.value, flags=flags)

    ex.call_hooks['_compile_re'] = compile_re

    def attr_match(ex, node, recv, st):
        if isinstance(recv, Opaque) and recv.tag == 're':
            return Opaque('matcher', pid=recv.pid, pattern=recv.pattern, flags=recv.flags)
        return NotImplemented

    ex.attr_hooks['match'] = attr_match

    def call_value(ex, node, fv, st):
        if isinstance(fv, Opaque) and fv.tag == 'matcher':
            if len(node.args) != 2:
                raise OutOfSubset('matcher arity')
            t = ex.ev(node.args[0], st)
            if t is not cx.text:
                raise OutOfSubset('matcher applied to something else than _text')
            pos = ex.as_int(ex.ev(node.args[1], st))
            ex.safety(st, 'matcher-pos-in-range', node, And(0 <= pos, pos <= N))
            ok = re_ok(fv.pid, pos)
            st.assume(Implies(ok, And(pos <= re_end(fv.pid, pos), re_end(fv.pid, pos) <= N, reach(re_end(fv.pid, pos)))))
            return Opaque('match', pid=fv.pid, pos=pos, truth=ok, is_none=Not(ok))       # a match object, or None
        if isinstance(fv, z3.ExprRef) and fv.sort() == Val:
            # user callable (predicate / |> function): pure, total, one argument
            if len(node.args) != 1 or node.keywords:
                raise OutOfSubset('user callable arity')
            return app(fv, ex.box(ex.ev(node.args[0], st)))
        if isinstance(fv, Opaque) and fv.tag == 'ctor':
            return construct(ex, node, fv, st)
        return NotImplemented

    ex.call_hooks['*value'] = call_value

    def generic_call(ex, node, st):
        f = node.func
        if isinstance(f, ast.Name) and f.id not in st.env:
            fv = ex.ev(f, st)
            return call_value(ex, node, fv, st)
        return NotImplemented

    ex.call_hooks['*'] = generic_call

    def m_end(ex, node, recv, st):
        if isinstance(recv, Opaque) and recv.tag == 'match':
            ex.safety(st, 'match-not-none', node, recv.truth)
            return re_end(recv.pid, recv.pos)
        return NotImplemented

    def m_group(ex, node, recv, st):
        if isinstance(recv, Opaque) and recv.tag == 'match':
            ex.safety(st, 'match-not-none', node, recv.truth)
            a = ex.ev(node.args[0], st)
            if not (isinstance(a, z3.IntNumRef) and a.as_long() == 0):
                raise OutOfSubset('group(k), k != 0')
            return re_val(recv.pid, recv.pos)
        return NotImplemented

    ex.method_hooks['end'] = m_end
    ex.method_hooks['group'] = m_group

    # ---- parsed objects (class bodies): allocation, _metadata, position_info
    def construct(ex, node, ctor, st):
        o = ex.fv(f'obj_{ctor.name}', Val)
        stamp = st.ghost.get('alloc', 0) + 1
        st.ghost['alloc'] = stamp
        args = [ex.box(ex.ev(a, st)) for a in node.args]
        if node.keywords:
            raise OutOfSubset('constructor keywords')
        st.assume(kind(o) == K_OBJ, class_of(o) == ctor.as_val, nfields(o) == len(args), birth(o) == stamp,
                  md_owner(md(o)) == o, truthy(o))
        for i, a in enumerate(args):
            st.assume(field(o, i) == a)
        # fresh: distinct from every object allocated earlier on this path and from everything that existed at entry
        st.assume(birth(o) > 0)
        for prev in st.ghost.get('objects', []):
            st.assume(o != prev)
        st.ghost.setdefault('objects', []).append(o)
        # a new _Metadata() has no position_info
        st.heap.setdefault('position_info', Array('H0_position_info', Val, Val))
        st.ghost.setdefault('fresh_md', []).append(md(o))
        return o

    def attr_metadata(ex, node, recv, st):
        if isinstance(recv, z3.ExprRef) and recv.sort() == Val:
            ex.safety(st, 'has-_metadata', node, kind(recv) == K_OBJ)
            return md(recv)
        return NotImplemented

    ex.attr_hooks['_metadata'] = attr_metadata

    def setattr_hook(ex, tgt, recv, v, st):
        if tgt.attr == 'position_info' and isinstance(recv, z3.ExprRef) and recv.sort() == Val:
            h = st.heap.setdefault('position_info', Array('H0_position_info', Val, Val))
            st.heap['position_info'] = Store(h, recv, ex.box(v))
            st.ghost.setdefault('writes', []).append(('position_info', recv))
            return True
        return False

    ex.setattr_hook = setattr_hook


# ---------------------------------------------------------------------------------------------- one unit
class UnitResult:
    def __init__(self, unit, cfg):
        self.unit, self.cfg = unit, cfg
        self.verdicts = []
        self.error = None          # ('out-of-subset' | 'role' | 'crash', message)
        self.src = None
        self.paths = 0
        self.stats = {}
        self.flags = None
        self.ground = []           # exactly decided obligations: (name, bool, note)
        self.wall = 0.0
        self.uncovered = 0
        self.child_access = []
        self.bounded = None        # bounded native stand-in of a unit that left the verifier's reach: {'tried', 'bound', 'violations'}


def generic_clauses(cx, ex, st, oc):
    e = st.env
    status, result, pos = e.get('_status'), e.get('_result'), e.get('_pos')
    if status is None or result is None:
        raise OutOfSubset('register unassigned at exit')
    raw_status = status
    status = ex.truth(status, st)
    result = ex.box(result)
    node = cx.node
    # protocol of the driver: a final answer is told from a request by `answer[0] != CALL` - the status register must hold a bool (True /
    # False), not merely something truthy: a truthy 3 would be read as a request
    if isinstance(raw_status, (bool, z3.BoolRef)):
        yield 'G-bool', BoolVal(True)
    elif isinstance(raw_status, z3.ExprRef) and raw_status.sort() == Val:
        from .symx import kind as _kind, K_BOOL as _K_BOOL
        yield 'G-bool', _kind(raw_status) == _K_BOOL
    else:
        yield 'G-bool', BoolVal(False)
    yield 'G-ok', status == oc.ok
    yield 'G-val', Implies(oc.ok, result == ex.box(oc.val))
    yield 'G-end', Implies(oc.ok, pos == oc.end)
    yield 'G-err', Implies(Not(oc.ok), is_err(result))
    yield 'G-fpos', Implies(Not(oc.ok), reach(pos))
    yield 'G-range', And(0 <= pos, pos <= cx.N)
    if node.always_succeeds():
        yield 'G-as', oc.ok
    if not node.can_partially_succeed():
        yield 'G-cps', Implies(Not(oc.ok), pos == cx.p0)
    for name in cx.cfg.get('scope_names', []):
        if name in cx.entry_env:
            yield f'G-scope[{name}]', ex.box(e[name]) == ex.box(cx.entry_env[name])
    for nm, f in oc.extra:
        yield nm, f


def verify_config(contract, cfg, both=False, z3_timeout=None):
    """generate and discharge every VC of one (class, configuration) unit"""
    t0 = time.time()
    label = f'fragment:{contract.cls_name}[{contract.label(cfg)}]'
    res = UnitResult(label, cfg)
    cx = None
    try:
        frag.ACCESS_LOG.clear()
        node, kids = contract.build(cfg)
        uses_context = bool(cfg.get('ctx', False))
        src, temps = frag.emit_with_names(node, uses_context, max_num_blocks=cfg.get('max_num_blocks'))
        frag.flags_of(node)
        res.child_access = sorted(frag.ACCESS_LOG)
        res.src = src
        tree = ast.parse(src)
        cx = Cx(contract, cfg, node, kids, uses_context)
        cx.src, cx.tree, cx.temps = src, tree, temps
        res.flags = frag.flags_of(node)
        # G-flags (ground): admissible pair
        res.ground.append(('G-flags', res.flags in frag.FLAGS, f'flags={res.flags}'))
        # G-frame (syntactic, exact): stores only to registers, own temporaries, declared user names
        allowed = {'_status', '_result', '_pos'} | temps | set(cfg.get('binds', [])) | set(cfg.get('frame_extra', []))
        stored = set()
        for n in ast.walk(tree):
            if isinstance(n, ast.Name) and isinstance(n.ctx, ast.Store):
                stored.add(n.id)
            if isinstance(n, (ast.FunctionDef, ast.ClassDef)):
                stored.add(n.name)
        # names starting with an underscore are the generator's private name space (disjointness from USER names is C20's obligation);
        # the protocol inputs may never be assigned
        extra = sorted(x for x in stored - allowed if not x.startswith('_') or x in ('_text', '_ctx'))
        res.ground.append(('G-frame', not extra, f'stores outside frame: {extra}' if extra else 'ok'))
        loops = contract.loops(cx)
        ex = Exec(tree, loops)
        cx.ex = ex
        install_hooks(ex, cx)
        st = St(env={'_pos': cx.p0, '_text': cx.text, '_status': cx.status_in, '_result': cx.result_in},
                pc=[cx.N >= 0, 0 <= cx.p0, cx.p0 <= cx.N, reach(cx.p0)])
        for name, sort in cx.user_sorts.items():
            st.env[name] = Const(f'U_{name}', I if sort == 'int' else Val)
        contract.setup(cx, ex, st)
        cx.entry_env = dict(st.env)
        finals = ex.run(tree.body, st)
        vcs = list(ex.vcs)
        npaths = 0
        for k, q in finals:
            if k != 'fall':
                raise OutOfSubset(f'fragment leaves by {k}')
            npaths += 1
            oc = contract.spec(cx, ex, q)
            for nm, g in generic_clauses(cx, ex, q, oc):
                vcs.append(VC(f'post:{nm}', q.pc, g, 'post', path=list(q.trace)))
            # vacuity guard: the path condition itself must be satisfiable
            vcs.append(VC('cover:path-feasible', q.pc, BoolVal(False), 'cover', path=list(q.trace)))
            # must-fail guards: deliberately WRONG variants of the main clauses; an engine / contract that can prove them on
            # every path proves anything (checked per unit: at least one path must refute each variant)
            e_ = q.env
            stt, pos_ = ex.truth(e_['_status'], q), e_['_pos']
            vcs.append(VC('mustfail:G-ok-negated', q.pc, stt == Not(oc.ok), 'mustfail', path=list(q.trace)))
            vcs.append(VC('mustfail:G-end-off-by-one', q.pc, pos_ == If(oc.ok, oc.end, pos_) + 1, 'mustfail', path=list(q.trace)))
            for nm, g in (contract.mustfail(cx, ex, q, oc) if hasattr(contract, 'mustfail') else ()):
                vcs.append(VC(f'mustfail:{nm}', q.pc, g, 'mustfail', path=list(q.trace)))
        res.paths = npaths
        res.uncovered = len(ex.all_stmts - ex.covered)
        res.stats = dict(ex.stats)
        if npaths == 0:
            res.error = ('vacuous', 'no feasible path through the fragment')
        nreplays = 0
        infeasible_paths = set()
        mustfail = {}
        for vc in vcs:
            kw = {} if z3_timeout is None else {'z3_timeout': z3_timeout}
            if vc.kind == 'mustfail':
                v = discharge(vc, ex.axioms, both=False, z3_timeout=1500)       # only `unsat` matters here; unknown = not proved = fine
            else:
                small = [[cx.N <= b] for b in (3, 8, 40)] if vc.kind != 'cover' else None
                v = discharge(vc, ex.axioms, both=both and vc.kind != 'cover', small=small, **kw)
            if vc.kind == 'mustfail':
                mustfail.setdefault(vc.name, []).append(v.status)
                continue
            if vc.kind == 'cover':
                # must be SAT (hypotheses consistent)
                if v.status == 'unsat':
                    infeasible_paths.add(tuple(vc.path or ()))      # explored but infeasible: its VCs hold vacuously, not counted
                continue
            if v.status == 'sat':
                m = v.model
                v.model = extract_model(cx, ex, m)
                if m is not None and nreplays < 6:
                    nreplays += 1
                    from . import replay as _rp
                    try:
                        v.note = _rp.replay(cx, ex, m, contract)
                    except Exception as e:      # a crashing replay is a checker problem, not a verdict
                        v.note = {'reproduced': None, 'reason': f'replay crashed: {type(e).__name__}: {e}'}
            res.verdicts.append(v)
        if npaths and len(infeasible_paths) >= npaths:
            res.error = ('vacuous', 'every explored path has a contradictory path condition')
        # failed / undecided VCs without a natively reproduced counter-model (typical for loop units: the model of an invariant VC
        # is a mid-loop state): look for a concrete failing child behaviour by bounded native enumeration (never counts as proved)
        open_ = [v for v in res.verdicts if v.status != 'unsat' and not (isinstance(v.note, dict) and v.note.get('reproduced'))]
        if open_:
            from . import replay as _rp
            try:
                bad, tried, bound = _rp.bounded_fragment(cx, contract)
            except Exception as e:
                bad, tried, bound = [], 0, f'bounded stand-in crashed: {type(e).__name__}: {e}'
            if bad:
                for v in open_:
                    if v.status == 'sat':
                        v.note = {'reproduced': True, 'violated': bad[:2], 'bound': bound, 'tried': tried,
                                  'how': 'concrete failing child behaviour found by running the emitted text natively on every contract-conforming child behaviour over a tiny position space'}
                if not any(v.status == 'sat' for v in open_):
                    from .solve import Verdict
                    res.verdicts.append(Verdict('bounded:emitted-text-on-all-small-child-behaviours', 'post', 'sat', 'native-enumeration', 0.0,
                                                model=None, note={'reproduced': True, 'violated': bad[:2], 'bound': bound, 'tried': tried}))
        if both and not open_ and res.error is None:
            # thorough tier: CPython cross-check of the engine - everything was PROVED, so no contract-conforming child behaviour may
            # make the natively executed text disagree with the reference; a disagreement is a fault of the checker (exit 3)
            from . import replay as _rp
            try:
                bad, tried, bound = _rp.bounded_fragment(cx, contract, limit=1500)
            except Exception as e:
                bad, tried, bound = [], 0, f'crashed: {type(e).__name__}: {e}'
            if tried == 0 and getattr(contract, 'crosscheck_with_bounded', False):
                try:
                    bad, tried, bound = contract.bounded(cx)         # leaves: through the public interface of a generated grammar
                except Exception as e:
                    bad, tried, bound = [], 0, f'crashed: {type(e).__name__}: {e}'
            res.stats['cpython_crosscheck'] = {'tried': tried, 'bound': bound, 'disagreements': len(bad)}
            if bad:
                res.error = ('crash', f'UNSOUND: all VCs proved but the native run disagrees with the reference: {bad[0]}')
        for name, sts in mustfail.items():
            # G-end-off-by-one is legitimately provable when the unit can never succeed (Fail): only flag it when some path can succeed
            if sts and all(x == 'unsat' for x in sts):
                res.error = ('vacuous', f'must-fail guard {name} was PROVED on every path: the engine or the contract is vacuous')
        res.stats['mustfail'] = {k: len(v) for k, v in mustfail.items()}
    except OutOfSubset as e:
        res.error = ('out-of-subset', str(e))
    except RoleError as e:
        res.error = ('role', str(e))
    except Exception as e:
        if not contract_binding_failure(e):
            raise
        res.error = ('role', f'the contract cannot bind its roles to this code ({type(e).__name__}: {e})')
    if res.error is not None and res.error[0] in ('out-of-subset', 'role') and cx is not None and getattr(cx, 'tree', None) is not None:
        # the unit left the verifier's reach: a BOUNDED native stand-in takes its place (labelled bounded, never counted as proved);
        # a concrete failing behaviour found there is a violation with a replayed input
        from . import replay as _rp
        from .solve import Verdict
        try:
            if hasattr(contract, 'bounded'):
                bad, tried, bound = contract.bounded(cx)
            else:
                bad, tried, bound = _rp.bounded_fragment(cx, contract)
        except Exception as e2:
            bad, tried, bound = [], 0, f'bounded stand-in crashed: {type(e2).__name__}: {e2}'
        res.bounded = {'tried': tried, 'bound': bound, 'violations': len(bad)}
        if bad:
            res.verdicts.append(Verdict('bounded:emitted-text-on-all-small-child-behaviours', 'post', 'sat', 'native-enumeration', 0.0,
                                        model=None, note={'reproduced': True, 'violated': bad[:2], 'bound': bound, 'tried': tried}))
    res.wall = time.time() - t0
    return res


def extract_model(cx, ex, m):
    """turn a z3 model into a plain, picklable child script: for every child and every position in a small
    window, (ok, end, fpos) plus value tokens; enough for the native replay of the fragment"""
    if m is None:
        return None
    def ev(t):
        return m.eval(t, model_completion=True)
    out = {'p0': ev(cx.p0).as_long(), 'N': ev(cx.N).as_long(), 'children': {}, 'user': {}}
    rho_terms = {}
    N = out['N']
    hi = max(N, out['p0']) + 1
    out['status_in'] = z3.is_true(ev(cx.status_in))
    for name in list(cx.user_sorts):
        v = ev(Const(f'U_{name}', I if cx.user_sorts[name] == 'int' else Val))
        out['user'][name] = v.as_long() if cx.user_sorts[name] == 'int' else str(v)
    out['text'] = [ev(Select(cx.text.arr, IntVal(i))).as_long() for i in range(max(0, min(N, 64)))]
    out['raw'] = str(m)[:3000]
    out.pop('children', None)
    return out


def result_to_dict(res):
    """picklable / JSON-able form of a UnitResult"""
    vs = []
    for v in res.verdicts:
        d = v.brief()
        d['path'] = v.path
        if v.second:
            d['second'] = list(v.second)
        if v.status != 'unsat':
            d['model'] = v.model
            d['replay'] = v.note if isinstance(v.note, dict) else None
        vs.append(d)
    return {'unit': res.unit, 'cfg': res.cfg, 'error': res.error, 'verdicts': vs, 'ground': res.ground,
            'paths': res.paths, 'wall': round(res.wall, 3), 'src': res.src, 'flags': res.flags,
            'uncovered': res.uncovered, 'stats': res.stats, 'child_access': res.child_access, 'bounded': res.bounded}
