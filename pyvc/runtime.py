"""Extraction of the run-time functions (R): the string templates inside sourcer/translator.py are instantiated
with the SAME string.Template substitution the translator applies and parsed with ast.  Nothing is dropped
(comments excepted).  Also cuts the same functions out of sourcer/parser.py to show that the front end runs
the very same run-time text (C12 / G3)."""
import ast
import os
from string import Template

from . import paths

paths.activate()
from sourcer import translator  # noqa: E402
from sourcer import expressions as ex  # noqa: E402
from . import locate  # noqa: E402


def template_source(uses_context, start='_try_start'):
    main = Template(locate.template('main')).substitute(
        CALL=ex.CALL, ctx='_ctx, ' if uses_context else '', start=start)
    parts = [locate.template('setup')]
    if uses_context:
        parts.append(locate.template('context'))
    parts.append(main)
    return '\n'.join(parts)


def index_defs(tree):
    """name -> FunctionDef / ClassDef;  methods as 'Class.method'"""
    out = {}
    for n in tree.body:
        if isinstance(n, ast.FunctionDef):
            out[n.name] = n
        elif isinstance(n, ast.ClassDef):
            out[n.name] = n
            for m in n.body:
                if isinstance(m, ast.FunctionDef):
                    out[f'{n.name}.{m.name}'] = m
    return out


_cache = {}


def runtime(uses_context=False):
    if uses_context not in _cache:
        src = template_source(uses_context)
        tree = ast.parse(src)
        _cache[uses_context] = (src, tree, index_defs(tree))
    return _cache[uses_context]


def function(name, uses_context=False):
    return runtime(uses_context)[2][name]


def shipped_parser_defs():
    path = os.path.join(paths.REPO, 'sourcer', 'parser.py')
    with open(path) as f:
        src = f.read()
    tree = ast.parse(src)
    return src, index_defs(tree)


def generated_module_source(description, include_docstring=True):
    """text of the module the real translator generates for `description` (nothing is executed)"""
    from sourcer import grammar as G
    parsed = locate.parse_grammar()(description)
    docstring = '# Grammar definition:\n' + description
    builder = locate.generate_source_code()(docstring, parsed)
    return builder.source_code()
