"""L1 replay: a counter-model of a failed fragment VC is turned into a native experiment on the REAL
emitted text.  The text is exec'd by CPython as the body of a generator; the abstract children become
python closures scripted from the model's interpretation of ok/val/end/fpos at whatever positions the
native run visits; driver requests are answered from the model's d_* functions; the input text is a real
str/bytes built from the model's TEXT array.  The outcome is compared with the class's REFERENCE
interpreter (``contract.ref``: the same PEG meaning as the symbolic spec, written over concrete values).
"""
import sys
import textwrap
import z3
from z3 import IntVal, Select

from .symx import Val, I, NONE, is_err, lit_v, un_lit
from . import fragver as fv

MAX_N = 400
MAX_CALLS = 200


class Tok:
    """an opaque model element of sort Val, as a native python value"""
    __slots__ = ('t', 'name')

    def __init__(self, t, name=None):
        self.t, self.name = t, name or str(t)

    def __eq__(self, other):
        return isinstance(other, Tok) and self.name == other.name

    def __ne__(self, other):
        return not self.__eq__(other)

    def __hash__(self):
        return hash(self.name)

    def __repr__(self):
        return f'<{self.name}>'

    def __call__(self, *a):
        # user callable / error function applied natively: stays symbolic
        return Applied(self, a)


class Applied:
    def __init__(self, f, args):
        self.f, self.args = f, args

    def __repr__(self):
        return f'{self.f!r}({", ".join(map(repr, self.args))})'


class Diverged(Exception):
    pass


class World:
    """concrete world read off a z3 model"""

    def __init__(self, cx, ex, model):
        self.cx, self.ex, self.m = cx, ex, model
        self.p0 = self.num(cx.p0)
        self.N = self.num(cx.N)
        self.calls = 0
        self.log = []
        self.ok_replayable = 0 <= self.N <= MAX_N
        lits = set()
        for (_, v) in ex.lits:
            if isinstance(v, (str, bytes)):
                lits.update(v if isinstance(v, bytes) else map(ord, v))
        filler = next(c for c in range(1, 255) if c not in lits and c != 10)
        codes = []
        for i in range(max(0, min(self.N, MAX_N))):
            c = self.num(Select(cx.text.arr, IntVal(i)))
            hi = 256 if cx.text.is_bytes else 0x110000
            codes.append(c if 0 <= c < hi and not (0xD800 <= c < 0xE000) else filler)
        self.text = bytes(codes) if cx.text.is_bytes else ''.join(map(chr, codes))
        self.none_name = str(self.ev(NONE))

    def ev(self, t):
        return self.m.eval(t, model_completion=True)

    def num(self, t):
        return self.ev(t).as_long()

    def truth(self, t):
        return z3.is_true(self.ev(t))

    def tok(self, t):
        v = self.ev(t)
        if str(v) == self.none_name:
            return None
        # literals of the unit keep their python value
        for idx, (_, lv) in enumerate(self.ex.lits):
            if str(self.ev(lit_v(IntVal(idx)))) == str(v) and isinstance(lv, (str, bytes)):
                return lv
        return Tok(v)

    def to_term(self, x):
        """native value -> ground z3 term of sort Val"""
        if isinstance(x, Tok):
            return x.t
        if x is None:
            return NONE
        if isinstance(x, bool):
            return self.ex.box(z3.BoolVal(x))
        if isinstance(x, int):
            return self.ex.box(IntVal(x))
        if isinstance(x, (str, bytes)):
            return self.ex.lit(x)
        if isinstance(x, list):
            items = [self.to_term(i) for i in x]
            s = z3.Empty(fv.SeqV) if not items else (z3.Unit(items[0]) if len(items) == 1 else z3.Concat(*[z3.Unit(i) for i in items]))
            return self.ex.box(s)
        if isinstance(x, tuple):
            from .symx import Tup
            return self.ex.box(Tup([self.to_term(i) for i in x]))
        if isinstance(x, Applied) and len(x.args) == 1:
            from .symx import app
            return app(self.to_term(x.f), self.to_term(x.args[0]))
        raise Diverged(f'cannot map native value {x!r} back to a term')

    def tick(self):
        self.calls += 1
        if self.calls > MAX_CALLS:
            raise Diverged('more than %d child calls (non well-formed model: repetition without progress)' % MAX_CALLS)

    def rho(self, user_env):
        cx = self.cx
        if not cx.user_names:
            return fv.RHO0
        n = len(cx.user_names)
        vals = [self.to_term(user_env[nm]) if nm in user_env else z3.Const(f'UNBOUND_{nm}', Val) for nm in cx.user_names]
        return fv.env_f[n](*vals)

    def child(self, k, pos, user_env=None):
        self.tick()
        c = self.cx.kids[k]
        p = IntVal(pos)
        rho = self.rho(user_env or {})
        ok = self.truth(c.ok(p, rho))
        if ok:
            r = (True, self.tok(c.val(p, rho)), self.num(c.end(p, rho)))
        else:
            r = (False, self.tok(c.err(p, rho)), self.num(c.fpos(p, rho)))
        self.log.append((f'child{k}', pos, r[0], r[2]))
        # the model constrains the child only where the symbolic path called it: elsewhere its table may be anything.  A native
        # call that lands on an answer outside the child's own contract says nothing about the fragment.
        if not (0 <= r[2] <= self.N) or (c.a_s and not ok) or (not ok and not c.cps and r[2] != pos) or (not ok and not self.truth(is_err(c.err(p, rho)))):
            raise Diverged(f'the counter-model answers child{k} at {pos} outside the child contract (unconstrained point of the model)')
        return r

    def request(self, f, pos):
        self.tick()
        ft = self.to_term(f)
        p = IntVal(pos)
        ok = self.truth(fv.d_ok(ft, p))
        if ok:
            r = (True, self.tok(fv.d_val(ft, p)), self.num(fv.d_end(ft, p)))
        else:
            r = (False, self.tok(fv.d_err(ft, p)), self.num(fv.d_fpos(ft, p)))
        self.log.append((f'request {f!r}', pos, r[0], r[2]))
        return r

    def re_match(self, pattern, flags_src, pos):
        pid = self.ex.lit(('re', pattern, flags_src))
        p = IntVal(pos)
        if not self.truth(fv.re_ok(pid, p)):
            return None
        return (self.num(fv.re_end(pid, p)), self.tok(fv.re_val(pid, p)))

    def is_err(self, x):
        try:
            return self.truth(is_err(self.to_term(x)))
        except Diverged:
            return False


class _Ctx:
    def __init__(self, prefix):
        object.__setattr__(self, '_p', prefix)

    def __getattr__(self, name):
        v = Tok(z3.Const(f'{self._p}.{name}', Val))
        if name == '_super_ctx':
            return _Ctx(f'{self._p}.{name}')
        return v


class _Match:
    def __init__(self, end, val):
        self._e, self._v = end, val

    def end(self):
        return self._e

    def group(self, k):
        assert k == 0
        return self._v


class _NativeObj:
    """stand-in for a generated ParsedObject subclass instance"""
    def __init__(self, cls, args):
        self.cls, self.args = cls, list(args)
        self._metadata = type('MD', (), {})()

    def __repr__(self):
        return f'{self.cls}({", ".join(map(repr, self.args))})@{getattr(self._metadata, "position_info", None)}'

    def __eq__(self, other):
        if isinstance(other, tuple) and len(other) == 3:
            return (self.cls, self.args, getattr(self._metadata, 'position_info', None)) == (other[0], list(other[1]), tuple(other[2]))
        return self is other

    def __ne__(self, other):
        return not self.__eq__(other)

    __hash__ = object.__hash__


def run_native(cx, ex, W):
    """exec the emitted text natively.  -> dict(status, result, pos, locals) or raises"""
    src = cx.src
    user = {}
    for name, sort in cx.user_sorts.items():
        c = z3.Const(f'U_{name}', I if sort == 'int' else Val)
        user[name] = W.num(c) if sort == 'int' else W.tok(c)
    glob = {}

    def mk_child(k):
        def _child(_text, _pos):
            loc = sys._getframe(1).f_locals      # the fragment's frame: current values of the user-visible names
            frame_user = {nm: loc[nm] for nm in cx.user_names if nm in loc}
            return W.child(k, _pos, frame_user)
        return _child

    for k in cx.kids:
        glob[f'_CHILD_{k}'] = mk_child(k)

    class _G(dict):
        def __missing__(self, key):
            if key.startswith('_raise_error') or key.startswith('_try_') or key.startswith('_parse_function_'):
                return Tok(z3.Const(key, Val))
            g = cx.cfg.get('globals', {})
            if key in g:
                c = z3.Const(f'G_{key}', Val if g[key] == 'val' else I)
                return W.tok(c) if g[key] == 'val' else W.num(c)
            if key in getattr(cx, 'ctor_names', ()):
                return lambda *a: _NativeObj(key, a)
            import builtins
            if hasattr(builtins, key):
                return getattr(builtins, key)
            raise KeyError(key)

    g = _G(glob)
    g['_ctx'] = _Ctx('_ctx')
    g['_super_ctx'] = _Ctx('_super_ctx')
    g['_IGNORECASE'] = '_IGNORECASE'

    def _compile_re(pattern, flags=0):
        fs = '_IGNORECASE' if flags == '_IGNORECASE' else str(flags)

        class _M:
            @staticmethod
            def match(text, pos):
                r = W.re_match(pattern, fs, pos)
                return None if r is None else _Match(*r)
        return _M

    g['_compile_re'] = _compile_re
    params = ['_text', '_pos', '_status', '_result'] + sorted(user)
    body = textwrap.indent(src, '    ') if src.strip() else '    pass\n'
    code = (f"def __frag__({', '.join(params)}):\n"
            f"{body}\n"
            f"    yield ('__done__', _status, _result, _pos, dict(locals()))\n")
    exec(compile(code, '<fragment>', 'exec'), g)
    args = [W.text, W.p0, W.truth(cx.status_in), W.tok(cx.result_in)] + [user[k] for k in sorted(user)]
    gen = g['__frag__'](*args)
    r = gen.send(None)
    while not (isinstance(r, tuple) and r and r[0] == '__done__'):
        if not (isinstance(r, tuple) and len(r) == 3 and r[0] == 3):
            raise Diverged(f'unexpected yield {r!r}')
        r = gen.send(W.request(r[1], r[2]))
    _, status, result, pos, loc = r
    return {'status': status, 'result': result, 'pos': pos, 'locals': loc, 'user': user}


def replay(cx, ex, model, contract):
    """-> dict(reproduced: bool|None, reason, native, expected, log)"""
    W = World(cx, ex, model)
    out = {'reproduced': None, 'p0': W.p0, 'N': W.N, 'text': repr(W.text)}
    if not W.ok_replayable:
        out['reason'] = f'model too large to replay (N={W.N})'
        return out
    try:
        nat = run_native(cx, ex, W)
    except Diverged as e:
        out['reason'] = f'replay diverged: {e}'
        out['log'] = W.log[-20:]
        return out
    except (IndexError, KeyError, TypeError, ValueError, AttributeError, NameError, UnboundLocalError) as e:
        out.update(reproduced=True, reason=f'native run raised {type(e).__name__}: {e}', clause='safety', log=W.log[-20:])
        return out
    out['native'] = {'status': nat['status'], 'result': repr(nat['result']), 'pos': nat['pos']}
    out['log'] = W.log[-20:]
    node = cx.node
    bad = []
    pos, status, result = nat['pos'], bool(nat['status']), nat['result']
    if not (0 <= pos <= W.N):
        bad.append(('G-range', f'_pos={pos} outside [0,{W.N}]'))
    if hasattr(contract, 'ref'):
        W2 = World(cx, ex, model)    # fresh call budget / log for the reference run
        try:
            ok, val, end = contract.ref(cx, W2, nat['user'])
        except Diverged as e:
            out['reason'] = f'reference diverged: {e}'
            return out
        out['expected'] = {'ok': ok, 'val': repr(val), 'end': end}
        if status != ok:
            bad.append(('G-ok', f'_status={status}, spec ok={ok}'))
        elif ok:
            if result != val:
                bad.append(('G-val', f'_result={result!r}, spec {val!r}'))
            if pos != end:
                bad.append(('G-end', f'_pos={pos}, spec end={end}'))
        else:
            if not W.is_err(result):
                bad.append(('G-err', f'_result={result!r} is not an error function'))
            if not node.can_partially_succeed() and pos != W.p0:
                bad.append(('G-cps', f'failed at _pos={pos} != p0={W.p0} although can_partially_succeed() is False'))
        if node.always_succeeds() and not status:
            bad.append(('G-as', 'failed although always_succeeds() is True'))
    for name in cx.cfg.get('scope_names', []):
        if name in nat['user'] and nat['locals'].get(name) != nat['user'][name]:
            bad.append((f'G-scope[{name}]', f'{name} = {nat["locals"].get(name)!r} at exit, {nat["user"][name]!r} at entry'))
    extra = getattr(contract, 'native_check', None)
    if extra is not None:
        bad.extend(extra(cx, W, nat))
    out['reproduced'] = bool(bad)
    out['violated'] = bad
    if not bad:
        out['reason'] = 'native run agrees with the reference on this model'
    return out


# ------------------------------------------------------------------------------------------------ bounded stand-in for fragments
class ScriptWorld:
    """concrete world from explicit child tables (no solver model): used to look for a concrete failing child behaviour when a
    counter-model does not replay (loop units) or the solver leaves a VC undecided"""

    def __init__(self, cx, N, p0, tables, status_in=False):
        self.cx, self.N, self.p0, self.tables = cx, N, p0, tables
        self.text = (b'\x01' if cx.text.is_bytes else '\x01') * N
        self.calls = 0
        self.log = []
        self.status_in = status_in

    def tick(self):
        self.calls += 1
        if self.calls > 60:
            raise Diverged('more than 60 child calls')

    def child(self, k, pos, user_env=None):
        self.tick()
        ok, nxt = self.tables[k][pos]
        r = (True, ('val', k, pos), nxt) if ok else (False, ('err', k, pos), nxt)
        self.log.append((f'child{k}', pos, ok, nxt))
        return r

    def is_err(self, x):
        return isinstance(x, tuple) and x and x[0] == 'err'


def _child_tables(c, N):
    """all behaviours of one child over positions 0..N that satisfy its contract (flags)"""
    import itertools
    per_pos = []
    for p in range(N + 1):
        opts = []
        for e in range(N + 1):
            opts.append((True, e))
        if not c.a_s:
            if c.cps:
                for e in range(N + 1):
                    opts.append((False, e))
            else:
                opts.append((False, p))
        per_pos.append(opts)
    return itertools.product(*per_pos)


def bounded_fragment(cx, contract, N=2, limit=6000):
    """-> (violations, tried, bound): the emitted text run natively on EVERY contract-conforming child behaviour over positions 0..N"""
    import itertools
    import random
    import ast as _ast
    has_yield = any(isinstance(n, (_ast.Yield, _ast.YieldFrom, _ast.FunctionDef, _ast.Lambda)) for n in _ast.walk(cx.tree))
    for n in _ast.walk(cx.tree):
        if isinstance(n, _ast.Call):
            f = n.func
            okc = (isinstance(f, _ast.Name) and (f.id.startswith('_CHILD_') or f.id == 'len')) or (isinstance(f, _ast.Attribute) and f.attr in ('append', 'pop'))
            if not okc:
                has_yield = True          # user callables / constructors / globals: the scripted world cannot answer them
    if cx.cfg.get('globals'):
        has_yield = True
    if not hasattr(contract, 'ref') or has_yield or cx.user_names or cx.user_sorts or getattr(cx, 'ctor_names', None) \
            or any(isinstance(v, (str, bytes, tuple)) and v for _, v in cx.ex.lits):
        return [], 0, 'not applicable to this unit (real leaves / user names)'
    ks = sorted(cx.kids)
    spaces = [list(_child_tables(cx.kids[k], N)) for k in ks]
    total = 1
    for s in spaces:
        total *= len(s)
    rnd = random.Random(0)
    bad, tried = [], 0
    combos = itertools.product(*spaces) if total <= limit else (tuple(rnd.choice(s) for s in spaces) for _ in range(limit))
    body = textwrap.indent(cx.src, '    ') if cx.src.strip() else '    pass\n'
    code = f"def __frag__(_text, _pos, _status, _result):\n{body}\n    return ('__done__', _status, _result, _pos)\n"
    for combo in combos:
        tables = {k: dict(enumerate(t)) for k, t in zip(ks, combo)}
        for p0 in range(N + 1):
            tried += 1
            W = ScriptWorld(cx, N, p0, tables)
            g = {f'_CHILD_{k}': (lambda k: (lambda _text, _pos: W.child(k, _pos)))(k) for k in ks}

            class _G(dict):
                def __missing__(self, key):
                    if key.startswith('_raise_error'):
                        return ('err', key)
                    import builtins
                    return getattr(builtins, key)
            gg = _G(g)
            try:
                exec(compile(code, '<fragment>', 'exec'), gg)
                r = gg['__frag__'](W.text, p0, False, None)
                W2 = ScriptWorld(cx, N, p0, tables)
                ok, val, end = contract.ref(cx, W2, {})
            except Diverged:
                continue
            except (IndexError, KeyError, TypeError, ValueError, AttributeError, NameError, UnboundLocalError) as e:
                bad.append({'p0': p0, 'N': N, 'children': {k: dict(t) for k, t in tables.items()}, 'raised': f'{type(e).__name__}: {e}'})
                if len(bad) >= 3:
                    return bad, tried, f'all child behaviours over positions 0..{N}'
                continue
            _, status, result, pos = r
            why = None
            if bool(status) != ok:
                why = f'_status={status}, spec ok={ok}'
            elif ok and (result != val or pos != end):
                why = f'(_result, _pos)=({result!r}, {pos}), spec ({val!r}, {end})'
            elif not ok and not W.is_err(result):
                why = f'_result={result!r} is not an error function'
            elif not ok and not cx.node.can_partially_succeed() and pos != p0:
                why = f'failed at _pos={pos} != p0={p0} although can_partially_succeed() is False'
            elif not (0 <= pos <= N):
                why = f'_pos={pos} out of range'
            if why:
                bad.append({'p0': p0, 'N': N, 'children (k -> pos -> (ok, next pos))': {k: dict(t) for k, t in tables.items()}, 'violated': why, 'log': W.log[-8:]})
                if len(bad) >= 3:
                    return bad, tried, f'all child behaviours over positions 0..{N}'
    return bad, tried, f'{"all" if total <= limit else str(limit) + " sampled"} contract-conforming child behaviours over positions 0..{N}, every start position'
