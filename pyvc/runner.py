"""Process runner: one forked process per unit (class x configuration), at most `procs` at a time, each under a hard
wall-clock budget (z3's own timeout is soft: quantifier instantiation can ignore it) and a z3 memory cap.  Workers
return plain dicts through a pipe.  A unit that exceeds its budget is UNDECIDED (never a verdict)."""
import multiprocessing as mp
import os
import time
import traceback

UNIT_BUDGET_S = {'quick': 600, 'thorough': 1200}


def _work(kind, payload):
    try:
        if kind == 'fragment':
            from .fragver import verify_config, result_to_dict
            contract, cfg, both = payload
            return result_to_dict(verify_config(contract, cfg, both=both))
        if kind == 'call':
            fn, args = payload
            return fn(*args)
        raise ValueError(kind)
    except Exception as e:
        from .report import raised_by_the_code_under_test
        where = raised_by_the_code_under_test(e)
        if where:
            # the REAL code of the repository raised while it was run on a legal configuration (e.g. the generator cannot compile this
            # combination of children): that is a violation with a concrete configuration, not a fault of the checker
            return {'unit': _label(kind, payload), 'verdicts': [{'obligation': 'the real code handles this legal configuration without raising', 'kind': 'ground',
                                                                  'verdict': 'sat', 'solver': 'native', 'time_s': 0.0, 'path': None, 'model': None,
                                                                  'replay': {'reproduced': True, 'raised': f'{type(e).__name__}: {e}', 'where': where,
                                                                             'traceback': traceback.format_exc()[-1200:]}}],
                    'ground': [], 'paths': 1}
        return {'unit': 'job', 'crash': traceback.format_exc(), 'verdicts': [], 'ground': [], 'error': ('crash', traceback.format_exc()[-800:])}


def _child(conn, kind, payload):
    try:
        import resource
        lim = 6 * 1024 ** 3                        # address-space cap per worker: a runaway solver dies, the unit is UNDECIDED
        resource.setrlimit(resource.RLIMIT_AS, (lim, lim))
    except Exception:
        pass
    r = _work(kind, payload)
    try:
        conn.send(r)
    except Exception:
        try:
            import json
            conn.send(json.loads(json.dumps(r, default=str)))        # a native value (a closure, a match object) inside a replay record: sent as text
        except Exception:
            conn.send({'unit': 'job', 'crash': 'result not picklable: ' + traceback.format_exc()[-400:], 'verdicts': [], 'ground': [],
                       'error': ('crash', 'result not picklable')})
    conn.close()


def _label(kind, payload):
    try:
        if kind == 'fragment':
            c, cfg, _ = payload
            return f'fragment:{c.cls_name}[{c.label(cfg)}]'
        fn, args = payload
        c, cfg = args[0], args[1]
        return f'runtime:{c.fn_name}[{c.label(cfg)}]'
    except Exception:
        return 'job'


def run_jobs(jobs, procs=None, budget=None):
    """jobs: list of (kind, payload).  Returns results in job order."""
    jobs = list(jobs)
    budget = budget or UNIT_BUDGET_S.get(os.environ.get('VERIF_TIER_ACTIVE', 'quick'), 150)
    procs = procs or min(16, os.cpu_count() or 4)
    out = [None] * len(jobs)
    if procs <= 1:
        for i, (k, p) in enumerate(jobs):
            out[i] = _work(k, p)
        return out
    ctx = mp.get_context('fork')
    pending = list(range(len(jobs)))
    running = {}     # idx -> (proc, conn, t0)
    while pending or running:
        while pending and len(running) < procs:
            i = pending.pop(0)
            parent, child = ctx.Pipe(duplex=False)
            p = ctx.Process(target=_child, args=(child, jobs[i][0], jobs[i][1]), daemon=True)
            p.start()
            child.close()
            running[i] = (p, parent, time.time())
        done = []
        for i, (p, conn, t0) in running.items():
            if conn.poll(0):
                try:
                    out[i] = conn.recv()
                except EOFError:
                    out[i] = {'unit': _label(*jobs[i]), 'verdicts': [], 'ground': [], 'error': ('crash', f'worker died (exit {p.exitcode})')}
                done.append(i)
            elif not p.is_alive():
                # the worker may have sent its result just before exiting: look once more before declaring it dead
                if conn.poll(0.5):
                    try:
                        out[i] = conn.recv()
                    except EOFError:
                        out[i] = {'unit': _label(*jobs[i]), 'verdicts': [], 'ground': [], 'error': ('crash', f'worker died (exit {p.exitcode})')}
                else:
                    out[i] = {'unit': _label(*jobs[i]), 'verdicts': [], 'ground': [], 'error': ('crash', f'worker died without a result (exit {p.exitcode}; memory cap?)')}
                done.append(i)
            elif time.time() - t0 > budget:
                p.kill()
                out[i] = {'unit': _label(*jobs[i]), 'verdicts': [], 'ground': [],
                          'error': ('timeout', f'unit exceeded its wall-clock budget of {budget}s (solver did not honour its own timeout); no verdict')}
                done.append(i)
        for i in done:
            p, conn, _ = running.pop(i)
            p.join(timeout=1)
            conn.close()
        if not done:
            time.sleep(0.01)
    return out
