"""Process-pool runner: one task per unit (class x configuration); workers return plain dicts."""
import multiprocessing as mp
import os
import time
import traceback

_JOBS = []


def _work(i):
    kind, payload = _JOBS[i]
    try:
        if kind == 'fragment':
            from .fragver import verify_config, result_to_dict
            contract, cfg, both = payload
            return i, result_to_dict(verify_config(contract, cfg, both=both))
        if kind == 'call':
            fn, args = payload
            return i, fn(*args)
        raise ValueError(kind)
    except Exception:
        return i, {'unit': f'job{i}', 'crash': traceback.format_exc(), 'verdicts': [], 'ground': [], 'error': ('crash', traceback.format_exc()[-800:])}


def run_jobs(jobs, procs=None):
    """jobs: list of (kind, payload).  Returns results in job order."""
    global _JOBS
    _JOBS = list(jobs)
    procs = procs or min(16, os.cpu_count() or 4, max(1, len(jobs)))
    out = [None] * len(jobs)
    if procs <= 1 or len(jobs) <= 1:
        for i in range(len(jobs)):
            out[i] = _work(i)[1]
        return out
    ctx = mp.get_context('fork')
    with ctx.Pool(processes=procs) as pool:
        for i, r in pool.imap_unordered(_work, range(len(jobs)), chunksize=1):
            out[i] = r
    return out
