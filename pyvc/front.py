"""The real front end, used for ground / case-complete obligations: description text -> syntax tree (shipped
generated parser) -> expression objects (real translator._create_parsing_expression)."""
from . import paths

paths.activate()

from sourcer import parser, translator, grammar as grammar_mod  # noqa: E402
from sourcer import expressions as ex  # noqa: E402
from . import frag  # noqa: E402
from . import locate  # noqa: E402


def rules_of(description):
    """-> list of real expression objects (Rule / Class / ...) for the description's statements"""
    parsed = locate.parse_grammar()(description)
    return parser.transform(parsed.body, locate.create_parsing_expression())


def expr_of(text):
    """expression object for `start = <text>`"""
    rules = rules_of('start = ' + text)
    assert len(rules) == 1 and rules[0].name == 'start', rules
    return rules[0].expr


def substitute_stubs(node, mapping):
    """replace Ref(name) for name in mapping by the given stub objects, in place, anywhere below node"""
    def fix(v):
        if isinstance(v, ex.Ref) and v.name in mapping:
            return mapping[v.name]
        if isinstance(v, frag.Expression):
            substitute_stubs(v, mapping)
            return v
        if isinstance(v, (list, tuple)):
            return type(v)(fix(x) for x in v)
        if isinstance(v, ex.KeywordArg):
            v.expr = fix(v.expr)
            return v
        return v
    if isinstance(node, ex.Ref) and node.name in mapping:
        return mapping[node.name]
    for k, v in list(node.__dict__.items()):
        node.__dict__[k] = fix(v)
    return node


def emitted(node, ctx=False):
    return frag.emit(node, ctx)


def same_code(desc_a, build_b, flag_combos, names=('X1', 'X2'), ctxs=(False, True)):
    """textual identity of the fragments emitted for expression text `desc_a` and for the object returned by
    build_b(stubs...), for every child flag combination.  -> (ok, detail)"""
    for fl in flag_combos:
        for ctx in ctxs:
            sa = [frag.Stub(i + 1, *f) for i, f in enumerate(fl)]
            sb = [frag.Stub(i + 1, *f) for i, f in enumerate(fl)]
            a = substitute_stubs(expr_of(desc_a), dict(zip(names, sa)))
            b = build_b(*sb)
            ta, tb = emitted(a, ctx), emitted(b, ctx)
            import ast as _ast
            if _ast.dump(_ast.parse(ta)) != _ast.dump(_ast.parse(tb)):      # identical up to comments
                return False, {'flags': fl, 'ctx': ctx, 'a': ta, 'b': tb}
    return True, None
