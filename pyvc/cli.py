"""./check <id> [--tier quick|thorough] [--replay file]"""
import argparse
import importlib
import json
import os
import sys
import traceback


def main():
    ap = argparse.ArgumentParser()
    ap.add_argument('prop')
    ap.add_argument('--tier', default=os.environ.get('VERIF_TIER', 'quick'), choices=['quick', 'thorough'])
    ap.add_argument('--replay')
    a = ap.parse_args()
    seed = int(os.environ.get('VERIF_SEED', '0') or 0)
    os.environ['VERIF_TIER_ACTIVE'] = a.tier
    from . import paths
    sys.path.insert(0, paths.VERIF)
    paths.activate()
    if a.prop == 'selftest':
        from . import selftest
        sys.exit(selftest.main(a.tier))
    mod = importlib.import_module(f'checks.{a.prop.lower()}')
    if a.replay:
        with open(a.replay) as f:
            data = json.load(f)
        print(json.dumps({k: data.get(k) for k in ('property', 'obligation', 'replay')}, indent=1, default=str)[:6000])
        # re-run the property's check: the obligation named in the file is re-derived from the current tree
        only = data.get('obligation', '').split('/')[0]
        os.environ['VERIF_ONLY_UNIT'] = only
    try:
        code = mod.run(a.tier, seed)
    except Exception:
        traceback.print_exc()
        print(f'CHECKER-FAULT property={a.prop} crash')
        code = 3
    sys.exit(code)


if __name__ == '__main__':
    main()
