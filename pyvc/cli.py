"""./check <id> [--tier quick|thorough] [--replay file]"""
import argparse
import importlib
import json
import os
import sys
import traceback


def main():
    ap = argparse.ArgumentParser()
    ap.add_argument('prop')
    ap.add_argument('--tier', default=os.environ.get('VERIF_TIER', 'quick'), choices=['quick', 'thorough'])
    ap.add_argument('--replay')
    a = ap.parse_args()
    seed = int(os.environ.get('VERIF_SEED', '0') or 0)
    os.environ['VERIF_TIER_ACTIVE'] = a.tier
    from . import paths
    sys.path.insert(0, paths.VERIF)
    paths.activate()
    if a.prop == 'selftest':
        from . import selftest
        sys.exit(selftest.main(a.tier))
    if a.prop == 'meta':
        from . import meta
        sys.exit(meta.main())
    mod = importlib.import_module(f'checks.{a.prop.lower()}')
    if a.replay:
        with open(a.replay) as f:
            data = json.load(f)
        print(json.dumps({k: data.get(k) for k in ('property', 'obligation', 'replay')}, indent=1, default=str)[:6000])
        # re-run the property's check: the obligation named in the file is re-derived from the current tree
        only = data.get('obligation', '').split('/')[0]
        os.environ['VERIF_ONLY_UNIT'] = only
    try:
        code = mod.run(a.tier, seed)
    except Exception as e:
        from . import report
        where = report.raised_by_the_code_under_test(e)
        rep = report.CURRENT[0]
        if where and rep is not None:
            # the real code of the repository raised while a check ran it on a legal configuration: a violation (what was decided up to
            # here is kept; the rest of this check did not run)
            rep.add('native:code-under-test', f'the real code handles every legal configuration the check runs it on without raising ({type(e).__name__} at {where})',
                    'ground', False, detail={'traceback': traceback.format_exc()[-1500:]},
                    replay={'reproduced': True, 'raised': f'{type(e).__name__}: {e}', 'where': where})
            rep.notes.append('INCOMPLETE RUN: the code under test raised inside the check; obligations after that point were not generated.')
            code = rep.finish()
        else:
            traceback.print_exc()
            print(f'CHECKER-FAULT property={a.prop} crash')
            code = 3
    sys.exit(code)


if __name__ == '__main__':
    main()
