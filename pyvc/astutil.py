"""Small exact static analyses on emitted python text (ground / syntactic obligations)."""
import ast
import builtins

BUILTINS = set(dir(builtins))


def function_defs(tree):
    return [n for n in ast.walk(tree) if isinstance(n, (ast.FunctionDef, ast.Lambda))]


def params_of(fn):
    a = fn.args
    return [x.arg for x in a.posonlyargs + a.args + a.kwonlyargs] + ([a.vararg.arg] if a.vararg else []) + ([a.kwarg.arg] if a.kwarg else [])


def free_names(fn):
    """names a function body reads that are neither parameters nor assigned in the body (python scoping:
    a name assigned anywhere in the body is local).  Nested lambdas / comprehensions contribute their own frees."""
    params = set(params_of(fn))
    body = fn.body if isinstance(fn.body, list) else [fn.body]
    stored, loaded = set(), set()

    def visit(n, bound):
        if isinstance(n, ast.Lambda):
            inner = free_names(n)
            loaded.update(inner)
            return
        if isinstance(n, (ast.FunctionDef,)):
            stored.add(n.name)
            loaded.update(free_names(n))
            return
        if isinstance(n, (ast.ListComp, ast.SetComp, ast.GeneratorExp, ast.DictComp)):
            tg = set()
            for g in n.generators:
                for t in ast.walk(g.target):
                    if isinstance(t, ast.Name):
                        tg.add(t.id)
            sub_loaded = set()
            for c in ast.walk(n):
                if isinstance(c, ast.Name) and isinstance(c.ctx, ast.Load):
                    sub_loaded.add(c.id)
            loaded.update(sub_loaded - tg)
            return
        if isinstance(n, ast.Name):
            (stored if isinstance(n.ctx, (ast.Store, ast.Del)) else loaded).add(n.id)
        for c in ast.iter_child_nodes(n):
            visit(c, bound)
    for s in body:
        visit(s, set())
    return loaded - params - stored


def is_generator(fn):
    for n in ast.walk(fn):
        if n is not fn and isinstance(n, (ast.FunctionDef, ast.Lambda)):
            continue
        if isinstance(n, (ast.Yield, ast.YieldFrom)):
            # yields of nested defs do not count: check ownership
            owner = _owner(fn, n)
            if owner is fn:
                return True
    return False


def _owner(root, target):
    """innermost function containing target"""
    best = [root]

    def rec(n, cur):
        if n is target:
            best[0] = cur
            return True
        for c in ast.iter_child_nodes(n):
            nxt = c if isinstance(c, (ast.FunctionDef, ast.Lambda)) else cur
            if rec(c, nxt):
                return True
        return False
    rec(root, root)
    return best[0]


def stores_in_function_bodies(tree):
    """(function name, kind, target text) for every store that is not to a plain local: attribute / subscript stores,
    global / nonlocal declarations"""
    out = []
    for fn in [n for n in ast.walk(tree) if isinstance(n, ast.FunctionDef)]:
        for n in ast.walk(fn):
            if isinstance(n, (ast.Global, ast.Nonlocal)):
                out.append((fn.name, type(n).__name__.lower(), ','.join(n.names)))
            if isinstance(n, (ast.Attribute, ast.Subscript)) and isinstance(n.ctx, (ast.Store, ast.Del)):
                out.append((fn.name, 'attr' if isinstance(n, ast.Attribute) else 'item', ast.unparse(n)))
    return out


def max_block_depth(stmts):
    """deepest nesting of compound statements below the given statement list (0 = flat)"""
    best = 0
    for s in stmts:
        for fieldname in ('body', 'orelse', 'finalbody', 'handlers'):
            sub = getattr(s, fieldname, None)
            if sub and isinstance(sub, list) and not isinstance(s, (ast.FunctionDef, ast.ClassDef)):
                inner = [x for x in sub if isinstance(x, ast.stmt)]
                if isinstance(s, ast.If) and fieldname == 'orelse' and len(inner) == 1 and isinstance(inner[0], ast.If):
                    best = max(best, max_block_depth(inner))      # elif: same level
                else:
                    best = max(best, 1 + max_block_depth(inner))
    return best


def max_loop_depth(stmts):
    """deepest nesting of loop / try / with statements (the ones CPython's static block limit of 20 counts)"""
    best = 0
    for s in stmts:
        own = 1 if isinstance(s, (ast.While, ast.For, ast.Try, ast.With)) else 0
        for fieldname in ('body', 'orelse', 'finalbody'):
            sub = getattr(s, fieldname, None)
            if sub and isinstance(sub, list) and not isinstance(s, (ast.FunctionDef, ast.ClassDef)):
                best = max(best, own + max_loop_depth([x for x in sub if isinstance(x, ast.stmt)]))
        best = max(best, own)
    return best
