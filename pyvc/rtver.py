"""Verification of run-time functions (the templates of translator.py, extracted by pyvc.runtime)
against sidecar contracts: pre/postconditions, loop invariants, safety VCs, native replay on the real
function object."""
import ast
import time
import z3
from z3 import And, Or, Not, Implies, If, IntVal, BoolVal, Const, Function, Length, Select, Array

from . import runtime
from .symx import (Exec, St, VC, Val, I, B, SeqV, SeqI, NONE, Tup, StrLit, TextV, CharV, Opaque, OutOfSubset, LoopSpec)
from .solve import discharge
from .fragver import RoleError as _RoleError, contract_binding_failure


class Rope:
    """a python str built from literal pieces, slices of the text and runs of spaces; lengths are symbolic.
    pieces: ('lit', str) | ('slice', a, b) with 0 <= a <= b <= N shown by a safety VC | ('spaces', k) meaning ' ' * max(k,0)
            | ('opaque', tag, ...)"""
    def __init__(self, pieces):
        self.pieces = list(pieces)

    def __add__(self, other):
        return Rope(self.pieces + other.pieces)

    def __repr__(self):
        return f'Rope({self.pieces!r})'


def as_rope(v):
    if isinstance(v, Rope):
        return v
    if isinstance(v, StrLit) and isinstance(v.value, str):
        return Rope([('lit', v.value)])
    return None


class RtCx:
    def __init__(self, contract, cfg):
        self.contract, self.cfg = contract, cfg
        self.uses_context = bool(cfg.get('ctx', False))
        self.N = Const('N', I)
        self.text = TextV(Array('TEXT', I, I), self.N, bool(cfg.get('bytes', False)))
        self.fn = None
        self.ex = None


class RtContract:
    fn_name = '?'

    def configs(self, tier):
        yield {}

    def label(self, cfg):
        return ','.join(f'{k}={v}' for k, v in cfg.items())

    def function(self, cx):
        return runtime.function(self.fn_name, cx.uses_context)

    def hooks(self, cx, ex):
        pass

    def setup(self, cx, ex, st):
        raise NotImplementedError

    def loops(self, cx):
        return {}

    def post(self, cx, ex, st, how):
        """how in {'return', 'raise', 'fall'}; yields (clause, formula)"""
        raise NotImplementedError

    def replay(self, cx, ex, model):
        return None


def install_common_hooks(ex, cx):
    """python built-ins and string operations used by the run-time functions"""
    def h_isinstance(ex, node, st):
        a = ex.ev(node.args[0], st)
        cls = ast.unparse(node.args[1])
        if isinstance(a, TextV):
            if cls == 'bytes':
                return BoolVal(a.is_bytes)
            if cls == 'str':
                return BoolVal(not a.is_bytes)
        h = getattr(cx.contract, 'isinstance_hook', None)
        if h is not None:
            r = h(cx, ex, node, a, cls, st)
            if r is not NotImplemented:
                return r
        raise OutOfSubset(f'isinstance({a!r}, {cls})')
    ex.call_hooks['isinstance'] = h_isinstance

    def h_max(ex, node, st):
        a, b = [ex.as_int(ex.ev(x, st)) for x in node.args]
        return If(a >= b, a, b)
    ex.call_hooks['max'] = h_max

    def h_repr(ex, node, st):
        a = ex.ev(node.args[0], st)
        r = as_rope(a)
        if r is not None:
            return Rope([('opaque', 'repr', r)])
        raise OutOfSubset('repr')
    ex.call_hooks['repr'] = h_repr

    def binop(ex, node, a, b, st):
        if isinstance(node.op, ast.Add):
            ra, rb = as_rope(a), as_rope(b)
            if ra is not None and rb is not None:
                return ra + rb
        if isinstance(node.op, ast.Mult):
            if isinstance(a, StrLit) and a.value == ' ' and isinstance(b, z3.ArithRef):
                return Rope([('spaces', b)])
        return NotImplemented
    ex.binop_hook = binop

    def subscript(ex, node, recv, idx, st):
        return NotImplemented
    ex.subscript_hook = subscript
    # text slices become rope pieces; the contract relies on the un-clipped meaning, hence the safety VC
    orig_slice = ex.do_slice

    def do_slice(e, recv, lo, hi, st):
        if isinstance(recv, TextV) and getattr(cx, 'rope_slices', False):
            lo = IntVal(0) if lo is None else ex.as_int(lo)
            hi = recv.n if hi is None else ex.as_int(hi)
            if not recv.is_bytes:
                ex.safety(st, 'slice-unclipped', e, And(0 <= lo, lo <= hi, hi <= recv.n))
            else:
                ex.safety(st, 'slice-nonneg', e, And(0 <= lo, 0 <= hi))
            return Rope([('slice', lo, hi)])
        return orig_slice(e, recv, lo, hi, st)
    ex.do_slice = do_slice


def verify_rt(contract, cfg, both=False):
    t0 = time.time()
    label = f'runtime:{contract.fn_name}[{contract.label(cfg)}]'
    res = {'unit': label, 'cfg': cfg, 'error': None, 'verdicts': [], 'ground': [], 'paths': 0, 'src': None, 'wall': 0}
    try:
        cx = RtCx(contract, cfg)
        fn = contract.function(cx)
        cx.fn = fn
        res['src'] = ast.unparse(fn)
        mod = ast.Module(body=fn.body, type_ignores=[])
        cx.tree = mod
        ex = Exec(mod, contract.loops(cx))
        cx.ex = ex
        install_common_hooks(ex, cx)
        contract.hooks(cx, ex)
        st = St(pc=[cx.N >= 0])
        contract.setup(cx, ex, st)
        cx.entry_env = dict(st.env)
        finals = ex.run(fn.body, st)
        vcs = list(ex.vcs)
        n = 0
        for k, q in finals:
            if k in ('break', 'continue'):
                raise OutOfSubset(f'function leaves by {k}')
            n += 1
            for nm, g in contract.post(cx, ex, q, k):
                vcs.append(VC(f'post:{nm}', q.pc, g, 'post', path=list(q.trace) + [k]))
            vcs.append(VC('cover:path-feasible', q.pc, BoolVal(False), 'cover', path=list(q.trace)))
        res['paths'] = n
        if n == 0:
            res['error'] = ('vacuous', 'no feasible path')
        nrep = 0
        infeasible_paths = set()
        ncover = sum(1 for vc in vcs if vc.kind == 'cover')
        for vc in vcs:
            small = [[cx.N <= b] for b in (3, 8, 40, 200)] if vc.kind != 'cover' else None
            v = discharge(vc, ex.axioms, both=both and vc.kind != 'cover', small=small)
            if vc.kind == 'cover':
                if v.status == 'unsat':
                    infeasible_paths.add(tuple(vc.path or ()))      # explored but infeasible: its VCs hold vacuously, not counted
                continue
            d = v.brief()
            d['path'] = v.path
            if v.second:
                d['second'] = list(v.second)
            if v.status != 'unsat':
                d['model'] = {'raw': str(v.model)[:2000]} if v.model is not None else None
                d['replay'] = None
                if v.model is not None and nrep < 4:
                    nrep += 1
                    try:
                        d['replay'] = contract.replay(cx, ex, v.model)
                    except Exception as e:
                        d['replay'] = {'reproduced': None, 'reason': f'replay crashed: {type(e).__name__}: {e}'}
            res['verdicts'].append(d)
        if ncover and len(infeasible_paths) >= ncover:
            res['error'] = ('vacuous', 'every explored path has a contradictory path condition')
        # failed VCs without a natively reproduced counter-model: look for a concrete failing input with the
        # bounded native stand-in (all small inputs) and attach it as the replay
        failed = [d for d in res['verdicts'] if d['verdict'] == 'sat' and not (d.get('replay') or {}).get('reproduced')]
        undecided = [d for d in res['verdicts'] if d['verdict'] not in ('sat', 'unsat')]
        b = getattr(contract, 'bounded', None)
        if (failed or undecided) and b is not None:
            try:
                bad, tried, bound = b(cx)
            except Exception as e2:
                bad, tried, bound = [], 0, f'bounded stand-in crashed: {type(e2).__name__}: {e2}'
            res['bounded'] = {'tried': tried, 'bound': bound, 'violations': len(bad)}
            if bad:
                for d in failed:
                    d['replay'] = {'reproduced': True, 'violated': bad[:3], 'bound': bound, 'tried': tried,
                                   'how': 'concrete failing input found by evaluating the contract natively on all small inputs'}
                if not failed:
                    # the solver left obligations undecided, but the bounded stand-in refutes the contract with a concrete input
                    res['verdicts'].append({'obligation': 'bounded:contract-on-all-small-inputs', 'kind': 'post', 'verdict': 'sat',
                                            'solver': 'native-enumeration', 'time_s': 0.0, 'path': None, 'model': None,
                                            'replay': {'reproduced': True, 'violated': bad[:5], 'bound': bound, 'tried': tried}})
        if both and b is not None and res.get('error') is None and all(d['verdict'] == 'unsat' for d in res['verdicts']):
            # thorough tier: CPython cross-check of the engine and of the contract - everything was PROVED, so the contract evaluated
            # natively on all small inputs must hold too; a refutation here is a fault of the checker (exit 3), not a violation
            try:
                bad, tried, bound = b(cx)
            except Exception as e2:
                bad, tried, bound = [], 0, f'crashed: {type(e2).__name__}: {e2}'
            res.setdefault('stats', {})['cpython_crosscheck'] = {'tried': tried, 'bound': str(bound), 'disagreements': len(bad)}
            if bad:
                res['error'] = ('crash', f'UNSOUND: all VCs proved but the native evaluation of the contract fails: {bad[0]}')
    except Exception as e:
        if not isinstance(e, (OutOfSubset, _RoleError)) and not contract_binding_failure(e):
            raise
        res['error'] = ('out-of-subset' if isinstance(e, OutOfSubset) else 'role',
                        str(e) if isinstance(e, (OutOfSubset, _RoleError)) else f'the contract cannot bind its roles to this code ({type(e).__name__}: {e})')
        # the function left the verifier's subset: a BOUNDED stand-in (the contract evaluated natively on all small
        # inputs) may still refute it with a concrete input; it never counts as proved
        b = getattr(contract, 'bounded', None)
        if b is not None:
            try:
                bad, tried, bound = b(cx)
            except Exception as e2:
                bad, tried, bound = [], 0, f'bounded stand-in crashed: {type(e2).__name__}: {e2}'
            res['bounded'] = {'tried': tried, 'bound': bound, 'violations': len(bad)}
            if bad:
                res['verdicts'].append({'obligation': 'bounded:contract-on-all-small-inputs', 'kind': 'post', 'verdict': 'sat',
                                        'solver': 'native-enumeration', 'time_s': 0.0, 'path': None, 'model': None,
                                        'replay': {'reproduced': True, 'violated': bad[:5], 'bound': bound, 'tried': tried}})
    res['wall'] = round(time.time() - t0, 3)
    return res


_native = {}


def native_namespace(uses_context=False):
    """the real run-time functions as live python objects (exec of the instantiated templates)"""
    if uses_context not in _native:
        ns = {'__name__': 'verif_runtime'}
        src = runtime.template_source(uses_context)
        exec(compile(src, '<runtime templates>', 'exec'), ns)
        _native[uses_context] = ns
    return _native[uses_context]


def model_text(cx, m, cap=600):
    N = m.eval(cx.N, model_completion=True).as_long()
    if N > cap:
        return None, N
    codes = []
    for i in range(N):
        c = m.eval(Select(cx.text.arr, IntVal(i)), model_completion=True).as_long()
        hi = 256 if cx.text.is_bytes else 0x110000
        codes.append(c if 0 <= c < hi and not (0xD800 <= c < 0xE000) else (1 if c != 1 else 2))
    return (bytes(codes) if cx.text.is_bytes else ''.join(map(chr, codes))), N
