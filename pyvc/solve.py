"""Discharging VCs: z3 first (one query per VC, never merged), cvc5 on z3's `unknown`
(and on every VC in the thorough tier, disagreement = checker fault)."""
import time
import z3

Z3_TIMEOUT_MS = 10000
CVC5_TIMEOUT_MS = 30000


class Verdict:
    __slots__ = ('name', 'kind', 'status', 'solver', 'time', 'model', 'path', 'note', 'second')

    def __init__(self, name, kind, status, solver, t, model=None, path=None, note='', second=None):
        self.name, self.kind, self.status, self.solver, self.time = name, kind, status, solver, t
        self.model, self.path, self.note, self.second = model, path, note, second

    @property
    def proved(self):
        return self.status == 'unsat'

    def brief(self):
        return {'obligation': self.name, 'kind': self.kind, 'verdict': self.status, 'solver': self.solver,
                'time_s': round(self.time, 4)}


def _z3_check(axioms, pc, goal, timeout):
    s = z3.Solver()
    s.set(timeout=timeout)
    s.add(*axioms)
    s.add(*pc)
    s.add(z3.Not(goal))
    t = time.time()
    r = s.check()
    return s, str(r), time.time() - t


def cvc5_check(smt2, timeout=CVC5_TIMEOUT_MS):
    """run cvc5 (python API) on SMT-LIB2 text exported by z3; returns 'sat' | 'unsat' | 'unknown'"""
    import cvc5
    t = time.time()
    try:
        tm = cvc5.TermManager()
        slv = cvc5.Solver(tm)
        slv.setOption('tlimit-per', str(timeout))
        slv.setOption('strings-exp', 'true')
        parser = cvc5.InputParser(slv)
        parser.setStringInput(cvc5.InputLanguage.SMT_LIB_2_6, smt2, 'vc')
        sm = parser.getSymbolManager()
        res = None
        while True:
            cmd = parser.nextCommand()
            if cmd.isNull():
                break
            out = cmd.invoke(slv, sm)
            if 'unsat' in out:
                res = 'unsat'
            elif 'sat' in out and 'unsat' not in out:
                res = 'sat'
            elif 'unknown' in out:
                res = 'unknown'
        return res or 'unknown', time.time() - t
    except Exception as e:  # parser / option incompatibilities are "unknown", never a verdict
        return f'unknown({type(e).__name__}: {str(e)[:80]})', time.time() - t


def discharge(vc, axioms, both=False, z3_timeout=Z3_TIMEOUT_MS, small=None):
    """small: optional list of formula lists tried in order to obtain a SMALL counter-model (replayable);
    the verdict itself never depends on them"""
    s, r, t = _z3_check(axioms, vc.pc, vc.goal, z3_timeout)
    model = s.model() if r == 'sat' else None
    if r == 'sat' and small:
        for extra in small:
            s.push()
            s.add(*extra)
            if str(s.check()) == 'sat':
                model = s.model()
                s.pop()
                break
            s.pop()
    v = Verdict(vc.name, vc.kind, r, 'z3', t, model, vc.path, vc.note)
    if r == 'unknown' or both:
        smt2 = s.to_smt2()
        if '(set-logic' not in smt2:
            smt2 = '(set-logic ALL)\n' + smt2
        r2, t2 = cvc5_check(smt2)
        v.second = ('cvc5', r2, round(t2, 4))
        if r == 'unknown' and r2 in ('sat', 'unsat'):
            # cvc5 decides what z3 left open; a cvc5 `sat` carries no z3 model: re-ask z3 longer for the model
            v.status, v.solver, v.time = r2, 'cvc5', t + t2
            if r2 == 'sat':
                s3, r3, t3 = _z3_check(axioms, vc.pc, vc.goal, 4 * z3_timeout)
                if r3 == 'sat':
                    v.model = s3.model()
        elif both and r in ('sat', 'unsat') and r2 in ('sat', 'unsat') and r != r2:
            v.status = 'disagree'
    return v
