"""Selects the tree under verification.  VERIF_REPO (default /repo) is put FIRST on sys.path so that
``import sourcer`` resolves to that working tree (the overlay venv only supplies third-party deps)."""
import os
import sys

VERIF = os.path.dirname(os.path.dirname(os.path.abspath(__file__)))
REPO = os.path.abspath(os.environ.get('VERIF_REPO', '/repo'))


def activate():
    if sys.path[0] != REPO:
        # drop other entries pointing at a sourcer checkout (editable install of /repo)
        sys.path.insert(0, REPO)
    for name in [m for m in sys.modules if m == 'sourcer' or m.startswith('sourcer.')]:
        mod = sys.modules[name]
        f = getattr(mod, '__file__', '') or ''
        if not f.startswith(REPO + os.sep):
            del sys.modules[name]
    os.environ.setdefault('JVS_SOURCER_VERIF', '1')
    import sourcer  # noqa: F401
    assert os.path.abspath(sourcer.__file__).startswith(REPO + os.sep), (sourcer.__file__, REPO)
    return REPO
