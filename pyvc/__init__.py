"""pyvc - contract-based deductive verification machinery for jvs/sourcer.

Real code of /repo is extracted mechanically on every run (emitted fragments obtained by running the
real ``_compile`` methods over stub children; run-time functions cut out of the string templates in
``sourcer/translator.py``), verification conditions are generated from the Python AST by forward
symbolic execution against sidecar contracts (``/verif/contracts``) and discharged with z3 (cvc5 as
second opinion).  See /verif/DESIGN.md.
"""
