"""Forward symbolic executor: Python AST (the subset emitted by sourcer's generator and used by its
run-time templates) -> verification conditions over z3 terms.

Semantics assumed (DESIGN.md section 3): ints are mathematical; lists are z3 sequences of the
uninterpreted sort ``Val`` (value semantics; aliasing of a list after it was stored elsewhere is
rejected as out-of-subset when it is mutated afterwards); tuples are static; text is an array with a
length; everything outside the subset raises OutOfSubset (the unit is then UNDECIDED, never a pass).

The executor is path-by-path (no merging).  ``while True`` loops need an invariant from the contract
(havoc / assume / check) unless every path through the body ends in ``break`` (the generator's
"breakable block" idiom), in which case the loop is executed as straight-line code and a VC demands
that no path reaches the back edge.
"""
import ast
import itertools
import z3
from z3 import (And, Or, Not, Implies, If, IntVal, BoolVal, Const, Function, Length, Concat, Unit,
                Empty, SubSeq, Select, Store, ForAll, Exists, is_app)

Val = z3.DeclareSort('Val')
I = z3.IntSort()
B = z3.BoolSort()
SeqV = z3.SeqSort(Val)
SeqI = z3.SeqSort(I)

NONE = Const('NONE', Val)
int_v = Function('int_v', I, Val)
un_int = Function('un_int', Val, I)
bool_v = Function('bool_v', B, Val)
un_bool = Function('un_bool', Val, B)
list_v = Function('list_v', SeqV, Val)
un_list = Function('un_list', Val, SeqV)
lit_v = Function('lit_v', I, Val)          # python constants (str / bytes / other literals), by table index
un_lit = Function('un_lit', Val, I)
kind = Function('kind', Val, I)            # coarse run-time type tag
is_err = Function('is_err', Val, B)        # value is an error function (_raise_errorN)
truthy = Function('truthy', Val, B)
py_eq = Function('py_eq', Val, Val, B)     # python == between two opaque objects (reflexive on identical objects)
app = Function('app', Val, Val, Val)       # user callable applied to one argument (pure, total)
attr_f = {}                                # attribute name -> Function(Val -> Val) for immutable attributes

K_NONE, K_INT, K_BOOL, K_LIST, K_TUPLE, K_LIT, K_OBJ, K_ERR, K_FUNC, K_DICT = range(10)

_tupf = {}


def tup_v(n):
    if n not in _tupf:
        mk = Function(f'tup{n}', *([Val] * n), Val)
        prj = [Function(f'tup{n}_{i}', Val, Val) for i in range(n)]
        _tupf[n] = (mk, prj)
    return _tupf[n]


class OutOfSubset(Exception):
    pass


class Tup:
    """static python tuple of symbolic values"""
    def __init__(self, items):
        self.items = tuple(items)

    def __repr__(self):
        return f'Tup{self.items!r}'


class StrLit:
    """a python str/bytes constant appearing in the code"""
    def __init__(self, value):
        self.value = value

    def __repr__(self):
        return f'StrLit({self.value!r})'


class TextV:
    """the input text: array of code points / byte values with a length"""
    def __init__(self, arr, n, is_bytes):
        self.arr, self.n, self.is_bytes = arr, n, is_bytes


class TextSlice:
    def __init__(self, text, a, b):
        self.text, self.a, self.b = text, a, b


class CharV:
    """one element of the text: a 1-character str (text mode) or an int (bytes mode)"""
    def __init__(self, code, is_bytes):
        self.code, self.is_bytes = code, is_bytes


class Opaque:
    """python-side marker value understood only by hooks (matchers, matches, functions ...)"""
    def __init__(self, tag, **kw):
        self.tag = tag
        self.__dict__.update(kw)

    def __repr__(self):
        return f'Opaque({self.tag})'


class DictV:
    """python dict: domain set + value map (keys compared as terms); nonempty tracks truthiness"""
    def __init__(self, dom, map_, nonempty=None):
        self.dom, self.map, self.nonempty = dom, map_, nonempty


class ArrList:
    """python list of k-tuples held positionally: k arrays Int -> Val sharing one length (for stacks whose
    invariants talk about positions)"""
    def __init__(self, arrs, n):
        self.arrs, self.n = tuple(arrs), n

    @property
    def arity(self):
        return len(self.arrs)


class SetV:
    """python set of hashable values: characteristic array"""
    def __init__(self, arr):
        self.arr = arr


class Fork(Exception):
    """raised during expression evaluation to split the current statement on a condition"""
    def __init__(self, key, cond):
        self.key, self.cond = key, cond


class Raised(Exception):
    """raised during expression evaluation: the call does not return (python exception), st.exc is set"""
    def __init__(self, st):
        self.st = st


class VC:
    __slots__ = ('name', 'pc', 'goal', 'kind', 'path', 'note')

    def __init__(self, name, pc, goal, kind, path=None, note=''):
        self.name, self.pc, self.goal, self.kind, self.path, self.note = name, list(pc), goal, kind, path, note


class St:
    """one symbolic path state"""
    _ids = itertools.count()

    def __init__(self, env=None, pc=None, heap=None, ghost=None, trace=None):
        self.env = dict(env or {})
        self.pc = list(pc or [])
        self.heap = dict(heap or {})
        self.ghost = dict(ghost or {})
        self.trace = list(trace or [])
        self.guards = []
        self.frozen = set()      # list variables whose value was stored elsewhere (aliased)
        self.ret = None
        self.exc = None
        self.decisions = {}

    def fork(self):
        s = St(self.env, self.pc, self.heap, self.ghost, self.trace)
        s.guards = list(self.guards)
        s.frozen = set(self.frozen)
        s.ret, s.exc = self.ret, self.exc
        s.decisions = dict(self.decisions)
        return s

    def assume(self, *fs):
        self.pc.extend(fs)


class Exec:
    """Symbolic executor.  Subclass / configure per unit:
       loops[ordinal] = LoopSpec; hooks for names, calls, attributes, yields."""

    def __init__(self, tree, loops=None, feas_timeout=3000):
        self.tree = tree
        self.loops = loops or {}
        self.vcs = []
        self.axioms = []              # ground, universally valid facts about boxed terms
        self._ax_seen = set()
        self.fresh = itertools.count()
        self.lits = []                # literal table
        self.feas_timeout = feas_timeout
        self.covered = set()
        self.all_stmts = set()
        self.stats = {'feasibility_queries': 0, 'paths': 0}
        self._number(tree)
        self.call_hooks = {}          # bare function name -> f(ex, node, args, st)
        self.method_hooks = {}        # method name -> f(ex, node, recv, args, st)  (return NotImplemented to decline)
        self.attr_hooks = {}          # attribute name -> f(ex, node, recv, st)
        self.name_hook = None         # f(ex, id, st) -> value or None
        self.yield_hook = None        # f(ex, node, value, st) -> value sent back
        self.after_stmt = None        # f(ex, stmt, st)  ghost updates by AST pattern
        self.setattr_hook = None      # f(ex, node(target Attribute), recv, value, st) -> True if handled
        self.subscript_hook = None    # f(ex, node, recv, index, st) -> value or NotImplemented

    # ------------------------------------------------------------------ numbering (static, source order)
    def _number(self, tree):
        self.loop_ord = {}
        self.node_ord = {}
        counters = {}

        def walk(n):
            if isinstance(n, (ast.While, ast.For)):
                self.loop_ord[id(n)] = len(self.loop_ord) + 1
            key = type(n).__name__
            counters[key] = counters.get(key, 0) + 1
            self.node_ord[id(n)] = counters[key]
            if isinstance(n, ast.stmt):
                self.all_stmts.add(id(n))
            for c in ast.iter_child_nodes(n):
                walk(c)
        walk(tree)

    def ordn(self, node):
        return self.node_ord.get(id(node), 0)

    # ------------------------------------------------------------------ helpers
    def fv(self, name, sort):
        return Const(f'{name}!{next(self.fresh)}', sort)

    def axiom(self, f):
        k = f.get_id()
        if k not in self._ax_seen:
            self._ax_seen.add(k)
            self.axioms.append(f)

    def lit(self, value):
        key = (type(value).__name__, value)
        if key not in self.lits:
            self.lits.append(key)
        idx = self.lits.index(key)
        t = lit_v(IntVal(idx))
        self.axiom(un_lit(t) == idx)
        self.axiom(kind(t) == K_LIT)
        if isinstance(value, (str, bytes)):
            self.axiom(truthy(t) == BoolVal(len(value) > 0))
        return t

    def box(self, v):
        """inject any symbolic value into Val"""
        if isinstance(v, z3.ExprRef):
            s = v.sort()
            if s == Val:
                return v
            if s == I:
                t = int_v(v)
                self.axiom(un_int(t) == v); self.axiom(kind(t) == K_INT); self.axiom(truthy(t) == (v != 0))
                return t
            if s == B:
                t = bool_v(v)
                self.axiom(un_bool(t) == v); self.axiom(kind(t) == K_BOOL); self.axiom(truthy(t) == v)
                return t
            if s == SeqV:
                t = list_v(v)
                self.axiom(un_list(t) == v); self.axiom(kind(t) == K_LIST); self.axiom(truthy(t) == (Length(v) > 0))
                return t
            raise OutOfSubset(f'cannot box sort {s}')
        if isinstance(v, Tup):
            items = [self.box(x) for x in v.items]
            if not items:
                return self.lit(())
            mk, prj = tup_v(len(items))
            t = mk(*items)
            for p, x in zip(prj, items):
                self.axiom(p(t) == x)
            self.axiom(kind(t) == K_TUPLE); self.axiom(truthy(t))
            return t
        if isinstance(v, StrLit):
            return self.lit(v.value)
        if isinstance(v, bool):
            return self.box(BoolVal(v))
        if isinstance(v, int):
            return self.box(IntVal(v))
        if v is None:
            return NONE
        if isinstance(v, Opaque) and getattr(v, 'as_val', None) is not None:
            return v.as_val
        raise OutOfSubset(f'cannot box {v!r}')

    def truth(self, v, st):
        if isinstance(v, z3.ExprRef):
            s = v.sort()
            if s == B:
                return v
            if s == I:
                return v != 0
            if s == SeqV or s == SeqI:
                return Length(v) > 0
            if s == Val:
                self.axiom(Not(truthy(NONE)))
                return truthy(v)
        if isinstance(v, Tup):
            return BoolVal(len(v.items) > 0)
        if isinstance(v, StrLit):
            return BoolVal(len(v.value) > 0)
        if isinstance(v, ArrList):
            return v.n > 0
        if isinstance(v, DictV) and v.nonempty is not None:
            return v.nonempty
        if isinstance(v, Opaque) and hasattr(v, 'truth'):
            return v.truth
        if v is None:
            return BoolVal(False)
        if isinstance(v, bool):
            return BoolVal(v)
        raise OutOfSubset(f'truthiness of {v!r}')

    def safety(self, st, what, node, goal):
        self.vcs.append(VC(f'safety:{what}@{self.ordn(node)}', st.pc + st.guards, goal, 'safety',
                           path=list(st.trace)))
        g_ = z3.simplify(goal) if isinstance(goal, z3.ExprRef) else goal
        if g_ is False or (isinstance(g_, z3.ExprRef) and z3.is_false(g_)):
            return        # fails for certain: reported above; NOT assumed (assuming False would make everything after it vacuous)
        st.assume(goal)   # execution continues only when the operation did not raise

    def feasible(self, st, full=False):
        if full:
            # decision points inside expressions (decide/Fork): the quantified invariants matter there; still only pruning
            self.stats['feasibility_queries'] += 1
            s = z3.Solver()
            s.set(timeout=2000)
            s.add(*self.axioms)
            s.add(*st.pc)
            return s.check() != z3.unsat
        return self._feasible_qf(st)

    def _feasible_qf(self, st):
        """path pruning only (never a verdict): quantified hypotheses are left out, so the query is quantifier-free and
        cheap; a path that is infeasible only because of them is explored and its VCs are discharged with the full hypotheses"""
        self.stats['feasibility_queries'] += 1
        s = z3.Solver()
        s.set(timeout=self.feas_timeout)
        s.add(*[a for a in self.axioms if not _has_quantifier(a)])
        s.add(*[f for f in st.pc if not _has_quantifier(f)])
        return s.check() != z3.unsat

    # ------------------------------------------------------------------ expressions
    def ev(self, e, st):
        m = getattr(self, 'ev_' + type(e).__name__, None)
        if m is None:
            raise OutOfSubset(f'expression {type(e).__name__}: {ast.unparse(e)[:60]}')
        return m(e, st)

    def ev_Constant(self, e, st):
        v = e.value
        if v is True or v is False:
            return BoolVal(v)
        if v is None:
            return NONE
        if isinstance(v, int):
            return IntVal(v)
        if isinstance(v, (str, bytes)):
            return StrLit(v)
        raise OutOfSubset(f'constant {v!r}')

    def ev_Name(self, e, st):
        if e.id in st.env:
            return st.env[e.id]
        if self.name_hook is not None:
            v = self.name_hook(self, e.id, st)
            if v is not None:
                return v
        raise OutOfSubset(f'unbound name {e.id}')

    def ev_Tuple(self, e, st):
        return Tup([self.ev(x, st) for x in e.elts])

    def ev_List(self, e, st):
        xs = [self.box(self.ev(x, st)) for x in e.elts]
        if not xs:
            return Empty(SeqV)
        if len(xs) == 1:
            return Unit(xs[0])
        return Concat(*[Unit(x) for x in xs])

    def ev_Dict(self, e, st):
        if e.keys:
            raise OutOfSubset('non-empty dict display')
        return DictV(z3.K(Val, BoolVal(False)), self.fv('emptymap', z3.ArraySort(Val, Val)), BoolVal(False))

    def ev_UnaryOp(self, e, st):
        if isinstance(e.op, ast.Not):
            return Not(self.truth(self.ev(e.operand, st), st))
        if isinstance(e.op, ast.USub):
            v = self.ev(e.operand, st)
            if isinstance(v, z3.ArithRef):
                return -v
        raise OutOfSubset(ast.unparse(e))

    def ev_BoolOp(self, e, st):
        # boolean context only; short-circuit order matters for the safety VCs of later operands
        vs = []
        n0 = len(st.guards)
        for x in e.values:
            t = self.truth(self.ev(x, st), st)
            vs.append(t)
            st.guards.append(t if isinstance(e.op, ast.And) else Not(t))
        del st.guards[n0:]
        return And(*vs) if isinstance(e.op, ast.And) else Or(*vs)

    def ev_IfExp(self, e, st):
        c = self.truth(self.ev(e.test, st), st)
        cs = z3.simplify(c) if isinstance(c, z3.ExprRef) else c
        if cs is True or (isinstance(cs, z3.ExprRef) and z3.is_true(cs)):
            return self.ev(e.body, st)          # only the taken branch is evaluated
        if cs is False or (isinstance(cs, z3.ExprRef) and z3.is_false(cs)):
            return self.ev(e.orelse, st)
        st.guards.append(c); a = self.ev(e.body, st); st.guards.pop()
        st.guards.append(Not(c)); b = self.ev(e.orelse, st); st.guards.pop()
        if isinstance(a, z3.ExprRef) and isinstance(b, z3.ExprRef) and a.sort() == b.sort():
            return If(c, a, b)
        return If(c, self.box(a), self.box(b))

    def ev_Compare(self, e, st):
        vals = [self.ev(e.left, st)] + [self.ev(c, st) for c in e.comparators]
        if len(e.ops) == 1:
            return self.compare(type(e.ops[0]), vals[0], vals[1], st, e)
        # a < b < c : every operand is evaluated once; here all operands are side-effect free
        return And(*[self.compare(type(op), vals[k], vals[k + 1], st, e) for k, op in enumerate(e.ops)])

    def compare(self, op, a, b, st, node=None):
        if op in (ast.Is, ast.IsNot, ast.Eq, ast.NotEq):
            r = self.equal(a, b, st, identity=op in (ast.Is, ast.IsNot))
            return Not(r) if op in (ast.IsNot, ast.NotEq) else r
        if op in (ast.In, ast.NotIn):
            if isinstance(b, DictV):
                r = Select(b.dom, self.box(a))
                return Not(r) if op is ast.NotIn else r
            if isinstance(b, SetV):
                h = getattr(self, 'set_key_hook', None)
                if h is not None:
                    h(self, a, st, node)
                r = Select(b.arr, self.box(a))
                return Not(r) if op is ast.NotIn else r
            h = getattr(self, 'contains_hook', None)
            if h is not None:
                r = h(self, a, b, st)
                if r is not NotImplemented:
                    return Not(r) if op is ast.NotIn else r
            raise OutOfSubset(f'membership test in {b!r}')
        if op in (ast.Lt, ast.LtE, ast.Gt, ast.GtE):
            a, b = self.as_int(a), self.as_int(b)
            return {ast.Lt: a < b, ast.LtE: a <= b, ast.Gt: a > b, ast.GtE: a >= b}[op]
        raise OutOfSubset(f'comparison {op.__name__}')

    def as_int(self, v):
        if isinstance(v, z3.ArithRef):
            return v
        if isinstance(v, int) and not isinstance(v, bool):
            return IntVal(v)
        if isinstance(v, z3.ExprRef) and v.sort() == Val:
            raise OutOfSubset('ordering comparison on an opaque value')
        raise OutOfSubset(f'int expected, got {v!r}')

    def equal(self, a, b, st, identity=False):
        for x, y in ((a, b), (b, a)):
            if isinstance(x, Opaque) and hasattr(x, 'is_none') and isinstance(y, z3.ExprRef) and y.eq(NONE):
                return x.is_none
        if isinstance(a, TextSlice) and isinstance(b, StrLit):
            return self.slice_eq(a, b.value)
        if isinstance(b, TextSlice) and isinstance(a, StrLit):
            return self.slice_eq(b, a.value)
        if isinstance(a, StrLit) and isinstance(b, StrLit):
            return BoolVal(a.value == b.value and type(a.value) is type(b.value))
        if isinstance(b, CharV) and not isinstance(a, CharV):
            a, b = b, a
        if isinstance(a, CharV):
            if isinstance(b, StrLit):
                if a.is_bytes or not isinstance(b.value, str) or len(b.value) != 1:
                    return BoolVal(False)        # int == str / str == bytes / length mismatch
                return a.code == ord(b.value)
            if isinstance(b, z3.ArithRef):
                return a.code == b if a.is_bytes else BoolVal(False)
            if isinstance(b, CharV):
                return a.code == b.code if a.is_bytes == b.is_bytes else BoolVal(False)
        if isinstance(a, z3.ExprRef) and isinstance(b, z3.ExprRef) and a.sort() == b.sort():
            if a.sort() == Val and not identity and getattr(self, 'structural_eq', False):
                # python == on objects is user-defined (structural) equality: identical objects are equal, nothing more is known
                self.axiom(py_eq(a, a))
                return Or(a == b, py_eq(a, b))
            return a == b
        if isinstance(a, Tup) and isinstance(b, Tup):
            if len(a.items) != len(b.items):
                return BoolVal(False)
            return And(*[self.equal(x, y, st, identity) for x, y in zip(a.items, b.items)]) if a.items else BoolVal(True)
        try:
            return self.box(a) == self.box(b)
        except OutOfSubset:
            raise OutOfSubset(f'equality between {a!r} and {b!r}')

    def slice_eq(self, sl, lit):
        """python: text[a:b] == lit, for 0 <= a (callers emit the safety VC); b is clipped to len(text)"""
        t = sl.text
        if isinstance(lit, bytes) != t.is_bytes_static():
            pass
        L = len(lit)
        codes = list(lit) if isinstance(lit, bytes) else [ord(c) for c in lit]
        hi = If(sl.b < t.n, sl.b, t.n)
        width = If(hi - sl.a > 0, hi - sl.a, 0)
        conj = [width == L]
        for i, c in enumerate(codes):
            conj.append(Select(t.arr, sl.a + i) == c)
        return And(*conj)

    def ev_BinOp(self, e, st):
        a, b = self.ev(e.left, st), self.ev(e.right, st)
        if isinstance(a, z3.ArithRef) and isinstance(b, z3.ArithRef):
            if isinstance(e.op, ast.Add):
                return a + b
            if isinstance(e.op, ast.Sub):
                return a - b
            if isinstance(e.op, ast.Mult):
                return a * b
        if isinstance(a, z3.SeqRef) and isinstance(b, z3.SeqRef) and isinstance(e.op, ast.Add):
            return Concat(a, b)
        h = getattr(self, 'binop_hook', None)
        if h is not None:
            r = h(self, e, a, b, st)
            if r is not NotImplemented:
                return r
        raise OutOfSubset(f'binop {ast.unparse(e)[:60]}')

    def ev_Subscript(self, e, st):
        recv = self.ev(e.value, st)
        sl = e.slice
        # _text[slice(a, b, None)]  (the generator spells slices this way)
        if isinstance(sl, ast.Call) and isinstance(sl.func, ast.Name) and sl.func.id == 'slice':
            lo, hi = sl.args[0], sl.args[1]
            if len(sl.args) > 2 and not (isinstance(sl.args[2], ast.Constant) and sl.args[2].value is None):
                raise OutOfSubset('slice step')
            return self.do_slice(e, recv, None if _is_none(lo) else self.ev(lo, st),
                                 None if _is_none(hi) else self.ev(hi, st), st)
        if isinstance(sl, ast.Slice):
            if sl.step is not None:
                h = getattr(self, 'reverse_slice_hook', None)
                if h is not None and sl.lower is None and sl.upper is None and _const_int(self.ev(sl.step, st)) == -1:
                    r = h(self, e, recv, st)          # seq[::-1]: the elements of a list / tuple, last first
                    if r is not NotImplemented:
                        return r
                raise OutOfSubset('slice step')
            return self.do_slice(e, recv, None if sl.lower is None else self.ev(sl.lower, st),
                                 None if sl.upper is None else self.ev(sl.upper, st), st)
        idx = self.ev(sl, st)
        return self.do_index(e, recv, idx, st)

    def do_index(self, e, recv, idx, st):
        if isinstance(recv, Tup):
            k = _const_int(idx)
            if k is None:
                raise OutOfSubset('symbolic index into static tuple')
            if not (-len(recv.items) <= k < len(recv.items)):
                self.safety(st, 'tuple-index', e, BoolVal(False))
            return recv.items[k]
        if isinstance(recv, z3.SeqRef):
            n = Length(recv)
            k = _const_int(idx)
            if k is not None and k < 0:
                self.safety(st, 'index', e, n + k >= 0)
                return recv[n + k]
            idx = self.as_int(idx)
            # python accepts -len <= i < len; the code under verification relies on 0 <= i only where stated
            self.safety(st, 'index', e, And(-n <= idx, idx < n))
            return If(idx >= 0, recv[idx], recv[n + idx])
        if isinstance(recv, TextV):
            idx = self.as_int(idx)
            self.safety(st, 'text-index', e, And(-recv.n <= idx, idx < recv.n))
            return Select(recv.arr, If(idx >= 0, idx, recv.n + idx))
        if isinstance(recv, ArrList):
            k = _const_int(idx)
            if k is not None and k < 0:
                self.safety(st, 'index', e, recv.n + k >= 0)
                at = recv.n + k
            else:
                at = self.as_int(idx)
                self.safety(st, 'index', e, And(0 <= at, at < recv.n))
            items = [Select(a, at) for a in recv.arrs]
            return items[0] if len(items) == 1 else Tup(items)
        if isinstance(recv, DictV):
            k = self.box(idx)
            self.safety(st, 'dict-key-present', e, Select(recv.dom, k))
            return Select(recv.map, k)
        if self.subscript_hook is not None:
            r = self.subscript_hook(self, e, recv, idx, st)
            if r is not NotImplemented:
                return r
        raise OutOfSubset(f'subscript on {recv!r}')

    def do_slice(self, e, recv, lo, hi, st):
        if isinstance(recv, TextV):
            lo = IntVal(0) if lo is None else self.as_int(lo)
            hi = recv.n if hi is None else self.as_int(hi)
            # negative bounds would count from the end in python: demanded absent
            self.safety(st, 'slice-nonneg', e, And(lo >= 0, hi >= 0))
            return TextSlice(recv, lo, hi)
        if isinstance(recv, z3.SeqRef):
            n = Length(recv)
            lo = IntVal(0) if lo is None else self.as_int(lo)
            hi = n if hi is None else self.as_int(hi)
            self.safety(st, 'slice-nonneg', e, And(lo >= 0, hi >= 0))
            hi2 = If(hi < n, hi, n)
            return SubSeq(recv, lo, If(hi2 - lo > 0, hi2 - lo, 0))
        if isinstance(recv, ArrList):
            if lo is not None and not (_const_int(lo) == 0):
                raise OutOfSubset('ArrList slice with a lower bound')
            hi = recv.n if hi is None else self.as_int(hi)
            self.safety(st, 'slice-nonneg', e, hi >= 0)
            return ArrList(recv.arrs, If(hi < recv.n, hi, recv.n))
        if self.subscript_hook is not None:
            r = self.subscript_hook(self, e, recv, ('slice', lo, hi), st)
            if r is not NotImplemented:
                return r
        raise OutOfSubset(f'slice of {recv!r}')

    def ev_Attribute(self, e, st):
        recv = self.ev(e.value, st)
        h = self.attr_hooks.get(e.attr)
        if h is not None:
            r = h(self, e, recv, st)
            if r is not NotImplemented:
                return r
        h = self.attr_hooks.get('*')
        if h is not None:
            r = h(self, e, recv, st)
            if r is not NotImplemented:
                return r
        raise OutOfSubset(f'attribute .{e.attr} of {recv!r}')

    def ev_Call(self, e, st):
        f = e.func
        if e.keywords and not getattr(self, 'allow_keywords', False):
            # keywords handled by hooks only
            pass
        if isinstance(f, ast.Name):
            h = self.call_hooks.get(f.id)
            if h is not None:
                r = h(self, e, st)
                if r is not NotImplemented:
                    return r
            if f.id == 'set' and not e.args and f.id not in st.env:
                return SetV(z3.K(Val, BoolVal(False)))
            if f.id == 'bool' and f.id not in st.env and len(e.args) == 1 and not e.keywords:
                return self.truth(self.ev(e.args[0], st), st)          # bool(x): the truth value of x, as a bool
            if f.id in ('min', 'max') and f.id not in st.env and len(e.args) == 2 and not e.keywords:
                a_, b_ = self.ev(e.args[0], st), self.ev(e.args[1], st)
                if all(isinstance(x, (int, z3.ArithRef)) and not isinstance(x, bool) for x in (a_, b_)):
                    a_, b_ = self.as_int(a_), self.as_int(b_)
                    return If(a_ <= b_, a_, b_) if f.id == 'min' else If(a_ >= b_, a_, b_)
                raise OutOfSubset(f'{f.id} of non-integers')
            if f.id == 'len' and len(e.args) == 1 and f.id not in st.env:
                v = self.ev(e.args[0], st)
                if isinstance(v, z3.SeqRef):
                    return Length(v)
                if isinstance(v, TextV):
                    return v.n
                if isinstance(v, ArrList):
                    return v.n
                if isinstance(v, DictV):
                    sz = self.fv('dictsize', I)      # size of a dict is not tracked: any non-negative integer, zero exactly when it is empty
                    st.assume(sz >= 0)
                    if v.nonempty is not None:
                        st.assume((sz > 0) == v.nonempty)
                    return sz
                if isinstance(v, Tup):
                    return IntVal(len(v.items))
                if isinstance(v, StrLit):
                    return IntVal(len(v.value))
                lh = getattr(self, 'len_hook', None)
                if lh is not None:
                    r = lh(self, e, v, st)
                    if r is not NotImplemented:
                        return r
                raise OutOfSubset(f'len of {v!r}')
            if f.id in st.env:
                fv = st.env[f.id]
                if isinstance(fv, Opaque) and fv.tag == 'localfn':
                    return self.call_local(e, fv.node, st)
                h = self.call_hooks.get('*value')
                if h is not None:
                    r = h(self, e, fv, st)
                    if r is not NotImplemented:
                        return r
        if isinstance(f, ast.Attribute):
            # mutating list methods on a variable
            if isinstance(f.value, ast.Name) and f.value.id in st.env and isinstance(st.env[f.value.id], z3.SeqRef) \
                    and f.attr in ('append', 'pop', 'extend'):
                return self.list_method(e, f.value.id, f.attr, st)
            if isinstance(f.value, ast.Name) and isinstance(st.env.get(f.value.id), ArrList) and f.attr in ('append', 'pop'):
                return self.arrlist_method(e, f.value.id, f.attr, st)
            if isinstance(f.value, ast.Name) and isinstance(st.env.get(f.value.id), SetV) and f.attr in ('add', 'discard', 'remove') and len(e.args) == 1:
                sv = st.env[f.value.id]
                raw = self.ev(e.args[0], st)
                h = getattr(self, 'set_key_hook', None)
                if h is not None:
                    h(self, raw, st, e)
                x = self.box(raw)
                if f.attr == 'remove':
                    self.safety(st, 'set-remove-present', e, Select(sv.arr, x))
                st.env[f.value.id] = SetV(Store(sv.arr, x, BoolVal(f.attr == 'add')))
                return NONE
            if isinstance(f.value, ast.Name) and isinstance(st.env.get(f.value.id), DictV) and f.attr == 'clear' and not e.args:
                d = st.env[f.value.id]
                st.env[f.value.id] = DictV(z3.K(Val, BoolVal(False)), d.map, BoolVal(False))
                return NONE
            recv = self.ev(f.value, st)
            if isinstance(recv, TextV) and f.attr == 'startswith' and 1 <= len(e.args) <= 2 and not e.keywords:
                lit = self.ev(e.args[0], st)
                pos = IntVal(0) if len(e.args) == 1 else self.as_int(self.ev(e.args[1], st))
                if isinstance(lit, StrLit):
                    self.safety(st, 'startswith-offset-nonneg', e, pos >= 0)      # a negative offset would count from the end
                    if isinstance(lit.value, bytes) != recv.is_bytes:
                        raise OutOfSubset('startswith with a literal of the other text type (TypeError)')
                    return self.slice_eq(TextSlice(recv, pos, pos + len(lit.value)), lit.value)
            h = self.method_hooks.get(f.attr)
            if h is not None:
                r = h(self, e, recv, st)
                if r is not NotImplemented:
                    return r
        h = self.call_hooks.get('*')
        if h is not None:
            r = h(self, e, st)
            if r is not NotImplemented:
                return r
        raise OutOfSubset(f'call {ast.unparse(e)[:80]}')

    def list_method(self, e, name, meth, st):
        s = st.env[name]
        if name in st.frozen:
            raise OutOfSubset(f'mutation of list {name} after it was aliased')
        if meth == 'append':
            if len(e.args) != 1:
                raise OutOfSubset('append arity')
            x = self.ev(e.args[0], st)
            if s.sort() == SeqI:
                x = self.as_int(x)            # list declared by the contract to hold ints only
            else:
                x = self.box(x)
            st.env[name] = Concat(s, Unit(x))
            return NONE
        if meth == 'extend':
            x = self.ev(e.args[0], st)
            if not isinstance(x, z3.SeqRef):
                raise OutOfSubset('extend with non-sequence')
            st.env[name] = Concat(s, x)
            return NONE
        if meth == 'pop':
            if e.args:
                raise OutOfSubset('pop(index)')
            self.safety(st, 'pop-nonempty', e, Length(s) > 0)
            st.env[name] = SubSeq(s, 0, Length(s) - 1)
            return s[Length(s) - 1]
        raise OutOfSubset(meth)

    def arrlist_method(self, e, name, meth, st):
        if meth == 'append':
            x = self.ev(e.args[0], st)         # python evaluates the argument first: it may itself pop from this list
            L = st.env[name]
            items = list(x.items) if isinstance(x, Tup) else [x]
            if len(items) != L.arity:
                raise OutOfSubset('arity of appended tuple')
            st.env[name] = ArrList([Store(a, L.n, self.as_int(v) if a.range() == I else self.box(v)) for a, v in zip(L.arrs, items)], L.n + 1)
            return NONE
        if e.args:
            raise OutOfSubset('pop(index)')
        L = st.env[name]
        self.safety(st, 'pop-nonempty', e, L.n > 0)
        items = [Select(a, L.n - 1) for a in L.arrs]
        st.env[name] = ArrList(L.arrs, L.n - 1)
        return items[0] if len(items) == 1 else Tup(items)

    def ev_Yield(self, e, st):
        if self.yield_hook is None:
            raise OutOfSubset('yield')
        v = None if e.value is None else self.ev(e.value, st)
        return self.yield_hook(self, e, v, st)

    def ev_GeneratorExp(self, e, st):
        h = getattr(self, 'comp_hook', None)
        if h is not None:
            r = h(self, e, st)
            if r is not NotImplemented:
                return r
        raise OutOfSubset(f'comprehension {ast.unparse(e)[:70]}')

    ev_ListComp = ev_GeneratorExp
    ev_DictComp = ev_GeneratorExp

    def ev_Lambda(self, e, st):
        h = getattr(self, 'lambda_hook', None)
        if h is not None:
            return h(self, e, st)
        raise OutOfSubset('lambda')

    def ev_JoinedStr(self, e, st):
        h = getattr(self, 'fstring_hook', None)
        if h is not None:
            return h(self, e, st)
        raise OutOfSubset('f-string')

    # ------------------------------------------------------------------ statements
    def assign(self, tgt, v, st):
        if isinstance(tgt, ast.Name):
            st.env[tgt.id] = v
            st.frozen.discard(tgt.id)
            return
        if isinstance(tgt, (ast.Tuple, ast.List)):
            n = len(tgt.elts)
            if isinstance(v, Tup):
                if len(v.items) != n:
                    self.vcs.append(VC(f'safety:unpack-arity@{self.ordn(tgt)}', st.pc, BoolVal(False), 'safety'))
                    raise OutOfSubset('tuple arity mismatch')
                for t, x in zip(tgt.elts, v.items):
                    self.assign(t, x, st)
                return
            h = getattr(self, 'unpack_hook', None)
            if h is not None:
                items = h(self, tgt, v, n, st)
                if items is not NotImplemented:
                    for t, x in zip(tgt.elts, items):
                        self.assign(t, x, st)
                    return
            raise OutOfSubset(f'unpacking of {v!r}')
        if isinstance(tgt, ast.Attribute):
            recv = self.ev(tgt.value, st)
            if self.setattr_hook is not None and self.setattr_hook(self, tgt, recv, v, st):
                return
            raise OutOfSubset(f'attribute store .{tgt.attr}')
        if isinstance(tgt, ast.Subscript) and isinstance(tgt.value, ast.Name) and isinstance(st.env.get(tgt.value.id), DictV):
            d = st.env[tgt.value.id]
            k = self.box(self.ev(tgt.slice, st))
            h = getattr(self, 'dict_store_hook', None)
            if h is not None:
                h(self, tgt.value.id, k, self.box(v), st)
            st.env[tgt.value.id] = DictV(Store(d.dom, k, BoolVal(True)), Store(d.map, k, self.box(v)), BoolVal(True))
            return
        if isinstance(tgt, ast.Subscript):
            h = getattr(self, 'setitem_hook', None)
            if h is not None and h(self, tgt, v, st):
                return
            raise OutOfSubset('subscript store')
        raise OutOfSubset(f'assignment target {type(tgt).__name__}')

    def note_alias(self, value_node, st):
        """a list variable stored somewhere else (x = lst / lst2.append(lst)) becomes frozen"""
        if isinstance(value_node, ast.Name) and value_node.id in st.env and isinstance(st.env[value_node.id], z3.SeqRef):
            st.frozen.add(value_node.id)

    def block(self, stmts, st):
        live, done = [st], []
        for s in stmts:
            nxt = []
            for q in live:
                for k, r in self.stmt(s, q):
                    if k == 'fall':
                        nxt.append(r)
                    else:
                        done.append((k, r))
            live = nxt
        return [('fall', q) for q in live] + done

    def decide(self, st, node, cond, tag=''):
        """branch on `cond` in the middle of an expression: the enclosing statement is re-executed once per outcome"""
        key = (id(node), tag)
        if key in st.decisions:
            return st.decisions[key]
        raise Fork(key, cond)

    def stmt(self, s, st):
        self.covered.add(id(s))
        m = getattr(self, 'st_' + type(s).__name__, None)
        if m is None:
            raise OutOfSubset(f'statement {type(s).__name__}')
        bh = getattr(self, 'before_stmt', None)
        snap = st.fork()
        nvc = len(self.vcs)
        try:
            res = None
            if bh is not None:
                res = bh(self, s, st)
            if res is None:
                res = m(s, st)
        except Fork as f:
            del self.vcs[nvc:]
            out = []
            for val in (True, False):
                q = snap.fork()
                q.decisions[f.key] = val
                q.assume(f.cond if val else Not(f.cond))
                q.trace.append(f'decide@{self.ordn(s)}:{"T" if val else "F"}')
                if self.feasible(q, full=True):
                    out += self.stmt(s, q)
            return out
        except Raised as r:
            return [('raise', r.st)]
        if not isinstance(s, (ast.If, ast.While, ast.For, ast.Try)):
            for k, r in res:
                r.decisions = {}
        if self.after_stmt is not None:
            for k, r in res:
                if k == 'fall':
                    self.after_stmt(self, s, r)
        return res

    def st_Assign(self, s, st):
        v = self.ev(s.value, st)
        for t in s.targets:
            if isinstance(t, ast.Name) and isinstance(v, z3.SeqRef):
                self.note_alias(s.value, st)
            self.assign(t, v, st)
        return [('fall', st)]

    def st_AugAssign(self, s, st):
        cur = self.ev(s.target, st)
        v = self.ev(s.value, st)
        fake = ast.BinOp(left=s.target, op=s.op, right=s.value)
        ast.copy_location(fake, s)
        if isinstance(cur, z3.ArithRef) and isinstance(v, z3.ArithRef) and isinstance(s.op, (ast.Add, ast.Sub)):
            r = cur + v if isinstance(s.op, ast.Add) else cur - v
        else:
            h = getattr(self, 'augassign_hook', None)
            r = h(self, s, cur, v, st) if h else NotImplemented
            if r is NotImplemented:
                raise OutOfSubset(f'augmented assignment {ast.unparse(s)}')
        self.assign(s.target, r, st)
        return [('fall', st)]

    def st_Expr(self, s, st):
        if isinstance(s.value, ast.Constant):
            return [('fall', st)]          # docstring / stray constant
        self.ev(s.value, st)
        return [('fall', st)]

    def st_Delete(self, s, st):
        # del stack[k:]  on a positionally held list: truncation (same as stack = stack[:k] when the list is not aliased)
        for t in s.targets:
            if isinstance(t, ast.Subscript) and isinstance(t.value, ast.Name) and isinstance(st.env.get(t.value.id), ArrList) \
                    and isinstance(t.slice, ast.Slice) and t.slice.lower is not None and t.slice.upper is None and t.slice.step is None:
                name = t.value.id
                if name in st.frozen:
                    raise OutOfSubset(f'mutation of list {name} after it was aliased')
                lo = self.as_int(self.ev(t.slice.lower, st))
                L = st.env[name]
                self.safety(st, 'slice-nonneg', s, lo >= 0)
                st.env[name] = ArrList(L.arrs, If(lo < L.n, lo, L.n))
            elif isinstance(t, ast.Subscript) and isinstance(t.value, ast.Name) and t.value.id in st.env and not isinstance(t.slice, ast.Slice) \
                    and isinstance(st.env[t.value.id], (ArrList, z3.SeqRef)) and _const_int(self.ev(t.slice, st)) == -1:
                # del stack[-1]  ==  stack.pop() without using the value (IndexError on an empty list, like pop)
                call = ast.Call(func=ast.Attribute(value=ast.Name(id=t.value.id, ctx=ast.Load()), attr='pop', ctx=ast.Load()), args=[], keywords=[])
                ast.copy_location(call, s); ast.fix_missing_locations(call)
                self.node_ord[id(call)] = self.ordn(s)
                self.ev(call, st)
            else:
                raise OutOfSubset('statement Delete')
        return [('fall', st)]

    def st_Pass(self, s, st):
        return [('fall', st)]

    def st_Break(self, s, st):
        return [('break', st)]

    def st_Continue(self, s, st):
        return [('continue', st)]

    def st_Return(self, s, st):
        st.ret = None if s.value is None else self.ev(s.value, st)
        return [('return', st)]

    def st_Raise(self, s, st):
        h = getattr(self, 'raise_hook', None)
        st.exc = h(self, s, st) if h else (ast.unparse(s.exc) if s.exc else 'reraise')
        return [('raise', st)]

    def st_If(self, s, st):
        c = self.truth(self.ev(s.test, st), st)
        out = []
        a, b = st.fork(), st.fork()
        a.assume(c); a.trace.append(f'if@{self.ordn(s)}:T')
        b.assume(Not(c)); b.trace.append(f'if@{self.ordn(s)}:F')
        for q, body in ((a, s.body), (b, s.orelse)):
            if self.feasible(q):
                out += self.block(body, q)
        return out

    def st_While(self, s, st):
        if s.orelse:
            raise OutOfSubset('while-else')
        ordn = self.loop_ord[id(s)]
        spec = self.loops.get(ordn)
        test_true = isinstance(s.test, ast.Constant) and s.test.value is True
        body = s.body
        if not test_true:
            brk = ast.If(test=ast.UnaryOp(op=ast.Not(), operand=s.test), body=[ast.Break()], orelse=[])
            ast.copy_location(brk, s); ast.fix_missing_locations(brk)
            self.node_ord[id(brk)] = -ordn
            body = [brk] + list(s.body)
        if spec is None:
            # breakable block: executed once, no path may reach the back edge
            res = []
            for k, q in self.block(body, st):
                if k == 'break':
                    res.append(('fall', q))
                elif k in ('fall', 'continue'):
                    self.vcs.append(VC(f'loop{ordn}:no-backedge', q.pc, BoolVal(False), 'noback', path=list(q.trace),
                                       note='loop without invariant must be a breakable block'))
                else:
                    res.append((k, q))
            return res
        return self.run_loop(ordn, spec, body, st)

    def assigned(self, stmts):
        names = set()
        for n in ast.walk(ast.Module(body=list(stmts), type_ignores=[])):
            if isinstance(n, ast.Name) and isinstance(n.ctx, ast.Store):
                names.add(n.id)
            if isinstance(n, ast.Call) and isinstance(n.func, ast.Attribute) and isinstance(n.func.value, ast.Name) \
                    and n.func.attr in ('append', 'pop', 'extend', 'add', 'update', 'clear', 'insert', 'remove'):
                names.add(n.func.value.id)
            if isinstance(n, ast.Subscript) and isinstance(n.ctx, (ast.Store, ast.Del)) and isinstance(n.value, ast.Name):
                names.add(n.value.id)
        return names

    def also_modified(self, stmts, st):
        """names a loop body may change without assigning them syntactically (frame of abstract callees); hook: modified_hook(ex, stmts, st)"""
        h = getattr(self, 'modified_hook', None)
        return set(h(self, stmts, st)) if h is not None else set()

    def havoc_value(self, name, v):
        if isinstance(v, z3.ExprRef):
            return self.fv(name, v.sort())
        if isinstance(v, Tup):
            return Tup([self.havoc_value(f'{name}_{i}', x) for i, x in enumerate(v.items)])
        if isinstance(v, StrLit):
            return self.fv(name, Val)
        if isinstance(v, DictV):
            return DictV(self.fv(name + '_dom', v.dom.sort()), self.fv(name + '_map', v.map.sort()), self.fv(name + '_nonempty', B))
        if isinstance(v, ArrList):
            return ArrList([self.fv(f'{name}_a{i}', a.sort()) for i, a in enumerate(v.arrs)], self.fv(name + '_n', I))
        if isinstance(v, SetV):
            return SetV(self.fv(name + '_set', v.arr.sort()))
        if isinstance(v, Opaque) and hasattr(v, 'havoc'):
            return v.havoc(self, name)
        raise OutOfSubset(f'cannot havoc {name} = {v!r}')

    def run_loop(self, ordn, spec, body, st):
        # 1. invariant holds on entry
        spec.enter(self, st)
        for name, g in spec.inv(self, st):
            self.vcs.append(VC(f'loop{ordn}:entry:{name}', st.pc, g, 'inv-entry', path=list(st.trace)))
        # 2. arbitrary iteration
        h = st.fork()
        h.trace.append(f'loop{ordn}:head')
        for v in sorted(self.assigned(body) | self.also_modified(body, h)):
            if v in h.env:
                h.env[v] = self.havoc_value(v, h.env[v])
                h.frozen.discard(v)
        spec.havoc(self, h)
        for name, g in spec.inv(self, h):
            h.assume(g)
        res = []
        for k, q in self.block(body, h):
            if k == 'break':
                spec.leave(self, q)
                res.append(('fall', q))
            elif k in ('fall', 'continue'):
                spec.step(self, q)
                for name, g in spec.inv(self, q):
                    self.vcs.append(VC(f'loop{ordn}:preserve:{name}', q.pc, g, 'inv-preserve', path=list(q.trace)))
            else:
                res.append((k, q))
        return res

    def st_For(self, s, st):
        h = getattr(self, 'for_hook', None)
        if h is not None:
            r = h(self, s, st)
            if r is not NotImplemented:
                return r
        if s.orelse:
            raise OutOfSubset('for-else')
        it = self.ev(s.iter, st)
        if isinstance(it, TextV):
            n, elem = it.n, (lambda i: CharV(Select(it.arr, i), it.is_bytes))
        elif isinstance(it, z3.SeqRef):
            n, elem = Length(it), (lambda i: it[i])
        elif isinstance(it, Opaque) and hasattr(it, 'iter_len'):
            n, elem = it.iter_len, it.iter_elem
        else:
            raise OutOfSubset(f'for over {it!r}')
        return self.run_for(s, st, n, elem)

    def run_for(self, s, st, n, elem):
        """for <target> in <sequence of length n with elements elem(i)>: index loop with invariant over i"""
        ordn = self.loop_ord[id(s)]
        spec = self.loops.get(ordn)
        if spec is None:
            raise OutOfSubset(f'for loop {ordn} without invariant')
        if isinstance(s.iter, ast.Name) and s.iter.id in self.assigned(s.body):
            raise OutOfSubset('loop body modifies the sequence it iterates over')
        st.ghost['i'] = IntVal(0)
        st.ghost['n'] = n
        spec.enter(self, st)
        for name, g in spec.inv(self, st):
            self.vcs.append(VC(f'loop{ordn}:entry:{name}', st.pc, g, 'inv-entry', path=list(st.trace)))
        h = st.fork()
        h.trace.append(f'loop{ordn}:head')
        targets = set()
        for t in ast.walk(s.target):
            if isinstance(t, ast.Name):
                targets.add(t.id)
        for v in sorted(self.assigned(s.body) | targets | self.also_modified(s.body, h)):
            if v in h.env:
                h.env[v] = self.havoc_value(v, h.env[v])
                h.frozen.discard(v)
        i = self.fv('i', I)
        h.ghost['i'] = i
        h.assume(0 <= i, i <= n)
        spec.havoc(self, h)
        for name, g in spec.inv(self, h):
            h.assume(g)
        res = []
        done = h.fork()
        done.assume(i == n)
        done.trace.append(f'loop{ordn}:exhausted')
        if self.feasible(done):
            spec.leave(self, done)
            res.append(('fall', done))
        b = h.fork()
        b.assume(i < n)
        if self.feasible(b):
            self.assign(s.target, elem(i), b)
            for k, q in self.block(s.body, b):
                if k == 'break':
                    spec.leave(self, q)
                    res.append(('fall', q))
                elif k in ('fall', 'continue'):
                    q.ghost['i'] = q.ghost['i'] + 1
                    spec.step(self, q)
                    for name, g in spec.inv(self, q):
                        self.vcs.append(VC(f'loop{ordn}:preserve:{name}', q.pc, g, 'inv-preserve', path=list(q.trace)))
                else:
                    res.append((k, q))
        return res

    def st_FunctionDef(self, s, st):
        h = getattr(self, 'def_hook', None)
        if h is not None:
            h(self, s, st)
        else:
            # local helper: inlined at its call sites (straight-line bodies only)
            st.env[s.name] = Opaque('localfn', node=s)
        return [('fall', st)]

    def call_local(self, e, fn, st):
        params = [a.arg for a in fn.args.args]
        if len(params) != len(e.args) or e.keywords or fn.args.vararg or fn.args.kwarg or fn.args.defaults:
            raise OutOfSubset('local helper call shape')
        saved = {p: st.env.get(p) for p in params}
        for p_, a in zip(params, e.args):
            st.env[p_] = self.ev(a, st)
        res = self.block(fn.body, st)
        if len(res) != 1 or res[0][0] not in ('fall', 'return') or res[0][1] is not st:
            raise OutOfSubset('local helper with branching body')
        ret = st.ret if res[0][0] == 'return' else NONE
        st.ret = None
        for p_, v in saved.items():
            if v is None:
                st.env.pop(p_, None)
            else:
                st.env[p_] = v
        return ret

    def st_Try(self, s, st):
        h = getattr(self, 'try_hook', None)
        if h is None:
            raise OutOfSubset('try')
        return h(self, s, st)

    def run(self, stmts, st):
        res = self.block(stmts, st)
        self.stats['paths'] += len(res)
        return res


class LoopSpec:
    """invariant of one loop.  inv(ex, st) yields (name, formula); ghosts live in st.ghost"""

    def __init__(self, inv, enter=None, havoc=None, step=None, leave=None):
        self._inv, self._enter, self._havoc, self._step, self._leave = inv, enter, havoc, step, leave

    def inv(self, ex, st):
        return list(self._inv(ex, st))

    def enter(self, ex, st):
        if self._enter:
            self._enter(ex, st)

    def havoc(self, ex, st):
        if self._havoc:
            self._havoc(ex, st)

    def step(self, ex, st):
        if self._step:
            self._step(ex, st)

    def leave(self, ex, st):
        if self._leave:
            self._leave(ex, st)


_hq_cache = {}


def _has_quantifier(f):
    k = f.get_id()
    r = _hq_cache.get(k)
    if r is None:
        r = False
        seen, todo = set(), [f]
        while todo:
            t = todo.pop()
            i = t.get_id()
            if i in seen:
                continue
            seen.add(i)
            if z3.is_quantifier(t):
                r = True
                break
            todo.extend(t.children())
        _hq_cache[k] = r
    return r


def _is_none(node):
    return isinstance(node, ast.Constant) and node.value is None


def _const_int(v):
    if isinstance(v, int) and not isinstance(v, bool):
        return v
    if isinstance(v, z3.IntNumRef):
        return v.as_long()
    if isinstance(v, z3.ArithRef):
        s = z3.simplify(v)
        if isinstance(s, z3.IntNumRef):
            return s.as_long()
    return None


def _tv_is_bytes_static(self):
    return self.is_bytes


TextV.is_bytes_static = _tv_is_bytes_static
