"""./check selftest [--tier thorough]: the machinery checked against itself, on scratch exports of /repo's HEAD (never /repo):
  (a) stored seeded changes (seeded/*/patch.diff) must make their property's check exit 1 with a VIOLATION line;
  (b) stored behaviour-preserving edits (harmless*/ref_*.diff) must leave EVERY check at exit 0.
quick: one seeded change per property (the latest round) and three edits; thorough: all of them."""
import glob
import json
import os
import re
import shutil
import subprocess
import sys

from . import paths

S = '/scratch/selftest_repo'


def export(patch, regen=False):
    shutil.rmtree(S, ignore_errors=True)
    os.makedirs(S)
    subprocess.run(f'git -C {paths.REPO} archive HEAD | tar -x -C {S}', shell=True, check=True)
    text = open(patch).read()
    if regen:
        parts = re.split(r'(?m)^(?=diff --git )', text)
        text = ''.join(p for p in parts if not p.startswith('diff --git a/sourcer/parser.py'))
    r = subprocess.run(['patch', '-p1', '-s'], input=text, text=True, cwd=S, capture_output=True)
    if r.returncode != 0:
        return False
    if regen:
        subprocess.run([sys.executable, os.path.join(paths.VERIF, 'tools', 'regen_parser.py'), S], capture_output=True)
    return True


def check(prop):
    env = dict(os.environ, VERIF_REPO=S, VERIF_EVIDENCE_DIR='/scratch/selftest_evidence')
    r = subprocess.run([os.path.join(paths.VERIF, 'check'), prop], capture_output=True, text=True, env=env, cwd=paths.VERIF, timeout=3600)
    return r.returncode, [l for l in r.stdout.splitlines() if l.startswith(('VIOLATION', 'UNDECIDED', 'CHECKER-FAULT'))]


def main(tier):
    os.makedirs('/scratch/selftest_evidence', exist_ok=True)
    ids = [c['property_id'] for c in json.load(open(os.path.join(paths.VERIF, 'MANIFEST.json')))['checks']]
    seeds = sorted(glob.glob(os.path.join(paths.VERIF, 'seeded', 'C*-*', 'patch.diff')))
    if tier != 'thorough':
        pick = {}
        for p in seeds:
            pick[os.path.basename(os.path.dirname(p)).split('-')[0]] = p        # the last one per property
        seeds = sorted(pick.values())
    edits = sorted(glob.glob(os.path.join(paths.VERIF, 'harmless*', 'ref_*.diff')))
    if tier != 'thorough':
        edits = edits[:3]
    bad = 0
    for p in seeds:
        sid = os.path.basename(os.path.dirname(p))
        prop = sid.split('-')[0]
        if not export(p):
            print(f'selftest: {sid}: patch does not apply to HEAD')
            bad += 1
            continue
        code, lines = check(prop)
        ok = code == 1 and any(l.startswith('VIOLATION') for l in lines)
        print(f'selftest: seeded {sid}: ./check {prop} exit={code} {"caught" if ok else "MISSED"}')
        bad += not ok
    for p in edits:
        name = os.path.relpath(p, paths.VERIF)
        if not export(p, regen=True):
            print(f'selftest: {name}: does not apply to HEAD')
            bad += 1
            continue
        alarms = []
        for prop in ids:
            code, lines = check(prop)
            if code != 0:
                alarms.append(f'{prop}(exit={code})')
        print(f'selftest: edit {name}: {"no alarm" if not alarms else "FALSE ALARM: " + " ".join(alarms)}')
        bad += bool(alarms)
    shutil.rmtree(S, ignore_errors=True)
    print(f'selftest [{tier}]: {len(seeds)} seeded changes, {len(edits)} behaviour-preserving edits, {bad} problem(s)')
    return 0 if bad == 0 else 3
