"""Locating the pieces of /repo that the extraction needs BY WHAT THEY ARE, not by their private names, so that a
harmless rename of an internal helper is not a checker fault.  Each lookup tries the current name first."""
import inspect
import types

from . import paths

paths.activate()
from sourcer import translator, grammar as grammar_mod  # noqa: E402


def _functions(mod):
    return [v for v in vars(mod).values() if isinstance(v, types.FunctionType) and v.__module__ == mod.__name__]


def _by_source(mod, *markers, prefer=None):
    if prefer and hasattr(mod, prefer):
        return getattr(mod, prefer)
    hits = []
    for f in _functions(mod):
        try:
            src = inspect.getsource(f)
        except (OSError, TypeError):
            continue
        if all(m in src for m in markers):
            hits.append(f)
    if len(hits) != 1:
        raise LookupError(f'cannot locate a unique function of {mod.__name__} containing {markers}: {[h.__name__ for h in hits]}')
    return hits[0]


def assign_ids():
    return _by_source(translator, 'program_id', 'extra_id', prefer='_assign_ids')


def create_parsing_expression():
    return _by_source(translator, 'StringLiteral', 'RegexLiteral', 'OperatorTable', prefer='_create_parsing_expression')


def generate_source_code():
    return _by_source(translator, 'CodeBuilder()', 'add_docstring', prefer='generate_source_code')


def parse_grammar():
    return _by_source(grammar_mod, 'parser.parse(', 'GrammarDef', prefer='_parse_grammar')


class Flags:
    """the generator's flag object is duck-typed: only `uses_context` is read"""
    def __init__(self, uses_context):
        self.uses_context = uses_context


def template(kind):
    names = {'setup': '_program_setup', 'main': '_main_template', 'context': '_context_section', 'sub_setup': '_subgrammar_setup', 'sub_body': '_subgrammar_body'}
    marks = {'setup': ('class ParsedObject', 'class _Metadata'), 'main': ('def _run(', 'def visit(', '$CALL'), 'context': ('class _Context',),
             'sub_setup': ('from $super_module import', '_ctx as _super_ctx'), 'sub_body': ('def parse(text, pos=0, fullparse=True)', '$start')}
    if hasattr(translator, names[kind]) and isinstance(getattr(translator, names[kind]), str):
        return getattr(translator, names[kind])
    hits = [v for v in vars(translator).values() if isinstance(v, str) and all(m in v for m in marks[kind])]
    if kind == 'sub_body':
        hits = [h for h in hits if 'def _run(' not in h]
    if kind == 'context':
        hits = [h for h in hits if 'def _run(' not in h and 'import' not in h]
    if len(hits) != 1:
        raise LookupError(f'cannot locate the {kind} template in translator.py ({len(hits)} candidates)')
    return hits[0]
