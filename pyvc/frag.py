"""Extraction of emitted fragments: the REAL ``_compile`` of an expression class is run over stub
children (subclass of the real Expression that emits one marker statement), through the real
``Expression.compile`` wrapper, on a real ``outsourcer.CodeBuilder``.  The text returned is the text
that would run for that parent with those children, verbatim (comments are dropped by ``ast``)."""
import ast
from . import paths

paths.activate()

from outsourcer import CodeBuilder, Code  # noqa: E402
from sourcer import expressions as ex  # noqa: E402
from sourcer.expressions.base import Expression  # noqa: E402
from sourcer.expressions.constants import POS, RESULT, STATUS, TEXT  # noqa: E402
from sourcer import translator  # noqa: E402
from . import locate  # noqa: E402

# admissible child flag pairs (always_succeeds, can_partially_succeed)
FLAGS = [(True, False), (False, False), (False, True)]
FLAG_NAMES = {(True, False): 'AS', (False, False): 'NP', (False, True): 'PS'}


ACCESS_LOG = set()      # (attribute, function, file) for every attribute of a stub read from OUTSIDE the stub (backs A-subst)


class Stub(Expression):
    """abstract child k: known to its parent only through its two flags and the marker it emits"""
    num_blocks = 0
    is_commented = False
    is_tagged = False

    def __getattribute__(self, name):
        if not (name.startswith('__') and name != '__dict__'):
            import sys
            f = sys._getframe(1)
            if f.f_locals.get('self') is not self:
                ACCESS_LOG.add((name, f.f_code.co_name, f.f_code.co_filename.rsplit('/', 1)[-1]))
        return object.__getattribute__(self, name)

    def __init__(self, k, a_s, cps):
        self.k, self._as, self._cps = k, a_s, cps

    def __str__(self):
        return f'<c{self.k}>'

    def always_succeeds(self):
        return self._as

    def can_partially_succeed(self):
        return self._cps

    def _compile(self, out, flags):
        out += (STATUS, RESULT, POS) << Code(f'_CHILD_{self.k}')(TEXT, POS)


def stubs(flag_tuple, first=1):
    return [Stub(first + i, *f) for i, f in enumerate(flag_tuple)]


def emit(expr, uses_context=False, max_num_blocks=None, precompile=True):
    """run the real generator on `expr`; returns the emitted python text"""
    out = CodeBuilder() if max_num_blocks is None else CodeBuilder(max_num_blocks=max_num_blocks)
    locate.assign_ids()([expr])
    if precompile:
        ex.visit(expr, lambda x: x.precompile(out))
    expr.compile(out, locate.Flags(uses_context))
    return out.source_code()


def emit_with_names(expr, uses_context=False, max_num_blocks=None, precompile=True):
    """as emit(); also returns the set of temporaries handed out by CodeBuilder.var during generation"""
    out = CodeBuilder() if max_num_blocks is None else CodeBuilder(max_num_blocks=max_num_blocks)
    locate.assign_ids()([expr])
    if precompile:
        ex.visit(expr, lambda x: x.precompile(out))
    expr.compile(out, locate.Flags(uses_context))
    temps = {f'{base}{i}' for base, n in out._names.items() for i in range(1, n + 1)}
    return out.source_code(), temps


def emit_spilled(expr, uses_context=False):
    """emit `expr` at a point where the block budget is exhausted, so that the real Expression.compile
    takes its spill path (helper function + call) for `expr` itself"""
    out = CodeBuilder()
    locate.assign_ids()([expr])
    ex.visit(expr, lambda x: x.precompile(out))
    out._num_blocks = out._max_num_blocks          # as deep as the generator allows
    expr.compile(out, locate.Flags(uses_context))
    return out.source_code()


def parse(src):
    return ast.parse(src)


def flags_of(node):
    return (bool(node.always_succeeds()), bool(node.can_partially_succeed()))
