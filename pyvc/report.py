"""Verdict aggregation, known findings, evidence files, exit codes (DESIGN.md section 5).

exit 0  every obligation discharged (known findings that are still present are printed)
exit 1  VIOLATION: an obligation is definitely false (SMT `sat`, or an exactly decided obligation false)
        and it is not a listed known finding
exit 2  UNDECIDED: solver unknown on both back ends / unit out of subset / role binding impossible
exit 3  checker fault (vacuity guard, solver disagreement, crash, replay contradicting a loop-free model)
"""
import json
import os
import re
import sys
import time

from . import paths

TRUSTED_BASE = [
    'T-engine: /verif/pyvc VC generator and its Python-subset semantics (DESIGN.md 3); mitigated by native replay of every counter-model, vacuity guards and seeded-defect self-test',
    'T-smt: z3 5.1.0 (cvc5 1.4.0 on unknowns / as second opinion in the thorough tier)',
    'T-py: CPython 3.12 semantics of the emitted subset; compile(optimize=2) == unoptimised (no assert / __doc__ use in emitted code)',
    'T-outsourcer: outsourcer.CodeBuilder renders what the generator asks for and compile() executes exactly source_code()',
]

ASSUMPTIONS_COMMON = [
    'A-meta: the step from per-unit contracts to a statement about every grammar (structural induction over expression trees + induction over the unfolding depth of rule references, partial correctness) is machine-checked in Lean 4 (meta/Compose.lean; the composition step of the segment induction in meta/Segments.lean; `./check meta`, re-run in the thorough tier of C01); that its hypotheses hstep/href/hwrap are what the discharged clause families say about the real code, and hfin (a terminating run has finite call depth), remain a reading of DESIGN.md 4',
    'A-subst: a parent uses a child only through child.compile() and the two static flags (backed dynamically: every attribute of an abstract child read from outside it while the real generator ran is recorded and must belong to the child interface - obligations `backing:A-subst` in C01/C02/C03/C05/C06)',
    'A-uniform: the generator emits the same template for literal values beyond the sentinel literals and for arities beyond those proved (Choice, Longest, Skip and Seq are proved for every arity by segment induction, class bodies by closure checks at arity 5..8; backed syntactically: generator branches read literal payloads only as empty/None/0/1 tests - `backing:A-uniform` in C01)',
    'A-wf: grammars are well-formed (no left recursion, no repetition of an expression that can succeed without consuming); parsing terminates; partial correctness only',
    'A-user: inline Python, predicates and callbacks are pure, total and do not raise',
    'Python integers are mathematical integers (exact for CPython int); no machine arithmetic involved',
]


class Obligation:
    def __init__(self, unit, name, kind, verdict, solver='', time_s=0.0, detail=None, replay=None, path=None, second=None):
        self.unit, self.name, self.kind, self.verdict = unit, name, kind, verdict
        self.solver, self.time_s, self.detail, self.replay, self.path, self.second = solver, time_s, detail, replay, path, second

    @property
    def ident(self):
        return f'{self.unit}/{self.name}'

    def brief(self):
        d = {'unit': self.unit, 'obligation': self.name, 'kind': self.kind, 'verdict': self.verdict}
        if self.solver:
            d['solver'] = self.solver
            d['time_s'] = round(self.time_s, 4)
        if self.path:
            d['path'] = self.path
        return d


CURRENT = [None]          # the report of the running check (for the top-level handler of the command line)


def raised_by_the_code_under_test(e):
    """'file:line in function' when the INNERMOST frame of the exception's traceback is code of the repository under test (or the
    outsourcer code builder driven by it) and no frame of a sidecar contract lies below it; else None"""
    import traceback
    if isinstance(e, SyntaxError) and (e.filename or '<unknown>').startswith('<'):
        # text EMITTED by the generator (the only thing the checks compile from a string) is not valid python
        return f'emitted source is not valid python: {e.msg} at line {e.lineno}: {(e.text or "").strip()[:80]}'
    tb = traceback.extract_tb(e.__traceback__)
    if not tb:
        return None
    repo = os.path.realpath(paths.REPO) + os.sep
    last = tb[-1]
    fn = os.path.realpath(last.filename)
    if fn.startswith(repo) or (os.sep + 'outsourcer' + os.sep in fn and any(os.path.realpath(f.filename).startswith(repo) for f in tb)):
        return f'{os.path.relpath(fn, repo) if fn.startswith(repo) else fn}:{last.lineno} in {last.name}'
    return None


class Report:
    def __init__(self, prop, tier, seed, level='proof'):
        self.prop, self.tier, self.seed, self.level = prop, tier, seed, level
        self.t0 = time.time()
        self.obls = []
        self.units = {}             # unit -> {'vcs': n, 'paths': n, 'wall': s}
        CURRENT[0] = self
        self._seen = set()
        self.filtered_units = set()       # units run so far with a clause filter only (the dependency layer completes them)
        self.errors = []            # (unit, kind, message)   -> undecided / fault
        self.bounded = []           # bounded stand-ins: dicts, never counted as proved
        self.unit_bounded = {}      # unit -> {'tried', 'bound', 'violations'} for units whose bounded stand-in ran
        self.assumptions = list(ASSUMPTIONS_COMMON)
        self.trusted = list(TRUSTED_BASE)
        self.notes = []
        self.functions = set()      # functions / classes under contract
        self.samples = []
        self.extra = {}
        self.child_access = set()
        self.vacuity = {'feasible_paths': 0, 'mustfail_guards_refuted': 0}

    # ---- intake
    def add_fragment_results(self, results, clause_filter=None, unit_filter=None):
        for r in results:
            unit = r['unit']
            if r.get('crash'):
                self.errors.append((unit, 'crash', r['crash'][-600:]))
                continue
            if unit_filter is not None:
                # dependency layer: obligations that are a recorded finding of SOME property are reported under that property, not here
                r = dict(r, verdicts=[v for v in r['verdicts'] if unit_filter(unit, v['obligation'], v.get('path'))],
                         ground=[g for g in r.get('ground', []) if unit_filter(unit, g[0], None)])
            self.units[unit] = {'vcs': len(r['verdicts']), 'paths': r.get('paths', 0), 'wall': r.get('wall', 0)}
            self.child_access.update(tuple(a) for a in r.get('child_access', []))
            cc = (r.get('stats') or {}).get('cpython_crosscheck')
            if cc:
                self.vacuity['cpython_crosscheck_runs'] = self.vacuity.get('cpython_crosscheck_runs', 0) + cc.get('tried', 0)
            self.vacuity['feasible_paths'] += r.get('paths', 0)
            self.vacuity['mustfail_guards_refuted'] += sum((r.get('stats') or {}).get('mustfail', {}).values())
            if r.get('error'):
                self.errors.append((unit, r['error'][0], r['error'][1]))
            if r.get('bounded'):
                self.unit_bounded[unit] = r['bounded']
            for v in r['verdicts']:
                if clause_filter and not clause_filter(v['obligation']):
                    continue
                key = (unit, v['obligation'], tuple(map(str, v.get('path') or ())))
                if key in self._seen:
                    continue            # the same VC of the same unit, already recorded by an earlier (narrower) run of this check
                self._seen.add(key)
                verdict = {'unsat': 'proved', 'sat': 'failed', 'disagree': 'disagree'}.get(v['verdict'], 'unknown')
                self.obls.append(Obligation(unit, v['obligation'], 'smt', verdict, v.get('solver', ''), v.get('time_s', 0),
                                            detail={'model': v.get('model'), 'src': r.get('src'), 'cfg': r.get('cfg')} if verdict != 'proved' else None,
                                            replay=v.get('replay'), path=v.get('path'), second=v.get('second')))
            for g in r.get('ground', []):
                if clause_filter and not clause_filter(g[0]):
                    continue
                self.obls.append(Obligation(unit, g[0], 'ground', 'proved' if g[1] else 'failed',
                                            detail={'note': g[2], 'src': r.get('src'), 'cfg': r.get('cfg')} if not g[1] else None))

    def add(self, unit, name, kind, ok, detail=None, replay=None):
        """exactly decided obligation (ground / case-complete / schematic / syntactic); ok may be None = undecided"""
        verdict = 'proved' if ok is True else ('failed' if ok is False else 'unknown')
        self.obls.append(Obligation(unit, name, kind, verdict, detail=detail if verdict != 'proved' else None, replay=replay))
        self.units.setdefault(unit, {'vcs': 0})
        self.units[unit]['vcs'] = self.units[unit].get('vcs', 0) + 1

    # ---- finish
    def finish(self, out=sys.stdout):
        known = load_known(self.prop)
        failed = [o for o in self.obls if o.verdict == 'failed']
        unknown = [o for o in self.obls if o.verdict == 'unknown']
        disagree = [o for o in self.obls if o.verdict == 'disagree']
        lines, viol, matched = [], [], {}
        for o in failed:
            k = match_known(known, o)
            if k is not None:
                matched.setdefault(k['id'], (k, []))[1].append(o)
            else:
                viol.append(o)
        for kid, (k, os_) in matched.items():
            lines.append(f"KNOWN-FINDING: property={self.prop} {k['text']} [{len(os_)} obligation(s), e.g. {os_[0].ident}]")
        code = 0
        rdir = os.path.join(os.environ.get('VERIF_REPLAY_DIR') or os.path.join(paths.VERIF, 'replays'), self.prop)      # VERIF_REPLAY_DIR: harnesses that run checks in parallel
        # faults: loop-free unit whose counter-model does not reproduce natively
        faults = list(disagree)
        if viol:
            os.makedirs(rdir, exist_ok=True)
            for f in os.listdir(rdir):
                if f.endswith('.json'):
                    try:
                        os.remove(os.path.join(rdir, f))
                    except FileNotFoundError:
                        pass
            # reproduced counterexamples first; at most 12 lines (the evidence file and replays/ hold the rest)
            viol.sort(key=lambda o: 0 if (o.replay or {}).get('reproduced') else 1)
            for i, o in enumerate(viol[:12]):
                path = os.path.join(rdir, f'v{i:03d}.json')
                rp = o.replay or {}
                reproduced = rp.get('reproduced')
                with open(path, 'w') as f:
                    json.dump({'property': self.prop, 'obligation': o.ident, 'kind': o.kind, 'tier': self.tier,
                               'replay': rp, 'detail': o.detail, 'repo': paths.REPO,
                               'how': 'native re-execution of the emitted fragment / real function on the counter-model (L1); see pyvc/replay.py'},
                              f, indent=1, default=str)
                tail = '' if reproduced else ' no-failing-input-found'
                lines.append(f'VIOLATION property={self.prop} replay={path} obligation={o.ident}{tail}')
            if len(viol) > 12:
                lines.append(f'... {len(viol) - 12} further failed obligation(s) of {self.prop} not listed (see evidence/{self.prop}.json)')
            code = 1
        if faults:
            for o in faults:
                lines.append(f'CHECKER-FAULT property={self.prop} obligation={o.ident} solvers disagree {o.second}')
            code = max(code, 3) if code != 1 else 1
        vac = [e for e in self.errors if e[1] in ('vacuous', 'crash')]
        # a unit with a FAILED obligation is reported as a violation; that its remaining paths are contradictory (an obligation that fails for
        # certain cuts them off) is then no separate fault of the checker
        failed_units = {o.unit for o in self.obls if o.verdict == 'failed'}
        vac = [e for e in vac if not (e[1] == 'vacuous' and e[0] in failed_units)]
        und = [e for e in self.errors if e[1] not in ('vacuous', 'crash')]      # out-of-subset, role, timeout
        # a unit that left the verifier's reach (out of subset / role binding) but whose BOUNDED native stand-in ran and found nothing:
        # "a bounded check of that function with a stated bound may stand in, labelled bounded and never counted as proved" - not an alarm
        def _stood_in(e):
            b = self.unit_bounded.get(e[0])
            return e[1] in ('out-of-subset', 'role') and b is not None and b.get('tried', 0) > 0 and b.get('violations', 0) == 0
        soft = [e for e in und if _stood_in(e)]
        und = [e for e in und if not _stood_in(e)]
        for e in soft:
            b = self.unit_bounded[e[0]]
            lines.append(f"BOUNDED-ONLY property={self.prop} unit={e[0]} not within the verifier's reach ({e[1]}: {str(e[2])[:160]}); bounded stand-in held on {b['tried']} inputs ({str(b['bound'])[:160]}) - not counted as proved")
            self.bounded.append({'unit': e[0], 'bound': str(b['bound']), 'tried': b['tried'], 'violations': 0, 'reason': f'{e[1]}: {str(e[2])[:200]}', 'stands_in_for_proof': True})
        if code == 0:
            if vac:
                code = 3
            elif unknown or und:
                code = 2
        for e in vac:
            lines.append(f'CHECKER-FAULT property={self.prop} unit={e[0]} {e[1]}: {str(e[2])[:300]}')
        for e in und:
            lines.append(f'UNDECIDED property={self.prop} unit={e[0]} {e[1]}: {str(e[2])[:300]}')
        for o in unknown[:20]:
            lines.append(f'UNDECIDED property={self.prop} obligation={o.ident} solver-unknown {o.second or ""}')
        if not self.obls:
            lines.append(f'CHECKER-FAULT property={self.prop} zero obligations generated')
            code = 3
        proved = [o for o in self.obls if o.verdict == 'proved']
        n_known = sum(len(v[1]) for v in matched.values())
        wall = time.time() - self.t0
        by_kind = {}
        for o in self.obls:
            by_kind.setdefault(o.kind, [0, 0])
            by_kind[o.kind][0] += 1
            by_kind[o.kind][1] += o.verdict == 'proved'
        smt = [o for o in self.obls if o.kind == 'smt']
        backend = {}
        for o in smt:
            b = backend.setdefault(o.solver or 'z3', {'queries': 0, 'unsat': 0, 'sat': 0, 'unknown': 0, 'total_s': 0.0, 'max_s': 0.0})
            b['queries'] += 1
            b[{'proved': 'unsat', 'failed': 'sat'}.get(o.verdict, 'unknown')] += 1
            b['total_s'] = round(b['total_s'] + o.time_s, 3)
            b['max_s'] = round(max(b['max_s'], o.time_s), 3)
        slow = sorted(smt, key=lambda o: -o.time_s)[:10]
        samples = self.samples or [o.brief() for o in (smt[:: max(1, len(smt) // 6)][:6] or self.obls[:6])]
        ev = {
            'property_id': self.prop, 'tier': self.tier, 'seed': self.seed, 'level': self.level,
            'coverage': {
                'obligations': len(self.obls) - n_known,
                'discharged': len(proved),
                'checker_cmd': f'./check {self.prop} --tier {self.tier}',
                'trusted_base': self.trusted,
                'by_kind': {k: {'obligations': v[0], 'discharged': v[1]} for k, v in by_kind.items()},
                'known_finding_obligations': n_known,
                'known_findings': [{'id': k['id'], 'text': k['text'], 'obligations': [o.ident for o in os_][:8]} for k, os_ in matched.values()],
                'units': len(self.units),
                'functions_under_contract': sorted(self.functions),
                'unit_list': sorted(self.units)[:400],
                'backend': backend,
                'slowest': [dict(o.brief()) for o in slow],
                'bounded_standins': self.bounded,
                'vacuity': dict(self.vacuity, rule='every unit needs >= 1 feasible path (path condition SAT) and zero obligations is a fault; per fragment unit two deliberately wrong clauses (negated status, end off by one) must NOT be provable'),
                'failed': [o.ident for o in viol][:200],
                'undecided': [o.ident for o in unknown][:50] + [f'{e[0]}: {e[1]}: {str(e[2])[:200]}' for e in und][:50],
                'bounded_only_units': [f'{e[0]}: {e[1]}: {str(e[2])[:200]}' for e in soft],
                'samples': samples,
                'explanation': ' '.join(self.notes) or 'see DESIGN.md',
                'repo': paths.REPO,
                **self.extra,
            },
            'assumptions': self.assumptions,
            'wall_s': round(wall, 2),
            'violations': len(viol),
        }
        # seeded-change experiments set VERIF_EVIDENCE_DIR so that the committed evidence (unchanged tree) is not overwritten
        edir = os.environ.get('VERIF_EVIDENCE_DIR') or os.path.join(paths.VERIF, 'evidence')
        os.makedirs(edir, exist_ok=True)
        with open(os.path.join(edir, f'{self.prop}.json'), 'w') as f:
            json.dump(ev, f, indent=1, default=str)
        for ln in lines:
            print(ln, file=out)
        print(f'{self.prop} [{self.tier}] obligations={len(self.obls)} discharged={len(proved)} known-finding={n_known} '
              f'violations={len(viol)} undecided={len(unknown) + len(und)} bounded-only={len(soft)} units={len(self.units)} wall={wall:.1f}s exit={code}', file=out)
        return code


def load_known(prop):
    p = os.path.join(paths.VERIF, 'known_findings.json')
    if not os.path.exists(p):
        return []
    with open(p) as f:
        data = json.load(f)
    return [k for k in data.get('findings', []) if k['property'] == prop]


def matches_any_known(unit, name, path):
    """is (unit, obligation, path) a recorded finding of ANY property?"""
    p = os.path.join(paths.VERIF, 'known_findings.json')
    if not os.path.exists(p):
        return False
    global _ALL_KNOWN
    try:
        _ALL_KNOWN
    except NameError:
        with open(p) as f:
            _ALL_KNOWN = json.load(f).get('findings', [])
    o = type('O', (), {'unit': unit, 'name': name, 'path': path})()
    return match_known(_ALL_KNOWN, o) is not None


def match_known(known, o):
    for k in known:
        m = k['match']
        if re.search(m['unit'], o.unit) and re.search(m['obligation'], o.name):
            # optional: the finding is tied to the PATH on which the obligation fails (the sequence of branch / child events of the failing
            # VC), so that the same clause failing on another path - a different violation - is still reported
            if 'path' in m and not re.search(m['path'], ' '.join(map(str, o.path or []))):
                continue
            return k
    return None
