"""The combination lemma behind assumption A-meta (meta/Compose.lean): structural induction over expression trees and induction over the
unfolding depth of rule references, from the per-unit statements to every grammar.  Checked by Lean 4 (core only).  `./check meta`."""
import os
import re
import shutil
import subprocess
import time

from . import paths

ALLOWED_AXIOMS = {'propext', 'Quot.sound', 'Classical.choice'}      # Lean's standard axioms; sorryAx or anything else is a failure
FILES = {'Compose.lean': ('Sourcer.a_meta', 'Sourcer.a_meta_expr'),
         'Segments.lean': ('Sourcer.segments_sound', 'Sourcer.construct_sound')}


def check_meta(timeout=300):
    """-> {'status': 'checked' | 'unavailable' | 'failed', ...}"""
    lean = shutil.which('lean')
    if lean is None:
        return {'status': 'unavailable', 'reason': 'lean is not on PATH'}
    res = {'status': 'checked', 'files': sorted('meta/' + f for f in FILES), 'back_end': 'lean 4 (kernel)', 'time_s': 0.0, 'axioms': {}}
    t0 = time.time()
    for fname, theorems in FILES.items():
        src = os.path.join(paths.VERIF, 'meta', fname)
        try:
            p = subprocess.run([lean, src], capture_output=True, text=True, timeout=timeout, cwd='/')
        except subprocess.TimeoutExpired:
            return dict(res, status='failed', reason=f'lean did not finish {fname} within {timeout} s')
        out = p.stdout + p.stderr
        if p.returncode != 0 or 'error' in out or 'sorry' in out:
            return dict(res, status='failed', reason=f'{fname}: {out[-1500:]}')
        for t in theorems:
            m = re.search(rf"'{re.escape(t)}' (does not depend on any axioms|depends on axioms: \[([^\]]*)\])", out)
            if not m:
                return dict(res, status='failed', reason=f'no axiom report for {t}: {out[-600:]}')
            ax = [a.strip() for a in (m.group(2) or '').split(',') if a.strip()]
            res['axioms'][t] = ax
            if not set(ax) <= ALLOWED_AXIOMS:
                return dict(res, status='failed', reason=f'{t} depends on {ax}')
    res['time_s'] = round(time.time() - t0, 2)
    return res


def main():
    r = check_meta()
    print(r)
    return 0 if r['status'] == 'checked' else (2 if r['status'] == 'unavailable' else 3)
