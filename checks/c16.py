"""C16 - transform rewrites bottom-up, once per node, preserving metadata."""
from contracts import rt_transform, rt_objects
from pyvc.report import Report
from pyvc.rtver import RtCx
from .common import run_rt, dependency_layer
from . import wiring


def run(tier, seed):
    rep = Report('C16', tier, seed, 'proof')
    rep.notes.append('_transform proved by modular recursion (its own contract assumed at the recursive calls) with a ghost event trace: '
                     'one recursive call per field in order, then ONE callback application on the node rebuilt from the transformed fields '
                     '(same object when nothing changed, otherwise a fresh copy of the same class with the metadata contents of the original); '
                     'lists rebuilt element-wise, everything else passes through. The inner callback chain: callbacks in the order given; the only heap '
                     'write is the metadata copy into a metadata-less replacement.')
    run_rt(rep, rt_transform.TRANSFORM, tier)
    run_rt(rep, [rt_objects.ReplaceC()], tier)      # the callee _transform relies on: discharged here too, not assumed
    wiring.metadata_obligations(rep, tier)
    if tier == 'thorough':
        c = rt_transform.TRANSFORM[0]
        bad, tried, bound = c.bounded(RtCx(c, {}))
        rep.bounded.append({'unit': 'transform', 'bound': bound, 'tried': tried, 'violations': len(bad)})
        if bad:
            rep.add('bounded:transform', 'agrees with the reference algorithm on the fixed family', 'bounded', False, detail={'violations': bad[:3]},
                    replay={'reproduced': True, 'violated': bad[:3]})
    rep.assumptions.append('ParsedObject._replace enters _transform by its contract, which is discharged in this check as well; user callbacks are pure functions of their argument')
    rep.assumptions.append('"exactly once per occurrence, children before parents" for whole trees follows from the per-activation trace contract by induction on tree height (paper)')
    rep.assumptions.append('python == between objects is modelled as an unknown reflexive relation, `is` as identity: code that compares nodes with == instead of `is` cannot establish the contract')
    dependency_layer(rep, tier)
    return rep.finish()
