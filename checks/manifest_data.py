"""single source for MANIFEST.json (tools_gen_manifest.py)"""
NOTES = ('Contract-based deductive verification of the real code, see DESIGN.md. Exit codes: 0 held / 1 VIOLATION / '
         '2 UNDECIDED (solver unknown, unit over its budget, or out of the verified subset without a bounded stand-in) / 3 checker fault. '
         'A unit that leaves the verified subset but whose bounded native stand-in ran and held is reported as BOUNDED-ONLY (labelled in the evidence, '
         'never counted as proved) and does not raise the exit code. Every check ends with a dependency layer (generic clauses of all fragment contracts, run-time library '
         'contracts, node classes, wiring, front end: the code the property passes through; DESIGN.md section 0 item 9). ./check selftest runs stored seeded changes and '
         'behaviour-preserving edits against the checks. Known findings: known_findings.json.')

NOT_APPLICABLE = {}

CHECKS = {
    'C01': {
        'category': 'proof',
        'technique': 'contract-based deductive verification: per-class Hoare contracts on emitted fragments with abstract children, own AST->VC generator, z3/cvc5',
        'text': 'For every core expression class and every admissible combination of child flags (and both calling conventions) the text '
                'emitted by the real _compile is proved, for all inputs, positions and child behaviours, to implement the documented PEG '
                'meaning (status, value, end), to restore/report positions consistently with the real always_succeeds/can_partially_succeed '
                'flags, and to write only its own temporaries. By structural induction this covers every grammar over these constructs.',
        'design_ref': 'DESIGN.md 6 C01',
        'note': 'Trusted: VC generator (pyvc), z3/cvc5, outsourcer, CPython. Assumed: A-meta (the induction itself is machine-checked in Lean, meta/Compose.lean; the correspondence of its hypotheses to the clause families is not), A-subst, '
                'A-uniform (arity <= 3 quick / <= 4 thorough proved outright; literal sentinels), re contract, driver contract, well-formed grammars (partial correctness).',
    },
    'C03': {
        'category': 'proof',
        'technique': 'contract-based deductive verification: loop invariants over recursive spec functions on the emitted List/Sep fragments, abstract children, z3/cvc5',
        'text': 'List with literal, numeric-string and data-dependent bounds (free non-negative integers of the VC) and Sep over all 12 accepted '
                'option combinations x child flags: the emitted loops are proved (unbounded, all inputs) to implement the greedy bounded / '
                'separated-list meaning, including trailer handling, kept separators, allow_empty, require_separator, and position '
                'restoration consistent with the real flags; constructor rejections and the surface-syntax mapping are decided exactly.',
        'design_ref': 'DESIGN.md 6 C03',
        'note': 'As C01. Known finding carved out as a separate unit: run-time max < min (everything is proved under max >= min). '
                'Name bounds assumed to be non-negative integers.',
    },
    'C05': {
        'category': 'proof',
        'technique': 'contract-based deductive verification: environment-passing child contracts, heap contract for class bodies, case-complete closure analysis of emitted helpers',
        'text': 'Let, Where, Apply, inline Python, class bodies (15 member shapes) and data-dependent repetition counts: emitted fragments proved '
                'against an environment-passing spec in which each child sees exactly the bindings made earlier in the same attempt; class '
                'bodies produce a fresh instance over the named non-omitted members in order, with frame condition on the heap. '
                'Class._compile is tied to the verified fragment by exact text comparison; helper-function closure decided case by case.',
        'design_ref': 'DESIGN.md 6 C05',
        'note': 'As C01. Known findings: let-shadowing clobbers the outer binding; names used in inline Python / repetition bounds are not '
                'captured when an expression is spilled or passed as an argument. Activation isolation rests on CPython local-variable semantics. '
                'The scope tracker SymbolCounter: previsit / postvisit / is_bound proved against pointwise contracts (contracts/repo_scope.py); that the count equals the number of open binders over a whole visit is a paper induction, cross-checked bounded (all forests <= 4 nodes).',
    },
    'C07': {
        'category': 'proof',
        'technique': 'contract-based deductive verification: ghost-state loop invariant on the real _run (extracted from the template), abstract generators, z3',
        'text': 'The trampoline _run (both calling conventions, extracted from the translator template on every run) is proved with ghost '
                'state: at most one generator is ever created per (callee, position) key, the memo is written once per key with that key\'s final '
                'triple, and every value sent into a waiting generator is None (first activation) or the single recorded answer of the request it '
                'waits on. Holds for ANY protocol-conforming generator behaviour, all inputs, unbounded. Wiring obligations: every rule invocation '
                'in emitted code is a driver request; ignored rules are referenced, not inlined; argument rules share the key of direct references.',
        'design_ref': 'DESIGN.md 6 C07',
        'note': 'Assumed (requires): requested key not already on the stack (no left recursion). Running time itself is not observed. '
                'Generator protocol is what the fragment/rule contracts establish. Trusted: VC generator, z3, CPython dict/tuple hashing (== keys).',
    },
    'C08': {
        'category': 'proof',
        'technique': 'contract-based deductive verification: postconditions and safety VCs on _run, _finalize_parse_info, _position_at, error functions; schematic entry-point check',
        'text': 'The three outcomes are postconditions of _run over the ghost answer of the start request; "no other exception" is the conjunction '
                'of discharged safety VCs (index in range, pop from non-empty, unpack arity, key present, callee is an error function) in _run, '
                '_finalize_parse_info (any raw span, incl. zero-width at end of input), _position_at, _raise_errorN, _extract_excerpt, line/column map; '
                'every public entry point is shown on emitted text to be _run over the right implementation with the documented defaults.',
        'design_ref': 'DESIGN.md 6 C08',
        'note': 'Shift clause (parse(text,k) vs text[k:]) only on paper. visit() and the class-body fragment enter by contract (C15, C05/C10). User code assumed non-raising.',
    },
    'C09': {
        'category': 'proof',
        'technique': 'contract-based deductive verification: loop invariant over nl/lastnl spec functions, strings as ropes (linear arithmetic), lemma by induction, G-fpos on every fragment',
        'text': '_map_index_to_line_and_column proved against recursive spec functions (line = 1 + line breaks before, column = 1 + offset in line) '
                'for str and bytes; _extract_excerpt proved with strings as ropes: every text slice shown lies inside the line of the error (un-clipped '
                'slices are safety VCs) and text[pos] stands at the caret offset, in all four abbreviation regimes; _raise_errorN raises ParseError '
                'with (pos, None, None) exactly at end of input; every fragment reports a failure position some sub-attempt left behind, within [0, len].',
        'design_ref': 'DESIGN.md 6 C09',
        'note': 'Search for the next line break known by contract (re). Message text checked structurally (pieces), not character by character. '
                'When a run-time function leaves the executor\'s subset a bounded native stand-in (all small inputs) may still refute it; it never counts as proved.',
    },
    'C10': {
        'category': 'proof',
        'technique': 'contract-based deductive verification: heap contract on the class-body fragment, closed-form heap invariant on _finalize_parse_info, visit by contract',
        'text': 'Class-body fragments (15 member shapes x child flags) are proved to return a FRESH instance whose metadata holds the raw span '
                '(entry position, exit position) and to write nothing else; _finalize_parse_info is proved, with a closed-form heap invariant, to '
                'convert every instance yielded by visit exactly once into (_Position(a, line, col), _Position(b-1, line, col)) and to write nothing '
                'else; line/column tables per C09; wiring: every class implementation records its span whatever its members.',
        'design_ref': 'DESIGN.md 6 C10',
        'note': 'Nesting/disjointness/order of spans and independence from abandoned alternatives / memoised reuse / pos are frame consequences argued on paper. '
                'visit enters by contract (proved in C15 and re-run here).',
    },
    'C14': {
        'category': 'proof',
        'technique': 'contract-based deductive verification: loop invariants over recursive spec functions on ParsedObject.__eq__/__hash__/_replace/_hash, totality VC for _Metadata.__getattr__',
        'text': '__eq__ proved equal to "same class and pairwise identical-or-equal fields" (metadata never read); __hash__ and _hash proved to be the '
                'xor-fold of _hash over fields / items (order-insensitive), with the cache; _replace proved (closed-form dict invariant) to build a new '
                'object of the same class with exactly the given fields replaced and the metadata contents kept, original untouched; '
                '_Metadata.__getattr__ proved total on instances whose __dict__ is still empty (copy/pickle protocol); emitted classes and Infix/Prefix/Postfix tied to their field lists.',
        'design_ref': 'DESIGN.md 6 C14',
        'note': 'copy/pickle protocol assumed as documented. Tree-level equivalence / eq=>hash laws follow by induction on height given xor AC and foreign == being an equivalence (paper). '
                'Bounded native value-law stand-in (thorough tier and when a function leaves the subset) is labelled bounded.',
    },
    'C15': {
        'category': 'proof',
        'technique': 'contract-based deductive verification: loop invariant out.SPEC(rev(stack), visited) = SPEC([root], {}) on the real visit/traverse, recursive spec functions unfolded on demand',
        'text': 'visit and traverse (extracted from the template on every run) are proved, for all heaps, to emit exactly PRE([root],{}) resp. EVT([root],{}) - '
                'the statement written as recursive functions over a work list and a visited set: pre-order, left to right, first occurrence only; '
                'enter/finish pair for every occurrence with its parent, field and child, containers expanded the first time only. Set membership is required to be by id().',
        'design_ref': 'DESIGN.md 6 C15',
        'note': 'Heap abstraction (kind/children fixed during the walk, id injective); list-reversal lemmas discharged by cvc5 (native seq.rev); termination not proved; '
                'the three comprehensions of traverse are matched syntactically against the definition of the child occurrences.',
    },
    'C16': {
        'category': 'proof',
        'technique': 'contract-based deductive verification: modular recursion with a ghost event trace on _transform, fold invariant and per-iteration frame obligation on the callback chain',
        'text': '_transform is proved (its own contract assumed at recursive calls) to make one recursive call per field in order and then ONE callback '
                'application on the node rebuilt from the transformed fields (same object if nothing changed, else a fresh copy of the same class carrying '
                'the metadata contents of the original); lists rebuilt element-wise, other values pass through. The inner callback chain applies the '
                'callbacks in order; its only heap write is the metadata copy into a metadata-less replacement object.',
        'design_ref': 'DESIGN.md 6 C16',
        'note': 'Known finding: the replacement that receives metadata may be an existing node of the input tree. Whole-tree "exactly once, children first" by induction on height (paper). '
                '_replace by contract (C14). == between objects modelled as unknown reflexive relation, `is` as identity.',
    },
    'C04': {
        'category': 'proof',
        'technique': 'contract-based deductive verification: leaf fragment contracts with the skip request, Skip loop invariant; schematic wiring check on the real translator',
        'text': 'Str/Regex/Byte fragments with skipping are proved: on success the position is the driver\'s answer for the _ignored rule at the end of '
                'the literal match, on failure no request is made and the position is unchanged, results never contain skipped text; _ignored is Skip over '
                'references (maximal run, always succeeds). Schematic obligations on 7 grammar shapes: _ignored requests exactly the declared rules, the '
                'entry rule begins with the skip, every literal skips exactly once after success and nothing else does; visit reaches every child of every class.',
        'design_ref': 'DESIGN.md 6 C04',
        'note': 'Second sentence of the statement (metamorphic) only on paper. Wiring exhaustive over the shape family only.',
    },
    'C06': {
        'category': 'proof',
        'technique': 'contract-based deductive verification: Call fragment contract over abstract arguments; case-complete adaptor analysis of emitted helpers; sentinel execution of the wrappers',
        'text': 'Call fragments (callee rule/parameter x 8 argument kinds x positional/keyword x both conventions) proved to emit one request '
                '(CALL, _ParseFunction(callee, args in order, keyword pairs), entry position); argument helpers: parameters = captured tuple in order, body = '
                'inline fragment + final yield, no free names; references resolve to the innermost binder; constructor interception limited to documented names; '
                'ParsedObject.__eq__ (memo-key component for object-valued arguments) proved structural.',
        'design_ref': 'DESIGN.md 6 C06',
        'note': 'Known findings: == memo keys conflate 1/True/1.0 and reject unhashable values; names used in inline Python are not captured. Expansion semantics and '
                'non-interference rest on C05 (locals) and C07 (same outcome for == keys).',
    },
    'C13': {
        'category': 'proof',
        'technique': 'contract-based deductive verification: fragment contracts under the named convention (late binding as a postcondition), _run context threading; schematic obligations on real 3-level chains',
        'text': 'Proved on fragments: every non-local rule reference (parsing position, template argument, callee, the _ignored request of literals) is an '
                'attribute of the RUN-TIME context; super.R is the static parent context of the defining module; _run passes the received context '
                'unchanged to every generator. Schematic obligations on real chains A <- B <- C (ignore none/named/anonymous per level, X overridden '
                'plainly / via super / not, dotted names): override resolution, context completeness, static super, parent untouched, ignore and start inheritance.',
        'design_ref': 'DESIGN.md 6 C13',
        'note': 'Wiring exhaustive over the stated family only (rule bodies are placeholders); behavioural rows are ground executions under a 20 s budget. '
                'Known finding on the unchanged tree: B.<Rule>.parse of an INHERITED rule runs in the base context (known_findings.json, DESIGN.md 12).',
    },
    'C11': {
        'category': 'proof',
        'technique': 'contract-based deductive verification: calling convention as a configuration dimension of the fragment contracts; case-complete convention/wrapper analysis; exact static analysis of emitted modules',
        'text': 'Both calling conventions (named / unnamed) are proved against the same specs for the fragment classes and _run; every emitted definition '
                'that the driver or another fragment invokes takes _ctx first iff the grammar is named and every invoker supplies it, no public entry point '
                'exposes it; emitted modules are self-contained over the standard library, contain no assert / __doc__ reads (optimize=2 == plain execution), '
                'their docstring evaluates back to the description; the generator keeps no state; recompilation is textually equal modulo anonymous rule names.',
        'design_ref': 'DESIGN.md 6 C11',
        'note': 'Congruence lemma (same text => same behaviour) on paper; outsourcer trusted; schematic family of 4 grammars x named/unnamed.',
    },
    'C17': {
        'category': 'proof',
        'technique': 'contract-based deductive verification: case-complete analysis of the real spill path against the driver contract; block accounting on emitted fragments; call-graph obligation',
        'text': 'With the block budget exhausted the real Expression.compile is shown (8 child kinds x both conventions) to replace a fragment by ONE driver '
                'request for a helper whose body is exactly that fragment plus the final yield, with captured names passed in order and no free names - so the '
                'fragment contract is preserved by the driver contract; loops opened by each fragment <= its declared num_blocks (nesting <= 20 by induction); '
                'wrappers (Seq, Opt, Choice) by their C01 contracts; run-time functions reachable from parse call each other acyclically; visit de-duplicates by id().',
        'design_ref': 'DESIGN.md 6 C17',
        'note': 'Known finding shared with C05: names used in inline Python are not captured by helpers. CodeBuilder.has_available_blocks trusted. `if` blocks may be under-declared by one level (indentation limit 100 is far).',
    },
    'C20': {
        'category': 'proof',
        'technique': 'contract-based verification of a namespace-disjointness (frame) contract by exact static analysis of real emitted text; one obligation per generated name',
        'text': 'For a grammar that uses every expression form with user identifiers spelled U_..., every name the generator introduces (locals of rule code, '
                'parameters next to user parameters, module-level definitions, builtins reached by bare name) gets the obligation "cannot collide with a user name"; '
                'user names reach emitted text only verbatim and the generator does not branch on their spelling, so one analysis covers all renamings.',
        'design_ref': 'DESIGN.md 6 C20',
        'note': 'Names violating disjointness on the unchanged tree are inherent in the naming scheme and listed one by one as known findings (temporaries without underscore, matcher<n>, self, builtins); a new colliding name is a violation.',
    },
    'C12': {
        'category': 'other',
        'technique': 'ground obligations reduced by a congruence lemma (identical program text => identical behaviour); bounded differential stand-in only when textual identity is lost',
        'text': 'Contracts cannot prove two different 6000-line parsers equivalent on all descriptions. The universally quantified statement is reduced to ground '
                'obligations: G0 sourcer/parser.py is byte-identical to the source the current tree generates from grammar.txt (hence ONE program: same tree / same '
                'rejection on every description), G1 generation 1 accepts grammar.txt, G2 generation 2 == generation 1 in a scratch copy, G3 the run-time inside '
                'parser.py is textually the verified templates. If G0 fails, both parsers are compared on a corpus + corruptions (bounded, labelled so).',
        'design_ref': 'DESIGN.md 6 C12',
        'note': 'Level "other": evaluation of the real generator + congruence; equivalence when texts differ is only bounded (a concrete distinguishing description, failed G1 or G2 is a violation).',
    },
    'C18': {
        'category': 'proof',
        'technique': 'contract-based verification of write frames / ownership: proved heap frames (_run locals, class-body fragment, _finalize_parse_info) + exact syntactic frame analysis of emitted and run-time code',
        'text': 'Isolation is decided by frame obligations, not by exploring schedules: _run keeps all parse state in locals (proved), emitted rule code assigns only '
                'locals and stores only the span of the instance it just built (proved heap frame), _finalize_parse_info writes only position_info of this call\'s '
                'instances (closed-form heap invariant), no function writes module-level state or reads module-level data other than compiled matchers / implementations / '
                'the context / the run-time library, and the generator writes only sys.modules[name].',
        'design_ref': 'DESIGN.md 6 C18',
        'note': 'Schedules and thread interleavings are NOT explored: the step from disjoint write frames to non-interference is a paper argument (A-noninterf); re patterns assumed immutable and thread-safe; user code pure.',
    },
    'C19': {
        'category': 'other',
        'technique': 'contract-based deductive verification of the documented meaning of every operator / constructor spelling on the objects the real front end builds (spelled contracts, all child behaviours) + case-complete comparison of emitted text for alternative spellings + ground obligations on syntax trees of layout variants',
        'text': 'Every operator and constructor spelling of the statement is proved, over abstract operands, to have the meaning the documentation gives it (class contract with the documented options, on what the real front end builds). For each pair of the statement the real front end maps both spellings (over abstract operands) to objects that emit identical code for every child-flag '
                'combination and both conventions; alternative separators / statement separators / comments / line breaks / parentheses / ignore(d) / bare expression '
                'give identical syntax trees on representatives; unparenthesised operators group as grammar.txt says (13 grouping cases + the table rows themselves).',
        'design_ref': 'DESIGN.md 6 C19',
        'note': 'Level "other": the step from representatives to every combination of layouts on every grammar rests on C01-C03/C02 (meaning of the discarding projections) and C12, on paper.',
    },
    'C02': {
        'category': 'proof',
        'technique': 'contract-based deductive verification: loop invariants over positional stacks with ghost state (prefix sums, per-slot tree records, occurrence numbers) on the real shunting-yard fragment with symbolic precedence/kind tags; per-construction shape obligations; bounded brute-force reference as cross-check',
        'text': 'The emitted operator-table fragment is proved over abstract operand/prefix/infix/postfix children whose values carry SYMBOLIC (precedence, '
                'kind) tags - one run covers all tables, all inputs, unbounded: every pop/index/unpack is safe (ghost prefix sums of infix entries: '
                'operands = infix entries + phase), the expression ends right after the last operand or postfix operator parsed (a dangling operator is left '
                'unconsumed; a second non-associative operator ends the expression), exactly one tree remains, status/flags are right - and the SHAPE: every '
                'Infix/Prefix/Postfix construction of the real code carries the local clauses of the statement as obligations (adjacent occurrences in input order, '
                'left operand binds tighter or equally in a left row, right operand tighter or equally in a right row, prefix/postfix operands at least as tight, '
                'stored operator = popped operator); stack invariants W0-W5/K1-K8 carry them through the six loops; the result is well-shaped, spans exactly the '
                'committed occurrences, and the run ends only for the three reasons of the statement. Tagging by OperatorTable.create: case-complete (one kind per row). '
                'Longest/Apply/Choice by their contracts.',
        'design_ref': 'DESIGN.md 0 (deviation 5), 6 C02',
        'note': 'Not proved: uniqueness of the well-shaped tree and optimality of the greedy run (that no longer run fits); whole-tree well-shapedness from the per-node clauses is a '
                'two-line induction on paper. BOUNDED cross-check, never counted as proved: brute-force reference of the statement on all token sequences up to length 6 (quick) / 8 (thorough) over 6 tables.',
    },
}
