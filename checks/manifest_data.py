"""single source for MANIFEST.json (tools_gen_manifest.py)"""
NOTES = ('Contract-based deductive verification of the real code, see DESIGN.md. Exit codes: 0 held / 1 VIOLATION / '
         '2 UNDECIDED (solver unknown, out of subset) / 3 checker fault. Known findings: known_findings.json.')

NOT_APPLICABLE = {}

CHECKS = {
    'C01': {
        'category': 'proof',
        'technique': 'contract-based deductive verification: per-class Hoare contracts on emitted fragments with abstract children, own AST->VC generator, z3/cvc5',
        'text': 'For every core expression class and every admissible combination of child flags (and both calling conventions) the text '
                'emitted by the real _compile is proved, for all inputs, positions and child behaviours, to implement the documented PEG '
                'meaning (status, value, end), to restore/report positions consistently with the real always_succeeds/can_partially_succeed '
                'flags, and to write only its own temporaries. By structural induction this covers every grammar over these constructs.',
        'design_ref': 'DESIGN.md 6 C01',
        'note': 'Trusted: VC generator (pyvc), z3/cvc5, outsourcer, CPython. Assumed: induction argument on paper (A-meta), A-subst, '
                'A-uniform (arity <= 3 quick / <= 4 thorough proved outright; literal sentinels), re contract, driver contract, well-formed grammars (partial correctness).',
    },
}
