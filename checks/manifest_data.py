"""single source for MANIFEST.json (tools_gen_manifest.py)"""
NOTES = ('Contract-based deductive verification of the real code, see DESIGN.md. Exit codes: 0 held / 1 VIOLATION / '
         '2 UNDECIDED (solver unknown, out of subset) / 3 checker fault. Known findings: known_findings.json.')

NOT_APPLICABLE = {}

CHECKS = {
    'C01': {
        'category': 'proof',
        'technique': 'contract-based deductive verification: per-class Hoare contracts on emitted fragments with abstract children, own AST->VC generator, z3/cvc5',
        'text': 'For every core expression class and every admissible combination of child flags (and both calling conventions) the text '
                'emitted by the real _compile is proved, for all inputs, positions and child behaviours, to implement the documented PEG '
                'meaning (status, value, end), to restore/report positions consistently with the real always_succeeds/can_partially_succeed '
                'flags, and to write only its own temporaries. By structural induction this covers every grammar over these constructs.',
        'design_ref': 'DESIGN.md 6 C01',
        'note': 'Trusted: VC generator (pyvc), z3/cvc5, outsourcer, CPython. Assumed: induction argument on paper (A-meta), A-subst, '
                'A-uniform (arity <= 3 quick / <= 4 thorough proved outright; literal sentinels), re contract, driver contract, well-formed grammars (partial correctness).',
    },
    'C03': {
        'category': 'proof',
        'technique': 'contract-based deductive verification: loop invariants over recursive spec functions on the emitted List/Sep fragments, abstract children, z3/cvc5',
        'text': 'List with literal, numeric-string and data-dependent bounds (free non-negative integers of the VC) and Sep over all 12 accepted '
                'option combinations x child flags: the emitted loops are proved (unbounded, all inputs) to implement the greedy bounded / '
                'separated-list meaning, including trailer handling, kept separators, allow_empty, require_separator, and position '
                'restoration consistent with the real flags; constructor rejections and the surface-syntax mapping are decided exactly.',
        'design_ref': 'DESIGN.md 6 C03',
        'note': 'As C01. Known finding carved out as a separate unit: run-time max < min (everything is proved under max >= min). '
                'Name bounds assumed to be non-negative integers.',
    },
    'C05': {
        'category': 'proof',
        'technique': 'contract-based deductive verification: environment-passing child contracts, heap contract for class bodies, case-complete closure analysis of emitted helpers',
        'text': 'Let, Where, Apply, inline Python, class bodies (15 member shapes) and data-dependent repetition counts: emitted fragments proved '
                'against an environment-passing spec in which each child sees exactly the bindings made earlier in the same attempt; class '
                'bodies produce a fresh instance over the named non-omitted members in order, with frame condition on the heap. '
                'Class._compile is tied to the verified fragment by exact text comparison; helper-function closure decided case by case.',
        'design_ref': 'DESIGN.md 6 C05',
        'note': 'As C01. Known findings: let-shadowing clobbers the outer binding; names used in inline Python / repetition bounds are not '
                'captured when an expression is spilled or passed as an argument. Activation isolation rests on CPython local-variable semantics.',
    },
}
