"""C11 - behaviour does not depend on how the grammar module was produced."""
from contracts import core, lists, bind, call, rt_run
from pyvc.report import Report
from .common import run_fragments, run_rt, dependency_layer
from . import wiring


def run(tier, seed):
    rep = Report('C11', tier, seed, 'proof')
    rep.notes.append('Named vs unnamed: the calling convention is a configuration dimension of the fragment contracts - both are proved against the SAME '
                     'spec; convention consistency: definitions take _ctx first iff the grammar is named and every invoker supplies it (_run creation sites, '
                     '_ParseFunction / literal wrappers, helpers, skipping), no public entry point exposes it. Emitted source: self-contained over the '
                     'standard library, no assert / __doc__ reads (optimize=2 == plain execution), docstring round-trip; generator keeps no state; '
                     'recompilation equal modulo anonymous names.')
    both = lambda c, cfg: 'ctx' in cfg and cfg.get('regime') != 'max<min'
    run_fragments(rep, [core.OptC(), core.ChoiceC(), core.SeqC(), core.DiscardC(), core.StrC(), core.RegexC(), core.ByteC(), core.RefC(), core.ListC(),
                        lists.SepC(), bind.LetC()] + call.CALL, tier, only_cfg=both,
                  clause_filter=lambda n: not n.startswith('post:G-scope'))      # scoping is C05's clause (known finding there)
    run_rt(rep, rt_run.RUN, tier)
    wiring.callable_wrapper_obligations(rep, tier)
    wiring.entry_point_obligations(rep, tier)
    wiring.argument_adaptor_obligations(rep, tier)
    wiring.spill_obligations(rep, tier)
    wiring.emitted_module_obligations(rep, tier)
    wiring.recompile_obligations(rep, tier)
    wiring.generator_state_obligations(rep, tier)
    rep.assumptions.append('same program text has the same behaviour (congruence) - this reduces "in-memory module vs emitted source executed separately" and '
                           '"repeated compilation" to textual identity + self-containedness')
    rep.assumptions.append('add_docstring / CodeBuilder.compile are outsourcer code (trusted; ground sanity check on adversarial descriptions)')
    dependency_layer(rep, tier)
    return rep.finish()
