"""C08 - parse has exactly three outcomes, fixed by the start rule's match."""
from contracts import rt_run, rt_final, rt_errors, rt_misc, rt_walk, shift, core, lists, bind, call
from pyvc.report import Report
from .common import run_rt, run_fragments, dependency_layer
from . import wiring


def run(tier, seed):
    rep = Report('C08', tier, seed, 'proof')
    rep.notes.append('_run: the three outcomes are postconditions over the ghost answer of the start request (value returned / '
                     'PartialParseError(value, end) / ParseError at the failure position); _finalize_parse_info, _position_at, error functions, '
                     'excerpt and line/column map: every operation that can raise carries a safety VC, so "no other exception" is the '
                     'conjunction of discharged safety VCs; every entry point is shown (on emitted text) to be _run over the right implementation.')
    run_rt(rep, rt_run.RUN + rt_final.FINAL + rt_errors.RT + rt_misc.EXC + [rt_walk.VisitC()], tier)
    shift.shift_lemmas(rep, tier)
    # "no other exception escapes": what _run relies on in EVERY answer of every emitted fragment - the status register is a bool (a truthy
    # 3 would be read as a request), on failure the result register is an error function (it is CALLED to raise ParseError), positions
    # stay inside the text, no operation of the fragment itself can raise.  The protocol clauses of all fragment contracts, re-run here.
    protocol = lambda name: any(t in name for t in ('G-bool', 'G-err', 'G-range', 'safety:'))
    run_fragments(rep, core.CORE + lists.LISTS + bind.BIND + call.CALL, tier, clause_filter=protocol,
                  only_cfg=lambda c, cfg: len(cfg.get('flags', [])) <= 2)
    wiring.entry_point_obligations(rep, tier)
    wiring.rule_wrapper_obligations(rep, tier)
    wiring.derived_start_obligations(rep, tier)
    wiring.derived_namespace_obligations(rep, tier)      # "no other exception escapes": no NameError from run-time support missing in a derived module
    rep.assumptions.append('shift clause: mechanised as a lemma over the SPEC functions of the loop-free combinators and the literal leaves (shift-invariant children '
                           'give a shift-invariant outcome; refuted for Backtrack as it must be); loop classes through their recursive spec functions and the step '
                           'from spec to code (the fragment contracts) are combined on paper; Regex by the re contract without anchors / look-behind; line/column are not claimed shift-invariant')
    rep.assumptions.append('exceptions raised by user code, MemoryError and RecursionError inside user callbacks are outside the statement')
    dependency_layer(rep, tier)
    return rep.finish()
