"""C08 - parse has exactly three outcomes, fixed by the start rule's match."""
from contracts import rt_run, rt_final, rt_errors, rt_misc, rt_walk
from pyvc.report import Report
from .common import run_rt
from . import wiring


def run(tier, seed):
    rep = Report('C08', tier, seed, 'proof')
    rep.notes.append('_run: the three outcomes are postconditions over the ghost answer of the start request (value returned / '
                     'PartialParseError(value, end) / ParseError at the failure position); _finalize_parse_info, _position_at, error functions, '
                     'excerpt and line/column map: every operation that can raise carries a safety VC, so "no other exception" is the '
                     'conjunction of discharged safety VCs; every entry point is shown (on emitted text) to be _run over the right implementation.')
    run_rt(rep, rt_run.RUN + rt_final.FINAL + rt_errors.RT + rt_misc.EXC + [rt_walk.VisitC()], tier)
    wiring.entry_point_obligations(rep, tier)
    wiring.rule_wrapper_obligations(rep, tier)
    wiring.derived_start_obligations(rep, tier)
    rep.assumptions.append('the shift clause (parse(text,k) vs parse(text[k:],0)) is not mechanised: positions are absolute indices in every '
                           'contract (leaves read text at p, never before it, re contract aside); stated as a paper consequence')
    rep.assumptions.append('exceptions raised by user code, MemoryError and RecursionError inside user callbacks are outside the statement')
    return rep.finish()
