"""C10 - class instances carry the exact span of input they were parsed from."""
from contracts import bind, rt_final, rt_walk, rt_errors
from pyvc.report import Report
from .common import run_fragments, run_rt, dependency_layer
from . import wiring


def run(tier, seed):
    rep = Report('C10', tier, seed, 'proof')
    rep.notes.append('Class-body fragment: on success the result is a FRESH instance whose metadata holds the raw span (entry position, '
                     'exit position) and nothing else on the heap is written (C-span, C-fresh, C-heap-frame); _finalize_parse_info converts every '
                     'instance yielded by visit exactly once into (_Position(a, line, col), _Position(b-1, line, col)) and writes nothing else '
                     '(closed-form heap invariant); visit yields every reachable instance once (C15 contract); line/column tables per C09.')
    run_fragments(rep, [bind.ClassSeqC()], tier)
    run_rt(rep, rt_final.FINAL + [rt_walk.VisitC(), rt_errors.MapIndexC()], tier)
    wiring.class_compile_obligations(rep, tier)
    from contracts import segments
    segments.class_body_closure(rep, tier)
    wiring.span_recording_obligations(rep, tier)
    wiring.metadata_obligations(rep, tier)
    rep.assumptions.append('"unaffected by abandoned alternatives / memoised reuse / pos" are frame facts: raw spans are written only into the fresh '
                           'instance, the memo hands out the same object (converted once: visit de-duplicates by identity), indices are absolute')
    rep.assumptions.append('nesting / disjointness / order of spans follow from monotone position threading of Seq/List/class bodies (C01/C03/C05 contracts) when no Backtrack/lookahead is involved (paper)')
    rep.assumptions.append('Infix/Prefix/Postfix nodes get no span (outside the statement: it speaks of class instances)')
    dependency_layer(rep, tier)
    return rep.finish()
