"""C07 - packrat guarantee: a rule is evaluated at most once per position."""
import ast
from contracts import rt_run, core
from pyvc.report import Report
from pyvc import frag, runtime, astutil
from .common import run_rt, run_fragments, dependency_layer


def run(tier, seed):
    rep = Report('C07', tier, seed, 'proof')
    rep.notes.append('_run (both calling conventions) proved with ghost state started/cnt/answered/pending: at most one generator is ever '
                     'created per (rule, position) key, the memo is written once per key with the final triple of that key, and every value '
                     'sent into a waiting generator is the one recorded answer of the request it is waiting on (same object). '
                     'Generators are abstract (any protocol-conforming behaviour). Rule references are requests to the driver, never direct calls.')
    run_rt(rep, rt_run.RUN, tier)
    run_fragments(rep, [core.RefC()], tier)
    from . import wiring
    wiring.no_direct_rule_calls(rep, tier)
    wiring.rule_wrapper_obligations(rep, tier)
    wiring.ignored_rule_is_memoised(rep, tier)
    wiring.memo_key_obligations(rep, tier)
    rep.assumptions.append('requires at generator creation: the requested key is not already on the stack (no left recursion, A-wf); '
                           'that the key is not memoised is PROVED from the branch conditions')
    rep.assumptions.append('running time is not observed: the bound (#rules x (len+1)) follows from started[K] <= 1 and from keys being (rule, position) pairs')
    rep.assumptions.append('generator protocol (proved for emitted rule functions by the fragment contracts): send returns a request (CALL, f, p) or a final (status, result, pos)')
    dependency_layer(rep, tier)
    return rep.finish()
