"""C03 - bounded repetition and separated lists honour their bounds and options."""
import itertools
from contracts import core, lists, spellings
from pyvc.report import Report
from pyvc import frag, front
from pyvc.frag import ex as X, FLAGS
from .common import run_fragments, dependency_layer
from . import wiring


def ground(rep):
    # constructor rejections (all 16 Sep option combinations / literal min > max)
    for d, t, e, r in itertools.product((True, False), repeat=4):
        try:
            X.Sep(frag.Stub(1, False, False), frag.Stub(2, False, False), discard_separators=d, allow_trailer=t, allow_empty=e, require_separator=r)
            accepted = True
        except Exception:
            accepted = False
        rep.add('ground:Sep.__init__', f'accepts-iff-not(require_separator and not allow_trailer)[d={d},t={t},e={e},r={r}]',
                'case_complete', accepted == (not (r and not t)))
    for mn, mx in [(3, 2), ('3', '2'), (2, '1'), ('5', 0)]:
        try:
            X.List(frag.Stub(1, False, False), min_len=mn, max_len=mx); ok = False
        except Exception:
            ok = True
        rep.add('ground:List.__init__', f'rejects-literal-min>max[{mn!r},{mx!r}]', 'case_complete', ok)
    for mn, mx in [(2, 2), (None, 0), ('m', 1), (5, 'n'), (0, 0)]:
        try:
            X.List(frag.Stub(1, False, False), min_len=mn, max_len=mx); ok = True
        except Exception:
            ok = False
        rep.add('ground:List.__init__', f'accepts[{mn!r},{mx!r}]', 'case_complete', ok)
    # literal bounds are compared as NUMBERS, whatever their spelling (int or digit string, any number of digits): accepted iff min <= max
    vals = [0, 1, 2, 5, 9, 10, 11, 19, 20, 21, 99, 100, 101, 1000]
    wrong = []
    for mn, mx in itertools.product(vals, repeat=2):
        for f, g in ((int, int), (str, str), (int, str), (str, int)):
            try:
                X.List(frag.Stub(1, False, False), min_len=f(mn), max_len=g(mx)); acc = True
            except Exception:
                acc = False
            if acc != (mn <= mx):
                wrong.append((f(mn), g(mx), acc))
    rep.add('ground:List.__init__', f'literal bounds: accepted iff int(min) <= int(max) [{len(vals)}^2 pairs x 4 spellings, values up to 1000]', 'case_complete',
            not wrong, detail={'wrong': wrong[:5]}, replay={'reproduced': True, 'violated': wrong[:5]} if wrong else None)
    # the bound written in the description is the bound of the List, digit for digit (every k up to 130, and some larger ones)
    wrong = []
    for k in list(range(0, 131)) + [200, 1000, 1010, 12345]:
        for text, want in ((f'X1{{{k}}}', (str(k), str(k))), (f'X1{{{k},}}', (str(k), None)), (f'X1{{,{k}}}', (None, str(k))), (f'X1{{0,{k}}}', ('0', str(k)))):
            try:
                node = front.expr_of(text)
                got = (node.min_len, node.max_len)
            except Exception as e:
                got = repr(e)
            if got != want:
                wrong.append((text, got))
    rep.add('ground:translator.Repeat', 'e{k}, e{k,}, e{,k}, e{0,k} carry exactly the written number, for every k in 0..130 and 200, 1000, 1010, 12345', 'case_complete',
            not wrong, detail={'wrong': wrong[:5]}, replay={'reproduced': True, 'violated': wrong[:5]} if wrong else None)
    # surface syntax -> same bounds / same options (real parser + real _create_parsing_expression, abstract operand)
    combos1 = [(f,) for f in FLAGS if f != (True, False)]
    cases = [('X1{2}', '2', '2'), ('X1{2,5}', '2', '5'), ('X1{2,}', '2', None), ('X1{,5}', None, '5'), ('X1{0}', '0', '0'),
             ('X1{n}', 'n', 'n'), ('X1{m,n}', 'm', 'n'), ('X1{,n}', None, 'n'), ('X1{m,}', 'm', None),
             ('X1{`k+1`}', 'k+1', 'k+1'), ('X1{1,`2*k`}', '1', '2*k'), ('X1{0,1}', '0', '1')]
    for text, mn, mx in cases:
        node = front.expr_of(text)
        rep.add('ground:translator.Repeat', f'{text} -> List(min={mn!r},max={mx!r})', 'case_complete',
                isinstance(node, X.List) and node.min_len == mn and node.max_len == mx,
                detail={'got': (getattr(node, 'min_len', None), getattr(node, 'max_len', None))})
        ok, d = front.same_code(text, lambda a, mn=mn, mx=mx: X.List(a, min_len=mn, max_len=mx), combos1, ctxs=(False,))
        rep.add('ground:translator.Repeat', f'{text} emits the code of List(e,{mn!r},{mx!r})', 'case_complete', ok, detail=d)
    combos2 = [(a, b) for a in FLAGS[1:] for b in FLAGS]
    for text, kw in [('X1 // X2', dict(allow_trailer=False)), ('X1 /? X2', dict(allow_trailer=True)),
                     ('Sep(X1, X2)', {}), ('Sep(X1, X2, allow_trailer=True)', dict(allow_trailer=True)),
                     ('Sep(X1, X2, discard_separators=False, allow_empty=False)', dict(discard_separators=False, allow_empty=False)),
                     ('Sep(X1, X2, allow_trailer=True, require_separator=True)', dict(allow_trailer=True, require_separator=True))]:
        ok, d = front.same_code(text, lambda a, b, kw=kw: X.Sep(a, b, **kw), combos2, ctxs=(False,))
        rep.add('ground:translator.Sep', f'{text} emits the code of Sep(e,s,{kw})', 'case_complete', ok, detail=d)


def run(tier, seed):
    rep = Report('C03', tier, seed, 'proof')
    rep.notes.append('List with literal, numeric-string and data-dependent (free integer) bounds and Sep over all 12 accepted option '
                     'combinations: emitted fragments proved against the greedy-bounded / separated-list spec with loop invariants over '
                     'recursive spec functions; surface syntax e{..}, //, /? mapped to the same objects and the same emitted text.')
    run_fragments(rep, [core.ListC(), lists.BoundedListC(), lists.SepC()], tier)
    run_fragments(rep, [spellings.SpelledSepC()], tier)      # `e // s`, `e /? s`, Sep(e, s, ...) as the real front end builds them
    ground(rep)
    wiring.a_subst_obligations(rep, tier)
    rep.functions.update(['sourcer.expressions.list._check_min_and_max_len', 'sourcer.expressions.sugar.Some',
                          'sourcer.translator._create_parsing_expression (Repeat / Sep branches)'])
    rep.assumptions.append('data-dependent bounds are non-negative integers (property: "all integer bounds 0..k")')
    dependency_layer(rep, tier)
    return rep.finish()
