"""C18 - parse calls are isolated from each other (frame / ownership obligations; schedules are NOT explored)."""
from contracts import rt_run, rt_final, bind
from pyvc.report import Report
from .common import run_rt, run_fragments, dependency_layer
from . import wiring


def run(tier, seed):
    rep = Report('C18', tier, seed, 'proof')
    rep.notes.append('Decided by write-frame obligations, not by exploring histories or schedules (this family has no schedule semantics): _run keeps memo, '
                     'stack and result in locals of the activation (proved with its invariants; syntactic frame: no global, stores only into fresh locals); '
                     'emitted rule code assigns only locals, mutates only its own lists, stores only the span of the instance it just built (class-body heap '
                     'frame proved); _finalize_parse_info writes only position_info of instances of this call\'s result (closed-form heap invariant); module-level '
                     'state is written at import only; the generator writes sys.modules[name] and nothing else.')
    run_rt(rep, rt_run.RUN + [rt_final.FinalizeC()], tier)
    run_fragments(rep, [bind.ClassSeqC()], tier, clause_filter=lambda n: n.startswith(('post:C-heap-frame', 'post:C-fresh', 'post:C-span')))
    wiring.isolation_obligations(rep, tier)
    wiring.generator_state_obligations(rep, tier)
    rep.assumptions.append('A-noninterf: disjoint write frames => no interference between activations (sequential, nested, abandoned, concurrent) is a paper argument; '
                           'compiled re patterns are immutable and thread-safe; user code is pure and does not inject shared parsed objects into results')
    rep.assumptions.append('noted, outside the statement: ParsedObject.__hash__ publishes a transient _hash = 0 before the real value (concurrent hash() of one shared object)')
    dependency_layer(rep, tier)
    return rep.finish()
