"""Case-complete / ground wiring obligations shared by several properties (DESIGN.md: kind `case_complete`).
Each obligation is decided exactly by running the REAL generator on abstract operands and analysing the text."""
import ast
import itertools

from pyvc import frag, front, astutil
from pyvc.frag import ex as X, Stub

MODULE_GLOBAL_OK = ('_raise_error', '_try_', '_parse_function_', 'matcher', '_CHILD_')
RUNTIME_NAMES = {'_ParseFunction', '_wrap_string_literal', '_wrap_byte_literal', '_compile_re', '_IGNORECASE', '_run',
                 'ParsedObject', 'Infix', 'Prefix', 'Postfix', 'ParseError'}


def _uses(kind):
    """an expression that USES the user name `n` in the given way"""
    if kind == 'ref-local':
        r = X.Ref('n'); r.is_local = True
        return r
    if kind == 'inline-python':
        return X.PythonExpression('n')
    if kind == 'repeat-bound':
        return X.List(X.Str('a'), max_len='n')
    if kind == 'where-predicate':
        return X.Where(Stub(1, False, False), X.PythonExpression('lambda v: v == n'))
    raise ValueError(kind)


USE_KINDS = ['ref-local', 'inline-python', 'repeat-bound', 'where-predicate']


def helper_defs(src):
    tree = ast.parse(src)
    return {n.name: n for n in ast.walk(tree) if isinstance(n, ast.FunctionDef) and n.name.startswith('_parse_function_')}, tree


def unexpected_free(fn, ctx):
    """free names of an emitted helper that are not module-level generated names, run-time names or builtins"""
    bad = []
    for nm in sorted(astutil.free_names(fn)):
        if nm.startswith(MODULE_GLOBAL_OK) or nm in RUNTIME_NAMES or nm in astutil.BUILTINS:
            continue
        bad.append(nm)
    return bad


def closure_obligations(rep, tier, prop_units='wiring:closure'):
    """every way a bound name is used x every way the using expression is emitted out of line:
    the helper's free names are its parameters and the call site passes the current values"""
    for use in USE_KINDS:
        for ctx in (False, True):
            # (a) spilled by Expression.compile when the block budget is exhausted
            e = X.Seq(X.Str('a'), _uses(use))
            src = frag.emit_spilled(e, ctx)
            defs, tree = helper_defs(src)
            ok = bool(defs)
            detail = {'src': src}
            for name, fn in defs.items():
                bad = unexpected_free(fn, ctx)
                if bad:
                    ok = False
                    detail['free'] = bad
            rep.add(prop_units, f'spill[{use},ctx={int(ctx)}]: free names of the helper are its parameters', 'case_complete', ok, detail=detail)
            # (b) argumentized by Call
            e = X.Call(_ref('T'), [X.Seq(X.Str('a'), _uses(use))])
            src = frag.emit(e, ctx)
            defs, tree = helper_defs(src)
            ok = bool(defs)
            detail = {'src': src}
            for name, fn in defs.items():
                bad = unexpected_free(fn, ctx)
                if bad:
                    ok = False
                    detail['free'] = bad
            rep.add(prop_units, f'argument[{use},ctx={int(ctx)}]: free names of the helper are its parameters', 'case_complete', ok, detail=detail)


def _ref(name):
    r = X.Ref(name)
    r._resolved = X.implementation_name(name)
    return r


CLASS_SHAPES = [
    ('class Foo { a: X1 }', ['f']),
    ('class Foo { a: X1\n let b: X2\n c: X3 }', ['f', 'l', 'f']),
    ('class Foo { pass X1\n a: X2 }', ['p', 'f']),
    ('class Foo { a: X1; b: X2; requires `a == b` }', ['f', 'f', 'r']),
    ('class Foo(p, q) { a: X1\n let b: X2\n pass X3\n c: X4 }', ['f', 'l', 'p', 'f']),
    ('class Foo { let a: X1 }', ['l']),
    ('class Foo { }', []),
]


def class_compile_obligations(rep, tier, unit='wiring:Class._compile'):
    """Class._compile builds exactly the class body that contracts.bind.ClassSeqC verifies, and the emitted class
    declares the same field list in the same order (C05, C10, C14)."""
    for desc, shape in CLASS_SHAPES:
        for ctx in (False, True):
            for fl in ([(False, True)] if tier == 'quick' else frag.FLAGS):
                rules = front.rules_of(desc)
                cls = rules[0]
                n = len(shape)
                front.substitute_stubs(cls, {f'X{i + 1}': Stub(i + 1, *fl) for i in range(n)})
                members = cls.members
                kinds = []
                for m in members:
                    if m.name and not m.is_omitted:
                        kinds.append('f')
                    elif m.name:
                        kinds.append('l')
                    elif isinstance(m.expr, X.Where) and isinstance(m.expr.expr, X.PythonExpression) and m.expr.expr.source_code == 'None':
                        kinds.append('r')
                    else:
                        kinds.append('p')
                tag = f'[{desc.splitlines()[0][:40]!r},ctx={int(ctx)},flags={frag.FLAG_NAMES[fl]}]'
                rep.add(unit, f'member kinds as declared {tag}', 'case_complete', kinds == shape, detail={'got': kinds, 'want': shape})
                src = frag.emit(cls, ctx)
                tree = ast.parse(src)
                cdef = next(x for x in tree.body if isinstance(x, ast.ClassDef))
                fdef = next(x for x in tree.body if isinstance(x, ast.FunctionDef) and x.name == '_try_Foo')
                want_fields = [m.name for m in members if m.name and not m.is_omitted]
                # _fields, __init__ parameters and stores, __repr__ over the same list
                fields_stmt = next(s for s in cdef.body if isinstance(s, ast.Assign) and s.targets[0].id == '_fields')
                got_fields = list(ast.literal_eval(fields_stmt.value))
                rep.add(unit, f'_fields == named non-omitted members in order {tag}', 'case_complete', got_fields == want_fields,
                        detail={'got': got_fields, 'want': want_fields})
                init = next(s for s in cdef.body if isinstance(s, ast.FunctionDef) and s.name == '__init__')
                ip = astutil.params_of(init)
                stores = [(s.targets[0].attr, s.value.id) for s in init.body if isinstance(s, ast.Assign)
                          and isinstance(s.targets[0], ast.Attribute) and isinstance(s.value, ast.Name)]
                rep.add(unit, f'__init__ takes the fields in order and stores each under its own name {tag}', 'case_complete',
                        ip == ['self'] + want_fields and stores == [(f, f) for f in want_fields]
                        and ast.unparse(init.body[0]) == 'ParsedObject.__init__(self)', detail={'params': ip, 'stores': stores})
                bases = [ast.unparse(b) for b in cdef.bases]
                rep.add(unit, f'class derives directly from ParsedObject {tag}', 'case_complete', bases == ['ParsedObject'])
                rp = next(s for s in cdef.body if isinstance(s, ast.FunctionDef) and s.name == '__repr__')
                want_repr = "f'Foo(" + ', '.join(f'{f}={{self.{f}!r}}' for f in want_fields) + ")'"
                rep.add(unit, f'__repr__ is Name(f1=<repr>, ...) over the field list {tag}', 'case_complete',
                        ast.unparse(rp.body[0].value) == ast.unparse(ast.parse(want_repr).body[0].value),
                        detail={'got': ast.unparse(rp.body[0].value)})
                # implementation body == the verified class-body fragment + final yield of the registers
                exprs = [m.expr for m in members]
                names = [m.name for m in members]
                seq = X.Seq(*exprs, names=names, constructor='Foo', constructor_args=want_fields)
                seq.program_id = cls.extra_id
                want_body = ast.parse(frag.emit(seq, ctx, precompile=False)).body
                got_body = fdef.body
                same = (len(got_body) == len(want_body) + 1
                        and all(ast.dump(a) == ast.dump(b) for a, b in zip(got_body, want_body))
                        and ast.unparse(got_body[-1]) == 'yield (_status, _result, _pos)')
                rep.add(unit, f'_try_Foo body is the class-body Seq fragment followed by `yield (_status, _result, _pos)` {tag}',
                        'case_complete', same, detail={'src': src})
                want_params = (['_ctx'] if ctx else []) + ['_text', '_pos'] + (cls.params or [])
                rep.add(unit, f'_try_Foo signature is ([_ctx,] _text, _pos, *params) {tag}', 'case_complete',
                        astutil.params_of(fdef) == want_params, detail={'got': astutil.params_of(fdef)})


def requests_in(fn):
    """callee texts of the driver requests `yield (CALL, callee, pos)` inside an emitted function"""
    out = []
    for n in ast.walk(fn):
        if isinstance(n, ast.Yield) and isinstance(n.value, ast.Tuple) and len(n.value.elts) == 3 \
                and isinstance(n.value.elts[0], ast.Constant) and n.value.elts[0].value == 3:
            out.append(ast.unparse(n.value.elts[1]))
    return out


SHADOW_CASES = [
    # (description, function to inspect, expected request callees in order [unnamed grammar])
    ('rule parameter shadows a rule', 'X = "x"\nT(X) = X\nstart = T("a")', '_try_T', ['X']),
    ('class parameter shadows a rule', 'X = "x"\nclass C(X) {\n f: X\n}\nstart = C("a")', '_try_C', ['X']),
    ('let shadows a rule', 'X = "x"\nL = let X = "q" in X << X\nstart = L', '_try_L', ['X', 'X']),
    ('reference outside the binder still denotes the rule', 'X = "x"\nT(X) = X\nstart = [T("a"), X]', '_try_start', None),
    ('unshadowed rule reference', 'X = "x"\nT(Y) = [Y, X]\nstart = T("a")', '_try_T', ['Y', '_try_X']),
    ('parameter used after an inner let of another name', 'X = "x"\nT(p) = let q = p in [q, p, X]\nstart = T("a")', '_try_T', ['p', 'q', 'p', '_try_X']),
]


def ref_resolution_obligations(rep, tier, unit='wiring:reference-resolution'):
    """a reference denotes the innermost enclosing binder of that name (parameter / let), otherwise the rule (C05, C06, C20)"""
    from pyvc import runtime
    for title, desc, fname, want in SHADOW_CASES:
        for named in (False, True):
            text = ('grammar shadowtest\n' if named else '') + desc
            try:
                src = runtime.generated_module_source(text)
            except Exception as e:
                rep.add(unit, f'{title} [named={int(named)}]', 'case_complete', False, detail={'error': repr(e)})
                continue
            tree = ast.parse(src)
            fn = next(n for n in tree.body if isinstance(n, ast.FunctionDef) and n.name == fname)
            got = requests_in(fn)
            if want is None:
                # start = [T("a"), X]: second request must be the RULE X
                ok = len(got) == 2 and got[1] == ('_ctx._try_X' if named else '_try_X')
            else:
                exp = [(('_ctx.' + w) if named and w.startswith('_try_') else w) for w in want]
                ok = got == exp
            rep.add(unit, f'{title} [named={int(named)}]', 'case_complete', ok, detail={'requests': got, 'src': ast.unparse(fn)})
