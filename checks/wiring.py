"""Case-complete / ground wiring obligations shared by several properties (DESIGN.md: kind `case_complete`).
Each obligation is decided exactly by running the REAL generator on abstract operands and analysing the text."""
import ast
import itertools

from pyvc import frag, front, astutil
from pyvc.frag import ex as X, Stub

MODULE_GLOBAL_OK = ('_raise_error', '_try_', '_parse_function_', 'matcher', '_CHILD_')
RUNTIME_NAMES = {'_ParseFunction', '_wrap_string_literal', '_wrap_byte_literal', '_compile_re', '_IGNORECASE', '_run',
                 'ParsedObject', 'Infix', 'Prefix', 'Postfix', 'ParseError'}


def _uses(kind):
    """an expression that USES the user name `n` in the given way"""
    if kind == 'ref-local':
        r = X.Ref('n'); r.is_local = True
        return r
    if kind == 'inline-python':
        return X.PythonExpression('n')
    if kind == 'repeat-bound':
        return X.List(X.Str('a'), max_len='n')
    if kind == 'where-predicate':
        return X.Where(Stub(1, False, False), X.PythonExpression('lambda v: v == n'))
    raise ValueError(kind)


USE_KINDS = ['ref-local', 'inline-python', 'repeat-bound', 'where-predicate']


def helper_defs(src):
    tree = ast.parse(src)
    return {n.name: n for n in ast.walk(tree) if isinstance(n, ast.FunctionDef) and n.name.startswith('_parse_function_')}, tree


def unexpected_free(fn, ctx):
    """free names of an emitted helper that are not module-level generated names, run-time names or builtins"""
    bad = []
    for nm in sorted(astutil.free_names(fn)):
        if nm.startswith(MODULE_GLOBAL_OK) or nm in RUNTIME_NAMES or nm in astutil.BUILTINS:
            continue
        bad.append(nm)
    return bad


def closure_obligations(rep, tier, prop_units='wiring:closure'):
    """every way a bound name is used x every way the using expression is emitted out of line:
    the helper's free names are its parameters and the call site passes the current values"""
    for use in USE_KINDS:
        for ctx in (False, True):
            # (a) spilled by Expression.compile when the block budget is exhausted
            e = X.Seq(X.Str('a'), _uses(use))
            src = frag.emit_spilled(e, ctx)
            defs, tree = helper_defs(src)
            ok = bool(defs)
            detail = {'src': src}
            for name, fn in defs.items():
                bad = unexpected_free(fn, ctx)
                if bad:
                    ok = False
                    detail['free'] = bad
            rep.add(prop_units, f'spill[{use},ctx={int(ctx)}]: free names of the helper are its parameters', 'case_complete', ok, detail=detail)
            # (b) argumentized by Call
            e = X.Call(_ref('T'), [X.Seq(X.Str('a'), _uses(use))])
            src = frag.emit(e, ctx)
            defs, tree = helper_defs(src)
            ok = bool(defs)
            detail = {'src': src}
            for name, fn in defs.items():
                bad = unexpected_free(fn, ctx)
                if bad:
                    ok = False
                    detail['free'] = bad
            rep.add(prop_units, f'argument[{use},ctx={int(ctx)}]: free names of the helper are its parameters', 'case_complete', ok, detail=detail)


def _ref(name):
    r = X.Ref(name)
    r._resolved = X.implementation_name(name)
    return r


CLASS_SHAPES = [
    ('class Foo { a: X1 }', ['f']),
    ('class Foo { a: X1\n let b: X2\n c: X3 }', ['f', 'l', 'f']),
    ('class Foo { pass X1\n a: X2 }', ['p', 'f']),
    ('class Foo { a: X1; b: X2; requires `a == b` }', ['f', 'f', 'r']),
    ('class Foo(p, q) { a: X1\n let b: X2\n pass X3\n c: X4 }', ['f', 'l', 'p', 'f']),
    ('class Foo { let a: X1 }', ['l']),
    ('class Foo { }', []),
]


def class_compile_obligations(rep, tier, unit='wiring:Class._compile'):
    """Class._compile builds exactly the class body that contracts.bind.ClassSeqC verifies, and the emitted class
    declares the same field list in the same order (C05, C10, C14)."""
    for desc, shape in CLASS_SHAPES:
        for ctx in (False, True):
            for fl in ([(False, True)] if tier == 'quick' else frag.FLAGS):
                rules = front.rules_of(desc)
                cls = rules[0]
                n = len(shape)
                front.substitute_stubs(cls, {f'X{i + 1}': Stub(i + 1, *fl) for i in range(n)})
                members = cls.members
                kinds = []
                for m in members:
                    if m.name and not m.is_omitted:
                        kinds.append('f')
                    elif m.name:
                        kinds.append('l')
                    elif isinstance(m.expr, X.Where) and isinstance(m.expr.expr, X.PythonExpression) and m.expr.expr.source_code == 'None':
                        kinds.append('r')
                    else:
                        kinds.append('p')
                tag = f'[{desc.splitlines()[0][:40]!r},ctx={int(ctx)},flags={frag.FLAG_NAMES[fl]}]'
                rep.add(unit, f'member kinds as declared {tag}', 'case_complete', kinds == shape, detail={'got': kinds, 'want': shape})
                src = frag.emit(cls, ctx)
                tree = ast.parse(src)
                cdef = next(x for x in tree.body if isinstance(x, ast.ClassDef))
                fdef = next(x for x in tree.body if isinstance(x, ast.FunctionDef) and x.name == '_try_Foo')
                want_fields = [m.name for m in members if m.name and not m.is_omitted]
                # _fields, __init__ parameters and stores, __repr__ over the same list
                fields_stmt = next(s for s in cdef.body if isinstance(s, ast.Assign) and s.targets[0].id == '_fields')
                got_fields = list(ast.literal_eval(fields_stmt.value))
                rep.add(unit, f'_fields == named non-omitted members in order {tag}', 'case_complete', got_fields == want_fields,
                        detail={'got': got_fields, 'want': want_fields})
                init = next(s for s in cdef.body if isinstance(s, ast.FunctionDef) and s.name == '__init__')
                ip = astutil.params_of(init)
                stores = [(s.targets[0].attr, s.value.id) for s in init.body if isinstance(s, ast.Assign)
                          and isinstance(s.targets[0], ast.Attribute) and isinstance(s.value, ast.Name)]
                rep.add(unit, f'__init__ takes the fields in order and stores each under its own name {tag}', 'case_complete',
                        ip == ['self'] + want_fields and stores == [(f, f) for f in want_fields]
                        and ast.unparse(init.body[0]) == 'ParsedObject.__init__(self)', detail={'params': ip, 'stores': stores})
                bases = [ast.unparse(b) for b in cdef.bases]
                rep.add(unit, f'class derives directly from ParsedObject {tag}', 'case_complete', bases == ['ParsedObject'])
                rp = next(s for s in cdef.body if isinstance(s, ast.FunctionDef) and s.name == '__repr__')
                want_repr = "f'Foo(" + ', '.join(f'{f}={{self.{f}!r}}' for f in want_fields) + ")'"
                rep.add(unit, f'__repr__ is Name(f1=<repr>, ...) over the field list {tag}', 'case_complete',
                        ast.unparse(rp.body[0].value) == ast.unparse(ast.parse(want_repr).body[0].value),
                        detail={'got': ast.unparse(rp.body[0].value)})
                # implementation body == the verified class-body fragment + final yield of the registers
                exprs = [m.expr for m in members]
                names = [m.name for m in members]
                seq = X.Seq(*exprs, names=names, constructor='Foo', constructor_args=want_fields)
                seq.program_id = cls.extra_id
                want_body = ast.parse(frag.emit(seq, ctx, precompile=False)).body
                got_body = fdef.body
                same = (len(got_body) == len(want_body) + 1
                        and all(ast.dump(a) == ast.dump(b) for a, b in zip(got_body, want_body))
                        and ast.unparse(got_body[-1]) == 'yield (_status, _result, _pos)')
                rep.add(unit, f'_try_Foo body is the class-body Seq fragment followed by `yield (_status, _result, _pos)` {tag}',
                        'case_complete', same, detail={'src': src})
                want_params = (['_ctx'] if ctx else []) + ['_text', '_pos'] + (cls.params or [])
                rep.add(unit, f'_try_Foo signature is ([_ctx,] _text, _pos, *params) {tag}', 'case_complete',
                        astutil.params_of(fdef) == want_params, detail={'got': astutil.params_of(fdef)})


def requests_in(fn):
    """callee texts of the driver requests `yield (CALL, callee, pos)` inside an emitted function"""
    out = []
    for n in ast.walk(fn):
        if isinstance(n, ast.Yield) and isinstance(n.value, ast.Tuple) and len(n.value.elts) >= 3 \
                and isinstance(n.value.elts[0], ast.Constant) and n.value.elts[0].value == 3:
            # a request with MORE than three components is still a request (its shape is an obligation of its own: memo_key_obligations)
            out.append(((n.lineno, n.col_offset), ast.unparse(n.value.elts[1])))
    return [t for _, t in sorted(out)]          # in source order


def request_arities(fn):
    return sorted({len(n.value.elts) for n in ast.walk(fn) if isinstance(n, ast.Yield) and isinstance(n.value, ast.Tuple) and n.value.elts
                   and isinstance(n.value.elts[0], ast.Constant) and n.value.elts[0].value == 3})


SHADOW_CASES = [
    # (description, function to inspect, expected request callees in order [unnamed grammar])
    ('rule parameter shadows a rule', 'X = "x"\nT(X) = X\nstart = T("a")', '_try_T', ['X']),
    ('class parameter shadows a rule', 'X = "x"\nclass C(X) {\n f: X\n}\nstart = C("a")', '_try_C', ['X']),
    ('let shadows a rule', 'X = "x"\nL = let X = "q" in X << X\nstart = L', '_try_L', ['X', 'X']),
    ('reference outside the binder still denotes the rule', 'X = "x"\nT(X) = X\nstart = [T("a"), X]', '_try_start', None),
    ('unshadowed rule reference', 'X = "x"\nT(Y) = [Y, X]\nstart = T("a")', '_try_T', ['Y', '_try_X']),
    ('parameter used after an inner let of another name', 'X = "x"\nT(p) = let q = p in [q, p, X]\nstart = T("a")', '_try_T', ['p', 'q', 'p', '_try_X']),
    ('the same parameter name in a LATER template is bound again (scope bookkeeping returns to zero)', 'T(p) = p\nU(p) = [p, p]\nstart = T("a") | U("b")', '_try_U', ['p', 'p']),
    ('the same let name in a later rule is bound again', 'A = let v = "a" in v\nB = let v = "b" in [v, v]\nstart = A | B', '_try_B', ['v', 'v']),
    ('the same class parameter name in a later class is bound again', 'class C(p) {\n f: p\n}\nclass D(p) {\n g: p\n h: p\n}\nstart = C("a") | D("b")', '_try_D', ['p', 'p']),
    ('a name bound twice in a row inside one rule', 'X = "x"\nR = [(let X = "q" in X), (let X = "r" in X), X]\nstart = R', '_try_R', ['X', 'X', '_try_X']),
    ('a let inside a keyword argument ends with the argument', 'X = "x"\nT(k) = k\nR = [T(k=(let X = "q" in X)), X]\nstart = R', '_try_R', None),
    ('a let inside a positional argument ends with the argument', 'X = "x"\nT(k) = k\nR = [T((let X = "q" in X)), X]\nstart = R', '_try_R', None),
    ('a let inside a list ends with the list', 'X = "x"\nR = [(let X = "q" in X)*, X]\nstart = R', '_try_R', 'last-is-rule'),
]


def ref_resolution_obligations(rep, tier, unit='wiring:reference-resolution'):
    """a reference denotes the innermost enclosing binder of that name (parameter / let), otherwise the rule (C05, C06, C20)"""
    from pyvc import runtime
    for title, desc, fname, want in SHADOW_CASES:
        for named in (False, True):
            text = ('grammar shadowtest\n' if named else '') + desc
            try:
                src = runtime.generated_module_source(text)
            except Exception as e:
                rep.add(unit, f'{title} [named={int(named)}]', 'case_complete', False, detail={'error': repr(e)})
                continue
            tree = ast.parse(src)
            fn = next(n for n in tree.body if isinstance(n, ast.FunctionDef) and n.name == fname)
            got = requests_in(fn)
            if want is None or want == 'last-is-rule':
                # start = [T("a"), X]: the LAST request of the function must be the RULE X
                ok = len(got) >= 2 and got[-1] == ('_ctx._try_X' if named else '_try_X')
            else:
                exp = [(('_ctx.' + w) if named and w.startswith('_try_') else w) for w in want]
                ok = got == exp
            rep.add(unit, f'{title} [named={int(named)}]', 'case_complete', ok, detail={'requests': got, 'src': ast.unparse(fn)})


WIRING_GRAMMARS = {
    'plain': 'start = [A, "x"] | [A, "y"] | [Expect(A), A*]\nA = /a+/ >> B?\nB = "b" | C\nC = "c"',
    'ignore': 'ignore Space = /[ \\t]+/\nignore /#[^\\n]*/\nstart = Word+ << Opt(".")\nWord = /[a-z]+/\nclass Pair {\n k: Word\n v: "=" >> Word\n}',
    'template': 'T(x) = [x, x?]\nstart = T(A) | T("a") | T(A >> A)\nA = "a"',
    'named': 'grammar wiringtest\nstart = A | B\nA = "a" >> B\nB = "b"\nclass K {\n a: A\n}',
    'named-ignore': 'grammar wiringtest2\nignore Sp = " "\nstart = A+\nA = "a"',
}


def _module_tree(desc):
    from pyvc import runtime
    src = runtime.generated_module_source(desc)
    return src, ast.parse(src)


def no_direct_rule_calls(rep, tier, unit='wiring:every-rule-invocation-is-a-driver-request'):
    """emitted code never CALLS a _try_* implementation (or a rule parameter) directly: every rule invocation is a
    `yield (CALL, f, pos)` so that it goes through the memo of _run (C07, C17)"""
    for name, desc in WIRING_GRAMMARS.items():
        src, tree = _module_tree(desc)
        bad = []
        for n in ast.walk(tree):
            if isinstance(n, ast.Call):
                f = ast.unparse(n.func)
                if f.split('.')[-1].startswith('_try_'):
                    bad.append(ast.unparse(n)[:80])
        rep.add(unit, f'no direct call of a rule implementation [{name}]', 'syntactic', not bad, detail={'calls': bad})
        # _try_* may only be mentioned inside requests, _ParseFunction(...) arguments, _run(...) start argument and the _ctx epilogue
        ok_ctx = True
        for n in ast.walk(tree):
            if isinstance(n, ast.Name) and n.id.startswith('_try_') and isinstance(n.ctx, ast.Load):
                pass
        rep.add(unit, f'requests have the form (CALL, callee, position) [{name}]', 'syntactic',
                all(isinstance(y.value, ast.Tuple) and len(y.value.elts) == 3 for f in tree.body if isinstance(f, ast.FunctionDef)
                    and f.name.startswith('_try_') for y in ast.walk(f) if isinstance(y, ast.Yield)))


def ignored_rule_is_memoised(rep, tier, unit='wiring:ignored-rules-are-referenced-not-inlined'):
    """the synthetic _ignored rule refers to the ignored rules BY REFERENCE (requests), so that their bodies are
    memoised like any other rule (C07) and are exactly the declared rules (C04)"""
    for name in ('ignore', 'named-ignore'):
        src, tree = _module_tree(WIRING_GRAMMARS[name])
        fn = next((n for n in tree.body if isinstance(n, ast.FunctionDef) and n.name == '_try__ignored'), None)
        if fn is None:
            rep.add(unit, f'_try__ignored exists [{name}]', 'schematic', False)
            continue
        reqs = requests_in(fn)
        # body consists of requests only: no literal matching inlined
        inl = [ast.unparse(n)[:60] for n in ast.walk(fn) if isinstance(n, ast.Call) and ast.unparse(n.func).startswith(('matcher', '_compile_re'))]
        inl += [ast.unparse(n)[:60] for n in ast.walk(fn) if isinstance(n, ast.Subscript) and ast.unparse(n.value) == '_text']
        nign = WIRING_GRAMMARS[name].count('ignore ')
        rep.add(unit, f'_ignored requests each ignored rule once and matches nothing inline [{name}]', 'schematic',
                len(reqs) == nign and not inl, detail={'requests': reqs, 'inline': inl})


def memo_key_obligations(rep, tier, unit='wiring:memo-key'):
    """the request a reference emits is keyed by the SAME function object for every reference to one parameterless rule:
    a bare name in unnamed grammars, an attribute of the one run-time context in named grammars; a rule passed as an
    argument is passed as that same object (not wrapped), so direct and indirect references share one memo entry"""
    for ctx in (False, True):
        r = X.Ref('A'); r._resolved = X.implementation_name('A')
        direct = ast.parse(frag.emit(r, ctx))
        rep.add(unit, f'a rule reference requests exactly (CALL, callee, position): _run memoises on the whole request tuple [ctx={int(ctx)}]', 'case_complete',
                request_arities(direct) == [3], detail={'arities': request_arities(direct), 'src': ast.unparse(direct)})
        reqs_ = requests_in(direct)
        if not reqs_:
            rep.add(unit, f'a rule reference emits a request [ctx={int(ctx)}]', 'case_complete', False, detail={'src': ast.unparse(direct)})
            continue
        callee = reqs_[0]
        r2 = X.Ref('A'); r2._resolved = X.implementation_name('A')
        call = X.Call(_ref('T'), [r2])
        src = frag.emit(call, ctx)
        tree = ast.parse(src)
        pf = [n for n in ast.walk(tree) if isinstance(n, ast.Call) and ast.unparse(n.func) == '_ParseFunction']
        arg0 = ast.unparse(pf[-1].args[1].elts[0]) if pf and isinstance(pf[-1].args[1], ast.Tuple) and pf[-1].args[1].elts else None
        rep.add(unit, f'rule passed as argument is the same key object as a direct reference [ctx={int(ctx)}]', 'case_complete',
                arg0 is not None and arg0.split('.')[-1] == callee.split('.')[-1] and not arg0.startswith('_ParseFunction'),
                detail={'direct': callee, 'argument': arg0, 'src': src})


ENTRY_GRAMMARS = {
    'unnamed': 'start = A | B\nA(x) = x\nB = "b"\nclass K {\n a: B\n}\nclass P(q) {\n a: q\n}',
    'named': 'grammar entrytest\nstart = A | B\nA(x) = x\nB = "b"\nclass K {\n a: B\n}\nclass P(q) {\n a: q\n}',
    'no-start': 'First = "a" | Second\nSecond = "b"',
    'class-start': 'class Start {\n a: "a"\n}\nB = "b"',
}


def _is_run_call(node, ctx, impl, via_closure=False):
    """node is `_run([_ctx,] text, pos, <impl>, fullparse)`"""
    if not (isinstance(node, ast.Call) and ast.unparse(node.func) == '_run' and not node.keywords):
        return False
    args = [ast.unparse(a) for a in node.args]
    want = (['_ctx'] if ctx else []) + ['text', 'pos', impl, 'fullparse']
    return args == want


def entry_point_obligations(rep, tier, unit='wiring:entry-points'):
    """every public entry point - module parse, R.parse for each rule, C.parse for each class - is
    _run([_ctx,] text, pos, <implementation of that rule>, fullparse) with defaults pos=0, fullparse=True (C08),
    and exposes no _ctx parameter (C11)"""
    for gname, desc in ENTRY_GRAMMARS.items():
        named = gname == 'named'
        src, tree = _module_tree(desc)
        fns = {n.name: n for n in tree.body if isinstance(n, ast.FunctionDef)}
        classes = {n.name: n for n in tree.body if isinstance(n, ast.ClassDef)}

        def sig_ok(fn):
            a = fn.args
            return [x.arg for x in a.args] == ['text', 'pos', 'fullparse'] and [ast.unparse(d) for d in a.defaults] == ['0', 'True']

        def body_ok(fn, impl):
            stmts = [s for s in fn.body if not (isinstance(s, ast.Expr) and isinstance(s.value, ast.Constant))]
            return len(stmts) == 1 and isinstance(stmts[0], ast.Return) and _is_run_call(stmts[0].value, named, impl)

        start_impl = {'unnamed': '_try_start', 'named': '_try_start', 'no-start': '_try_First', 'class-start': '_try_Start'}[gname]
        rep.add(unit, f'module parse(text, pos=0, fullparse=True) runs the start rule [{gname}]', 'schematic',
                'parse' in fns and sig_ok(fns['parse']) and body_ok(fns['parse'], start_impl),
                detail={'src': ast.unparse(fns.get('parse')) if 'parse' in fns else None})
        for rname in [n[len('_parse_'):] for n in fns if n.startswith('_parse_') and not n.startswith('_parse_function')]:
            fn = fns['_parse_' + rname]
            rep.add(unit, f'{rname}.parse runs the implementation of {rname} [{gname}]', 'schematic',
                    sig_ok(fn) and body_ok(fn, '_try_' + rname), detail={'src': ast.unparse(fn)})
            # the public object is ParsingRule(name, _parse_<name>, definition)
            binds = [s for s in tree.body if isinstance(s, ast.Assign) and ast.unparse(s.targets[0]) == rname]
            ok = len(binds) == 1 and isinstance(binds[0].value, ast.Call) and ast.unparse(binds[0].value.func) == 'ParsingRule' \
                and ast.unparse(binds[0].value.args[1]) == '_parse_' + rname
            rep.add(unit, f'{rname} = ParsingRule(.., _parse_{rname}, ..) [{gname}]', 'schematic', ok)
        for cname, cdef in classes.items():
            # the classes of the grammar are the emitted subclasses of ParsedObject; everything else is the run-time library
            # (told apart by what they are, not by a list of names: a new support class is not a grammar class)
            if cname in ('ParsedObject', 'Infix', 'Prefix', 'Postfix') or not any(ast.unparse(b) == 'ParsedObject' for b in cdef.bases):
                continue
            p = next((m for m in cdef.body if isinstance(m, ast.FunctionDef) and m.name == 'parse'), None)
            static = p is not None and any(ast.unparse(d) == 'staticmethod' for d in p.decorator_list)
            impl = ('_ctx.' if named else '') + '_try_' + cname
            if p is not None and [x.arg for x in p.args.args] == ['text', 'pos', 'fullparse']:
                rep.add(unit, f'class {cname}.parse runs the implementation of {cname} [{gname}]', 'schematic',
                        static and sig_ok(p) and body_ok(p, impl), detail={'src': ast.unparse(p)})
            elif p is not None:
                # parameterised class: parse(*params) returns a callable (text, pos=0, fullparse=True)
                lam = next((n for n in ast.walk(p) if isinstance(n, ast.Lambda)), None)
                lam_params = [x.arg for x in lam.args.args] if lam else None
                clo = next((s_ for s_ in p.body if isinstance(s_, ast.Assign) and ast.unparse(s_.targets[0]) == '_closure'), None)
                cparams = [x.arg for x in p.args.args]
                cok = clo is not None and isinstance(clo.value, ast.Call) and ast.unparse(clo.value.func) == '_ParseFunction' \
                    and len(clo.value.args) == 3 and ast.unparse(clo.value.args[0]) == impl \
                    and isinstance(clo.value.args[1], ast.Tuple) and [ast.unparse(x) for x in clo.value.args[1].elts] == cparams \
                    and ast.unparse(clo.value.args[2]) == '()'
                rep.add(unit, f'parameterised class {cname}.parse(args): start request is the hashable _ParseFunction(impl, (args..), ()) [{gname}]',
                        'schematic', cok, detail={'src': ast.unparse(p)})
                rep.add(unit, f'parameterised class {cname}.parse(args) returns a callable (text, pos=0, fullparse=True) without _ctx [{gname}]',
                        'schematic', static and lam_params == ['text', 'pos', 'fullparse'] and
                        _is_run_call(lam.body, named, '_closure'), detail={'src': ast.unparse(p)})
            else:
                rep.add(unit, f'class {cname} has a parse entry point [{gname}]', 'schematic', False)


def operator_node_classes(rep, tier, unit='wiring:Infix/Prefix/Postfix'):
    """the three operator node classes of the run-time: _fields, __init__ parameters / stores and __repr__ agree (C14, C02)"""
    from pyvc import runtime
    src, tree, defs = runtime.runtime(False)
    want = {'Infix': ['left', 'operator', 'right'], 'Prefix': ['operator', 'right'], 'Postfix': ['left', 'operator']}
    for cname, fields in want.items():
        cdef = defs.get(cname)
        ok = cdef is not None and [ast.unparse(b) for b in cdef.bases] == ['ParsedObject']
        fs = next((s for s in cdef.body if isinstance(s, ast.Assign) and ast.unparse(s.targets[0]) == '_fields'), None) if cdef else None
        ok = ok and fs is not None and list(ast.literal_eval(fs.value)) == fields
        init = defs.get(f'{cname}.__init__')
        ok = ok and init is not None and astutil.params_of(init) == ['self'] + fields
        if init is not None:
            stores = [(s.targets[0].attr, s.value.id) for s in init.body if isinstance(s, ast.Assign) and isinstance(s.targets[0], ast.Attribute) and isinstance(s.value, ast.Name)]
            ok = ok and stores == [(f, f) for f in fields] and ast.unparse(init.body[0]) == 'ParsedObject.__init__(self)'
        rp = defs.get(f'{cname}.__repr__')
        want_repr = "f'" + cname + "(" + ', '.join('{self.%s!r}' % f for f in fields) + ")'"
        ok = ok and rp is not None and ast.unparse(rp.body[0].value) == ast.unparse(ast.parse(want_repr).body[0].value)
        rep.add(unit, f'{cname}: _fields = {fields}, __init__ stores them in order, __repr__ rebuilds the constructor call', 'syntactic', bool(ok))


def span_recording_obligations(rep, tier, unit='wiring:span-recording'):
    """every class implementation records its span, whatever its members are (also field-less classes, classes whose members
    are all omitted, parameterised classes)"""
    descs = {
        'plain': 'class A {\n x: "a"\n}',
        'all-omitted': 'class A {\n pass "break"\n let k: "skip"\n}',
        'empty': 'class A {\n}',
        'params': 'class A(p) {\n x: p\n}\nstart = A("q")',
        'named': 'grammar spanwiring\nclass A {\n x: "a"\n pass "b"\n}',
    }
    for name, desc in descs.items():
        src, tree = _module_tree(desc)
        fn = next(n for n in tree.body if isinstance(n, ast.FunctionDef) and n.name == '_try_A')
        stores = [ast.unparse(n) for n in ast.walk(fn) if isinstance(n, ast.Assign) and ast.unparse(n.targets[0]) == '_result._metadata.position_info']
        first = fn.body[0]
        start_saved = isinstance(first, ast.Assign) and ast.unparse(first.value) == '_pos'
        ok = len(stores) == 1 and start_saved and stores[0].endswith(f'({ast.unparse(first.targets[0])}, _pos)')
        rep.add(unit, f'_try_A saves the entry position first and stores (entry, _pos) into the new instance [{name}]', 'schematic', ok,
                detail={'src': ast.unparse(fn)})


# ---------------------------------------------------------------------------------------------- C04 ignore wiring
def _all_expression_builders():
    """one instance of every expression class with a DISTINGUISHABLE real literal in every child slot"""
    n = [0]

    def lit():
        n[0] += 1
        return X.Str(f'lit{n[0]}')

    def row(assoc, ops):
        return type('Row', (), {'associativity': assoc, 'operators': ops})()
    out = {
        'Apply': lambda: X.Apply(lit(), lit()),
        'Choice': lambda: X.Choice(lit(), lit(), lit()),
        'Discard': lambda: X.Discard(lit(), lit()),
        'Expect': lambda: X.Expect(lit()),
        'ExpectNot': lambda: X.ExpectNot(lit()),
        'Let': lambda: X.Let('x', lit(), lit()),
        'List': lambda: X.List(lit(), min_len=1, max_len=3),
        'Longest': lambda: X.Longest(lit(), lit()),
        'Opt': lambda: X.Opt(lit()),
        'Sep': lambda: X.Sep(lit(), lit()),
        'Seq': lambda: X.Seq(lit(), lit()),
        'Skip': lambda: X.Skip(lit(), lit()),
        'Where': lambda: X.Where(lit(), lit()),
        'Rule': lambda: X.Rule('R', None, lit()),
        'Class': lambda: X.Class('C', None, [X.Rule('a', None, lit()), X.Rule(None, None, lit(), is_omitted=True)]),
        'Call(positional)': lambda: X.Call(_ref('T'), [lit(), X.Seq(lit(), lit())]),
        'Call(keyword)': lambda: X.Call(_ref('T'), [X.KeywordArg('k', lit()), X.KeywordArg('j', X.Opt(lit()))]),
        'OperatorTable': lambda: X.OperatorTable.create(lit(), [row('prefix', [lit()]), row('left', [lit(), lit()]), row('postfix', [lit()]),
                                                             row('mixfix', [lit()]), row('right', [lit()]), row('infix', [lit()])]),
        'nested': lambda: X.Seq(X.Opt(X.Choice(lit(), X.List(X.Discard(lit(), lit())))), X.Expect(X.Where(lit(), X.PythonExpression('f')))),
    }
    return out, n


def visit_reaches_every_child(rep, tier, unit='wiring:visit-reaches-every-child'):
    """expressions.visit reaches every sub-expression of every expression class, so that the passes built on it (_set_skip_ignored,
    _assign_ids, precompile, error messages) touch every literal anywhere in a grammar (C04, C06)"""
    builders, counter = _all_expression_builders()
    for name, mk in builders.items():
        before = counter[0]
        node = mk()
        made = {f'lit{i}' for i in range(before + 1, counter[0] + 1)}
        seen = []
        X.visit(node, lambda e: seen.append(e.value) if isinstance(e, X.Str) else None)
        missing = sorted(made - set(seen))
        rep.add(unit, f'{name}: every literal child is visited', 'case_complete', not missing, detail={'missing': missing, 'made': sorted(made)})
        # the passes that track scopes (SymbolCounter: references, free variables of helpers) rely on pre- and post-visitor being called
        # as a well-nested traversal: every node entered is left, in stack order, and nothing is left that was not entered
        ev, stack, ok_nest = [], [], True
        X.visit(node, lambda e: ev.append(('pre', id(e))), lambda e: ev.append(('post', id(e))))
        for kind_, ident in ev:
            if kind_ == 'pre':
                stack.append(ident)
            elif not stack or stack.pop() != ident:
                ok_nest = False
        npre = sum(1 for k_, _ in ev if k_ == 'pre')
        rep.add(unit, f'{name}: pre- and post-visitor calls are well nested (every node entered is left, in stack order)', 'case_complete',
                ok_nest and not stack and npre > 0 and 2 * npre == len(ev), detail={'pre': npre, 'events': len(ev), 'unclosed': len(stack)})
    # every Expression subclass exported by the package is covered by the table above (a new class must be added here)
    classes = sorted(k for k, v in vars(X).items() if isinstance(v, type) and issubclass(v, frag.Expression) and v is not frag.Expression)
    covered = {'Apply', 'Backtrack', 'Byte', 'Call', 'Choice', 'Class', 'Discard', 'Expect', 'ExpectNot', 'Fail', 'Let', 'List', 'Longest',
               'OperatorTable', 'Opt', 'PythonExpression', 'Ref', 'Regex', 'Rule', 'Sep', 'Seq', 'Skip', 'Str', 'Where'}
    rep.add(unit, 'the class table is complete (every exported Expression subclass is a leaf or has an entry)', 'case_complete',
            set(classes) <= covered, detail={'uncovered': sorted(set(classes) - covered)})


IGNORE_SHAPES = {
    'named,before,plain-start': 'ignore Space = /[ ]+/\nstart = [Word, "=", Num]\nWord = /[a-z]+/\nNum = /[0-9]+/ | 0x41',
    'anonymous,after,plain-start': 'start = [Word, "=", Num]\nWord = /[a-z]+/\nNum = /[0-9]+/\nignore /[ ]+/',
    'two,mixed,plain-start': 'ignore Space = /[ ]+/\nstart = Word+ << "."\nWord = /[a-z]+/i\nignore Comment = /#[^\\n]*/',
    'named,class-start': 'ignore Space = " "\nclass Start {\n a: "a"\n b: Word\n}\nWord = /[a-z]+/',
    'named,class-start,pass-first': 'ignore Space = " "\nclass Start {\n pass "["\n items: Word*\n pass "]"\n}\nWord = /[a-z]+/',
    'named,class-start,let-first': 'ignore Space = " "\nclass Start {\n let n: /[0-9]/\n items: Word*\n}\nWord = /[a-z]+/',
    'named,header': 'grammar ignwiring\nignore Space = /[ ]+/\nstart = [Word, Opt("!")]\nWord = /[a-z]+/\nT(x) = x << "."\nU = T("u") | T(k="v")',
    'named,no-start': 'ignore Space = /[ ]+/\nFirst = [Word, "!"]\nWord = /[a-z]+/',
    'named,after,no-start': 'First = [Word, "!"]\nWord = /[a-z]+/\nignore Space = /[ ]+/',
    'anonymous,before,no-start': 'ignore /[ ]+/\nFirst = Word+\nWord = /[a-z]+/',
    'bytes': 'ignore Pad = 0x00\nstart = [0x41, b"BC", b/[D-F]+/]',
}


def _literal_success_branches(fn):
    """If-statements of an emitted function that test a literal match (string slice compare, regex match object, byte test)"""
    out = []
    for n in ast.walk(fn):
        if isinstance(n, ast.If):
            t = ast.unparse(n.test)
            if ('_text' in t and ('==' in t or 'startswith' in t)) or t.startswith('match'):
                out.append(n)
    return out


def ignore_wiring_obligations(rep, tier, unit='wiring:ignore'):
    for shape, desc in IGNORE_SHAPES.items():
        named = 'grammar ' in desc
        src, tree = _module_tree(desc)
        fns = {n.name: n for n in tree.body if isinstance(n, ast.FunctionDef)}
        ign = ('_ctx.' if named else '') + '_try__ignored'
        # 1. the _ignored rule: Skip over exactly the ignored rules, in declaration order, by reference
        rules = front.rules_of(desc.split('\n', 1)[1] if named else desc)
        declared = [r for r in rules if getattr(r, 'is_ignored', False)]
        f = fns.get('_try__ignored')
        reqs = requests_in(f) if f is not None else None
        ok = f is not None and len(reqs) == len(declared)
        if ok:
            for r, d in zip(reqs, declared):
                nm = r.split('.')[-1]
                ok = ok and (nm == f'_try_{d.name}' if d.name and not d.name.startswith('_anonymous') else nm.startswith('_try__anonymous_'))
        rep.add(unit, f'_ignored requests exactly the declared ignore rules, in order [{shape}]', 'schematic', ok, detail={'requests': reqs})
        # 2. leading skip: the entry implementation's first action is the request for _ignored at the entry position
        if 'class-start' in shape:
            entry = '_try_Start'
        elif 'no-start' in shape:
            entry = '_try_First'
        else:
            entry = '_try_start'
        fn = fns[entry]
        first_req = None
        pos_assigned_before = False
        body = fn.body
        while body:
            s0 = body[0]
            ys = [y for y in ast.walk(s0) if isinstance(y, ast.Yield)]
            if isinstance(s0, (ast.While, ast.If)) and ys:
                body = s0.body            # descend: the first statement executed inside the block
                continue
            if ys:
                first_req = ys[0]
                break
            if any(isinstance(n, ast.Name) and n.id == '_pos' and isinstance(n.ctx, ast.Store) for n in ast.walk(s0)):
                pos_assigned_before = True
            body = body[1:]
        ok = first_req is not None and isinstance(first_req.value, ast.Tuple) and ast.unparse(first_req.value.elts[1]) == ign \
            and ast.unparse(first_req.value.elts[2]) == '_pos' and not pos_assigned_before
        rep.add(unit, f'parse skips ignored text before the first expression of the rule it starts with [{shape}]', 'schematic', ok,
                detail={'first_request': ast.unparse(first_req) if first_req is not None else None})
        # 3. every literal of every rule skips after a successful match - and nothing else requests _ignored
        nlit = nreq = 0
        bad = []
        for name, fn in fns.items():
            if not (name.startswith('_try_') or name.startswith('_parse_function_')) or name == '_try__ignored':
                continue
            branches = _literal_success_branches(fn)
            inside = set()
            for b in branches:
                nlit += 1
                # the success branch is the one that sets the status to True, whichever way round the test is written
                succ = next((br for br in (b.body, b.orelse) if any(isinstance(s_, ast.Assign) and ast.unparse(s_) == '_status = True' for s_ in br)), b.body)
                ys = [y for s_ in succ for y in ast.walk(s_) if isinstance(y, ast.Yield) and isinstance(y.value, ast.Tuple)
                      and ast.unparse(y.value.elts[1]) == ign]
                if len(ys) != 1:
                    bad.append((name, ast.unparse(b.test)[:50]))
                inside.update(id(y) for y in ys)
            for y in ast.walk(fn):
                if isinstance(y, ast.Yield) and isinstance(y.value, ast.Tuple) and ast.unparse(y.value.elts[1]) == ign:
                    nreq += 1
                    if id(y) not in inside and not (name == entry and y is first_req):
                        bad.append((name, 'request for _ignored outside a literal: ' + ast.unparse(y)[:60]))
        rep.add(unit, f'every literal skips ignored text exactly once after a successful match, and nothing else does [{shape}]', 'schematic',
                not bad and nlit > 0, detail={'literals': nlit, 'requests': nreq, 'problems': bad[:5]})


def _walk_in_order(node):
    yield node
    for c in ast.iter_child_nodes(node):
        yield from _walk_in_order(c)


# ---------------------------------------------------------------------------------------------- C06 argument adaptor
def argument_adaptor_obligations(rep, tier, unit='wiring:argument-adaptor'):
    """invoking an argument value as ([ctx,] text, q) runs the helper's body - the fragment of the argument expression - with
    _text=text, _pos=q, _ctx=ctx and every captured name bound to its call-site value: parameter list of the emitted def and
    the captured tuple agree in arity and order, the body is the inline fragment followed by the final yield"""
    from contracts.call import build_arg, ARG_KINDS
    for kind in ARG_KINDS:
        if kind in ('rule-ref', 'local-ref', 'inline-python'):
            continue
        for ctx in (False, True):
            for as_kw in (False, True):
                arg = build_arg(kind)
                call = X.Call(_ref('T'), [X.KeywordArg('k', arg) if as_kw else arg])
                src = frag.emit(call, ctx)
                tree = ast.parse(src)
                defs = [n for n in tree.body if isinstance(n, ast.FunctionDef)]
                tag = f'[{kind},ctx={int(ctx)},keyword={int(as_kw)}]'
                if len(defs) != 1:
                    rep.add(unit, f'one helper is emitted {tag}', 'case_complete', False, detail={'src': src})
                    continue
                fn = defs[0]
                lead = (['_ctx'] if ctx else []) + ['_text', '_pos']
                params = astutil.params_of(fn)
                captured = params[len(lead):]
                # where the helper is used: bare, or _ParseFunction(helper, (captured...), ())
                uses = [n for n in ast.walk(tree) if isinstance(n, ast.Call) and ast.unparse(n.func) == '_ParseFunction'
                        and n.args and ast.unparse(n.args[0]) == fn.name]
                if captured:
                    ok = params[:len(lead)] == lead and len(uses) == 1 and isinstance(uses[0].args[1], ast.Tuple) \
                        and [ast.unparse(x) for x in uses[0].args[1].elts] == captured and ast.unparse(uses[0].args[2]) == '()'
                else:
                    ok = params == lead and not uses
                rep.add(unit, f'helper parameters = ([_ctx,] _text, _pos, captured names) and the captured tuple passes exactly those names in order {tag}',
                        'case_complete', ok, detail={'params': params, 'src': src})
                free = unexpected_free(fn, ctx)
                rep.add(unit, f'helper has no free name besides its parameters {tag}', 'case_complete', not free, detail={'free': free})
                want = ast.parse(frag.emit(build_arg(kind), ctx, precompile=False)).body
                same = len(fn.body) == len(want) + 1 and all(_same_modulo_ids(a, b) for a, b in zip(fn.body, want)) \
                    and ast.unparse(fn.body[-1]) == 'yield (_status, _result, _pos)'
                rep.add(unit, f'helper body = the inline fragment of the argument + `yield (_status, _result, _pos)` {tag}', 'case_complete', same,
                        detail={'src': src})


def _same_modulo_ids(a, b):
    """AST equality modulo the numeric suffix of _raise_errorN / _parse_function_N (program ids differ between two emissions)"""
    import re
    norm = lambda t: re.sub(r'(_raise_error|_parse_function_)\d+', r'\1N', ast.dump(t))
    return norm(a) == norm(b)


def callable_wrapper_obligations(rep, tier, unit='ground:argument-wrappers'):
    """_ParseFunction / _StringLiteral / _ByteLiteral executed on distinct sentinel objects (the functions do not inspect
    their arguments, so one execution with fresh sentinels decides the data flow)"""
    from pyvc.rtver import native_namespace
    for ctx in (False, True):
        try:
            _wrapper_cases(rep, unit, ctx)
        except Exception as e:
            rep.add(unit, f'wrappers can be executed on sentinels [ctx={int(ctx)}]', 'ground', False, detail={'raised': repr(e)})


def _wrapper_cases(rep, unit, ctx):
    from pyvc.rtver import native_namespace
    if True:
        ns = native_namespace(ctx)
        S = [object() for _ in range(8)]
        log = []

        def f(*a, **k):
            log.append((a, k))
            return S[7]
        lead = (S[0],) if ctx else ()
        pf = ns['_ParseFunction'](f, (S[3], S[4]), (('k', S[5]),))
        r = pf(*lead, S[1], S[2])
        rep.add(unit, f'_ParseFunction(func, args, kwargs)([ctx,] text, pos) = func([ctx,] text, pos, *args, **dict(kwargs)) [ctx={int(ctx)}]', 'ground',
                r is S[7] and log == [(lead + (S[1], S[2], S[3], S[4]), {'k': S[5]})], detail={'log': repr(log)[:200]})
        log.clear()
        sl = ns['_wrap_string_literal']('abc', f)
        r = sl(*lead, S[1], S[2])
        rep.add(unit, f'wrapped string literal equals its value and parses with its helper [ctx={int(ctx)}]', 'ground',
                sl == 'abc' and isinstance(sl, str) and r is S[7] and log == [(lead + (S[1], S[2]), {})])
        log.clear()
        sb = ns['_wrap_string_literal'](b'ab\xff', f)
        r = sb(*lead, S[1], S[2])
        rep.add(unit, f'wrapped bytes literal equals its value (bytes, not the str of its repr) and parses with its helper [ctx={int(ctx)}]', 'ground',
                sb == b'ab\xff' and isinstance(sb, bytes) and r is S[7] and log == [(lead + (S[1], S[2]), {})], detail={'wrapper': repr(sb)[:60], 'type': type(sb).__name__})
        log.clear()
        bl = ns['_wrap_byte_literal'](0x41, f)
        r = bl(*lead, S[1], S[2])
        rep.add(unit, f'wrapped byte literal equals its value and parses with its helper [ctx={int(ctx)}]', 'ground',
                bl == 0x41 and isinstance(bl, int) and r is S[7] and log == [(lead + (S[1], S[2]), {})])
        # hashable and equal by value: a request key
        k1 = ns['_ParseFunction'](f, (1, 'a'), ())
        k2 = ns['_ParseFunction'](f, (1, 'a'), ())
        rep.add(unit, f'_ParseFunction values are hashable and equal by (func, args, kwargs) [ctx={int(ctx)}]', 'ground', k1 == k2 and hash(k1) == hash(k2))


def key_adequacy_obligations(rep, tier, unit='ground:memo-key-adequacy'):
    """two requests with == keys must have the same outcome: holds for parser-valued arguments (function identity); for VALUE
    arguments it needs hashable values whose == implies indistinguishability"""
    from pyvc.rtver import native_namespace
    ns = native_namespace(False)
    f = lambda *a: None
    PFn = ns['_ParseFunction']
    rep.add(unit, 'different value arguments give different request keys (1 vs True)', 'ground', PFn(f, (1,), ()) != PFn(f, (True,), ()),
            detail={'note': '1 == True and hash(1) == hash(True) in python'})
    rep.add(unit, 'different value arguments give different request keys (1 vs 1.0)', 'ground', PFn(f, (1,), ()) != PFn(f, (1.0,), ()))
    try:
        hash((3, PFn(f, ([1, 2],), ()), 0))
        ok = True
    except TypeError:
        ok = False
    rep.add(unit, 'an unhashable argument value (a list) can be part of a request key', 'ground', ok)
    g1, g2 = (lambda *a: None), (lambda *a: None)
    rep.add(unit, 'different parser arguments give different request keys', 'ground', PFn(f, (g1,), ()) != PFn(f, (g2,), ()))
    rep.add(unit, 'keyword arguments are part of the key', 'ground', PFn(f, (), (('k', 1),)) != PFn(f, (), (('k', 2),)))


DOCUMENTED_CONSTRUCTORS = {'Opt', 'List', 'Some', 'Right', 'Left', 'Choice', 'Seq', 'Sep', 'Expect', 'ExpectNot', 'Skip', 'Longest', 'Backtrack', 'Fail',
                           # further expression classes of the package (capitalised class names, README "Parsing Expressions")
                           'Apply', 'Byte', 'Call', 'Class', 'Discard', 'KeywordArg', 'Let', 'OperatorTable', 'PythonExpression', 'PythonSection',
                           'Ref', 'Regex', 'Rule', 'Str', 'Where', 'SymbolCounter'}


def interception_obligations(rep, tier, unit='ground:constructor-interception'):
    """the names that `Name(args)` treats as built-in constructors are exactly capitalised constructor names; every other
    identifier - in particular the package's submodule and helper names - is left to user templates (C06, C20)"""
    import keyword
    probe = sorted(set(dir(X)) | {'foo', 'T', 'list', 'str', 'visit', 'Seq', 'Opt'})
    wrongly = []
    for name in probe:
        if name.startswith('_') or keyword.iskeyword(name) or not name.isidentifier():
            continue
        try:
            node = front.expr_of(f'{name}("a")')
        except Exception as e:
            # parse keywords of the grammar language itself (let, where, class, ...) cannot be template names anyway
            continue
        intercepted = not isinstance(node, X.Call)
        if intercepted != (name in DOCUMENTED_CONSTRUCTORS):
            wrongly.append((name, 'intercepted' if intercepted else 'not intercepted'))
    rep.add(unit, 'Name("a") is a constructor call exactly for the documented constructor names', 'ground', not wrongly, detail={'wrong': wrongly})


# ---------------------------------------------------------------------------------------------- C13 inheritance (schematic)
def _chain_worker(conn, ign, b_over, c_over, c_new, dotted, seq):
    """builds A <- B <- C with the real Grammar() and evaluates the wiring obligations on the resulting objects"""
    import importlib
    import re
    import sys
    try:
        from sourcer import Grammar
        pre = f'vchain{seq}.' if dotted else f'vchain{seq}_'
        names = [pre + 'A', pre + ('sub.B' if dotted else 'B'), pre + ('sub.C' if dotted else 'C')]
        ign_stmt = {'none': '', 'named': 'ignore Sp{L} = /[ {L}]+/\n', 'anonymous': 'ignore /[ {L}]+/\n'}
        descs = []
        descs.append(f'grammar {names[0]}\n' + ign_stmt[ign[0]].format(L='a') +
                     'start = [X, Y, K?]\nX = "x"\nY = "y"\nT(a) = a\nclass K {\n v: X\n}\nZ = T(Y)\n')
        b = f'grammar {names[1]} extends {names[0]}\n' + ign_stmt[ign[1]].format(L='b')
        b += {'no': '', 'plain': 'override X = "B"\n', 'super': 'override X = "B" | super.X\n'}[b_over]
        b += 'NB = [X, Y]\nNB2 = super.T(X)\n'        # a template called through super: static too
        descs.append(b)
        c = f'grammar {names[2]} extends {names[1]}\n' + ign_stmt[ign[2]].format(L='c')
        c += {'no': '', 'plain': 'override X = "C"\n', 'super': 'override X = "C" | super.X\n'}[c_over]
        c += ('NC = [Y, Z, NB]\nNC2 = super.T(Y) | super.NB2\n' if c_new else 'NC = "nc"\n')
        descs.append(c)
        mods = []
        results = []
        for lvl, d in enumerate(descs):
            before = [dict(vars(m._ctx)) for m in mods]
            before_mod = [dict(vars(m)) for m in mods]
            m = Grammar(d, include_source=True)
            mods.append(m)
            # parent untouched by creating the derived grammar
            for k, (pm, bc, bm) in enumerate(zip(mods[:-1], before, before_mod)):
                same = vars(pm._ctx).keys() == bc.keys() and all(vars(pm._ctx)[a] is bc[a] for a in bc) \
                    and vars(pm).keys() == bm.keys() and all(vars(pm)[a] is bm[a] for a in bm)
                results.append((f'creating level {lvl + 1} leaves level {k + 1} (module and context) untouched', same, None))
        defines_x = [True, b_over != 'no', c_over != 'no']
        for lvl, m in enumerate(mods):
            ctx = m._ctx
            owner = max(k for k in range(lvl + 1) if defines_x[k])
            results.append((f'level {lvl + 1}: _ctx._try_X is the implementation of the most derived level that defines X',
                            ctx._try_X is vars(mods[owner])['_try_X'], None))
            for r in ('Y', 'T', 'K', 'Z', 'start'):
                results.append((f'level {lvl + 1}: inherited {r} is the base implementation', getattr(ctx, '_try_' + r) is vars(mods[0])['_try_' + r], None))
            if lvl > 0:
                results.append((f'level {lvl + 1}: _ctx._super_ctx is the context of level {lvl}', ctx._super_ctx is mods[lvl - 1]._ctx, None))
                results.append((f'level {lvl + 1}: module-level _super_ctx is the context of level {lvl}', vars(m)['_super_ctx'] is mods[lvl - 1]._ctx, None))
            # every _ctx.<attr> that any function body of a level <= lvl can read exists on this context
            missing = []
            for k in range(lvl + 1):
                for attr in set(re.findall(r'\b_ctx\.([A-Za-z_][A-Za-z_0-9]*)', mods[k]._source_code)):
                    if not hasattr(ctx, attr):
                        missing.append((k + 1, attr))
            results.append((f'level {lvl + 1}: every attribute read through the run-time context by code of levels <= {lvl + 1} exists', not missing, missing[:5]))
            # super references are static: emitted as _super_ctx.<impl> resolved in the defining module, never through _ctx
            dyn = re.findall(r'_ctx\._super_ctx\.', m._source_code.split('_ctx = _Context()')[0])
            results.append((f'level {lvl + 1}: no super reference goes through the run-time context', not dyn, None))
            has_ign = any(x != 'none' for x in ign[:lvl + 1])
            results.append((f'level {lvl + 1}: _try__ignored present iff some level <= {lvl + 1} declares ignore', hasattr(ctx, '_try__ignored') == has_ign, None))
            if has_ign and ign[lvl] == 'none':
                results.append((f'level {lvl + 1}: without own ignore the skipper is the parent\'s', ctx._try__ignored is mods[lvl - 1]._ctx._try__ignored, None))
            results.append((f'level {lvl + 1}: importlib finds the installed grammar', importlib.import_module(names[lvl]) is m, None))
            # exported names of inherited rules are the parent's objects
            results.append((f'level {lvl + 1}: Y is exported (every rule of the base is available in the derived module)', hasattr(m, 'Y') and hasattr(m.Y, 'parse'), None))
        # behaviour through each level (bounded, labelled so by the caller): what X means, late binding inside inherited rules
        sp = ' ' if ign[0] != 'none' else ''
        expect_x = {0: {'x'}, 1: {'x'} if b_over == 'no' else ({'B'} if b_over == 'plain' else {'B', 'x'})}
        expect_x[2] = expect_x[1] if c_over == 'no' else ({'C'} if c_over == 'plain' else {'C'} | expect_x[1])
        for lvl, m in enumerate(mods):
            for tok in ('x', 'B', 'C'):
                try:
                    r = m.parse(tok + sp + 'y')
                    got = True
                except (m.ParseError, m.PartialParseError):
                    got = False
                except Exception as e:
                    got = repr(e)
                results.append((f'level {lvl + 1}: inherited start parses {tok!r} as X iff some definition visible at this level accepts it',
                                got == (tok in expect_x[lvl]), {'got': got}))
        # the same through the rule OBJECT the derived module exports for an inherited rule (observation point `B.<Rule>.parse`)
        for lvl, m in enumerate(mods):
            for tok in ('x', 'B', 'C'):
                try:
                    m.start.parse(tok + sp + 'y')
                    got = True
                except (m.ParseError, m.PartialParseError):
                    got = False
                except Exception as e:
                    got = repr(e)
                results.append((f'level {lvl + 1}: <module>.start.parse (the exported object of the inherited start rule) parses {tok!r} as X iff some definition '
                                f'visible at this level accepts it', got == (tok in expect_x[lvl]), {'got': got, 'want': tok in expect_x[lvl]}))
        # histories: compiling a grammar again under the SAME name replaces it for everything created afterwards (`extends` goes by name)
        if b_over == 'no' and c_over == 'no':
            a2 = Grammar(descs[0].replace('X = "x"', 'X = "z"'))
            results.append(('a grammar compiled again under the same name is the one importlib finds from then on', importlib.import_module(names[0]) is a2, None))
            b2 = Grammar(descs[1])
            for tok, want in (('z', True), ('x', False)):
                try:
                    b2.parse(tok + sp + 'y')
                    got = True
                except (b2.ParseError, b2.PartialParseError):
                    got = False
                except Exception as e:
                    got = repr(e)
                results.append((f'a derived grammar created after its base was compiled again inherits the NEW base ({tok!r} as X: {want})', got == want, {'got': got}))
            results.append(('the derived grammar created BEFORE keeps the base it was created from', mods[1]._ctx._try_X is vars(mods[0])['_try_X'], None))
        # every ancestor's ignore pattern stays in force in every descendant, next to the descendant's own (patterns ignore ' ' and one letter
        # of their own: a / b / c): the letter of level k is skipped between tokens at level lvl iff k <= lvl and level k declares ignore
        # (only when the BASE declares ignore: the tokens of the probe are literals of inherited base rules, which skip at all only then -
        # "everything B does not mention behaves as in A")
        for lvl, m in enumerate(mods if ign[0] != 'none' else []):
            tokx = sorted(expect_x[lvl])[0]
            for k, letter in enumerate('abc'):
                try:
                    m.parse(tokx + letter * 2 + 'y')
                    got = True
                except (m.ParseError, m.PartialParseError):
                    got = False
                except Exception as e:
                    got = repr(e)
                want = k <= lvl and ign[k] != 'none'
                results.append((f'level {lvl + 1}: the ignore pattern of level {k + 1} is in force iff that level is an ancestor (or the level itself) and declares one',
                                got == want, {'got': got, 'want': want, 'text': tokx + letter * 2 + 'y'}))
        conn.send(results)
    except Exception:
        import traceback
        conn.send([('chain could be built', False, traceback.format_exc()[-600:])])
    conn.close()


def inheritance_obligations(rep, tier, unit='wiring:inheritance'):
    import itertools
    import multiprocessing as mp
    ctx = mp.get_context('fork')
    igns = [('none', 'none', 'none'), ('named', 'none', 'none'), ('anonymous', 'none', 'none'), ('named', 'named', 'none'),
            ('anonymous', 'anonymous', 'anonymous'), ('none', 'named', 'anonymous'), ('named', 'none', 'named'), ('none', 'none', 'anonymous')]
    if tier == 'thorough':
        igns = list(itertools.product(('none', 'named', 'anonymous'), repeat=3))
    seq = 0
    for ign in igns:
        for b_over, c_over in itertools.product(('no', 'plain', 'super'), repeat=2):
            for dotted in ((False, True) if (ign == igns[0] or tier == 'thorough') else (False,)):
                seq += 1
                tag = f'[ignore={"/".join(ign)},B={b_over},C={c_over},dotted={int(dotted)}]'
                parent, child = ctx.Pipe(duplex=False)
                p = ctx.Process(target=_chain_worker, args=(child, ign, b_over, c_over, True, dotted, seq), daemon=True)
                p.start()
                child.close()
                if parent.poll(20):
                    res = parent.recv()
                else:
                    p.kill()
                    res = [('chain is built and parses within 20 s (a mis-bound super loops forever)', False, 'timeout')]
                p.join(1)
                for name, ok, detail in res:
                    kind = 'bounded' if 'parses' in name and 'inherited start' in name else 'schematic'
                    okb = bool(ok) if ok in (True, False) else False
                    rep.add(unit, f'{name} {tag}', 'schematic', okb, detail={'detail': detail},
                            replay={'reproduced': True, 'violated': [detail], 'how': 'the real Grammar() chain was built and the real parse entry point run'}
                            if not okb and isinstance(detail, dict) and 'got' in detail else None)


def derived_start_obligations(rep, tier, unit='wiring:inheritance-start'):
    """a derived grammar that overrides the start rule still skips leading ignored text when ANY ancestor declares ignore patterns,
    and a derived grammar without a start of its own is entered at the nearest ancestor's start rule (any distance up the chain)"""
    from sourcer import Grammar
    from pyvc import runtime
    import sys
    base = 'grammar vds_A\nignore Sp = " "\nstart = W+\nW = /[a-z]+/\n'
    Grammar(base)
    cases = {
        'fresh start, no own ignore': 'grammar vds_B1 extends vds_A\noverride start = [W, W]\n',
        'start via super, no own ignore': 'grammar vds_B2 extends vds_A\noverride start = super.start << "."?\n',
        'fresh start, own ignore too': 'grammar vds_B3 extends vds_A\nignore Cm = /#[^#]*#/\noverride start = [W, W]\n',
    }
    for name, desc in cases.items():
        src = runtime.generated_module_source(desc)
        tree = ast.parse(src)
        fn = next(n for n in tree.body if isinstance(n, ast.FunctionDef) and n.name == '_try_start')
        reqs = requests_in(fn)
        rep.add(unit, f'derived start begins with the request for _ignored [{name}]', 'schematic',
                bool(reqs) and reqs[0] == '_ctx._try__ignored', detail={'requests': reqs})
    # start rule inherited over two levels
    Grammar('grammar vds_M extends vds_A\nExtra = "e"\n')
    src = runtime.generated_module_source('grammar vds_C extends vds_M\nMore = "m"\n')
    tree = ast.parse(src)
    fn = next(n for n in tree.body if isinstance(n, ast.FunctionDef) and n.name == 'parse')
    rep.add(unit, 'a grammar two levels below the one that defines start is entered at that start rule', 'schematic',
            '_ctx._try_start' in ast.unparse(fn), detail={'src': ast.unparse(fn)})
    # module-level parse of a derived grammar forwards pos and fullparse
    ok = any(isinstance(n, ast.Call) and ast.unparse(n.func) == '_run' and [ast.unparse(a) for a in n.args] == ['_ctx', 'text', 'pos', '_ctx._try_start', 'fullparse']
             for n in ast.walk(fn)) and [a.arg for a in fn.args.args] == ['text', 'pos', 'fullparse'] and [ast.unparse(d) for d in fn.args.defaults] == ['0', 'True']
    rep.add(unit, 'derived module parse(text, pos=0, fullparse=True) = _run(_ctx, text, pos, <start>, fullparse)', 'schematic', ok, detail={'src': ast.unparse(fn)})
    # an override of a NAMED ignore rule is late-bound inside the inherited skipper
    src_a = runtime.generated_module_source(base)
    fa = next(n for n in ast.parse(src_a).body if isinstance(n, ast.FunctionDef) and n.name == '_try__ignored')
    rep.add(unit, 'the skipper refers to named ignore rules through the run-time context (an override in a derived grammar takes effect)', 'schematic',
            requests_in(fa) == ['_ctx._try_Sp'], detail={'requests': requests_in(fa)})
    for m in [k for k in sys.modules if k.startswith('vds_')]:
        sys.modules.pop(m, None)


# ---------------------------------------------------------------------------------------------- C17 nesting depth
def _spill_kinds():
    from contracts.call import _ref, _local
    return {
        'pure (stubs only)': lambda: X.Seq(Stub(1, False, True), Stub(2, True, False)),
        'rule reference': lambda: X.Seq(_ref('A'), Stub(1, False, False)),
        'literal that skips ignored text': lambda: _skipping(X.Seq(X.Str('a'), Stub(1, False, False))),
        'template call': lambda: X.Seq(X.Call(_ref('T'), [Stub(1, False, False)]), Stub(2, False, False)),
        'uses a parameter': lambda: X.Seq(_local('p'), Stub(1, False, False)),
        'uses two names': lambda: X.Seq(_local('q'), _local('p')),
        # seven names: whatever order a set of these strings iterates in (hash seed), it is not the sorted one the helper declares -
        # the call site must pass the values in the order of the helper's OWN parameter list
        'uses seven names': lambda: X.Seq(*[_local(n) for n in ('q', 'p', 'zeta', 'alpha', 'k', 'm1', 'b2')]),
        'always succeeds': lambda: X.List(Stub(1, False, True)),
        'single literal': lambda: X.Str('abc'),
    }


def _skipping(e):
    X.visit(e, lambda n: setattr(n, 'skip_ignored', True) if hasattr(n, 'skip_ignored') else None)
    return e


def spill_obligations(rep, tier, unit='wiring:spill'):
    """with the block budget exhausted the real Expression.compile emits, in place of the fragment, ONE request to the driver for a
    helper whose body is that fragment; by the driver contract the registers then hold the fragment's outcome at the entry position"""
    for kind, mk in _spill_kinds().items():
        for ctx in (False, True):
            node = mk()
            src = frag.emit_spilled(node, ctx)
            tree = ast.parse(src)
            tag = f'[{kind},ctx={int(ctx)}]'
            defs = [n for n in tree.body if isinstance(n, ast.FunctionDef) and n.name == f'_parse_function_{node.program_id}']
            rest = [n for n in tree.body if not isinstance(n, ast.FunctionDef)]
            if len(defs) != 1:
                rep.add(unit, f'one helper for the spilled expression {tag}', 'case_complete', False, detail={'src': src})
                continue
            fn = defs[0]
            lead = (['_ctx'] if ctx else []) + ['_text', '_pos']
            params = astutil.params_of(fn)
            captured = params[len(lead):]
            # call site: [arg = _ParseFunction(helper, (captured..), ())]; (_status, _result, _pos) = yield (3, helper|arg, _pos)
            last = rest[-1] if rest else None
            ok_req = isinstance(last, ast.Assign) and ast.unparse(last.targets[0]) == '(_status, _result, _pos)' and isinstance(last.value, ast.Yield) \
                and isinstance(last.value.value, ast.Tuple) and ast.unparse(last.value.value.elts[0]) == '3' and ast.unparse(last.value.value.elts[2]) == '_pos'
            callee = ast.unparse(last.value.value.elts[1]) if ok_req else None
            if captured:
                binds = [s for s in rest[:-1] if isinstance(s, ast.Assign) and ast.unparse(s.targets[0]) == callee]
                ok_callee = len(binds) == 1 and isinstance(binds[0].value, ast.Call) and ast.unparse(binds[0].value.func) == '_ParseFunction' \
                    and ast.unparse(binds[0].value.args[0]) == fn.name and [ast.unparse(x) for x in binds[0].value.args[1].elts] == captured \
                    and ast.unparse(binds[0].value.args[2]) == '()'
            else:
                ok_callee = callee == fn.name and len(rest) == 1
            rep.add(unit, f'the fragment is replaced by one driver request for its helper at the entry position {tag}', 'case_complete',
                    bool(ok_req and ok_callee and params[:len(lead)] == lead), detail={'src': src})
            rep.add(unit, f'a helper that contains requests is never called directly {tag}', 'case_complete',
                    not any(isinstance(n, ast.Call) and ast.unparse(n.func) == fn.name for n in ast.walk(tree)), detail={'src': src})
            free = unexpected_free(fn, ctx)
            rep.add(unit, f'helper has no free name besides its parameters {tag}', 'case_complete', not free, detail={'free': free})
            want = [w_ for w_ in ast.parse(frag.emit(mk() if kind != 'literal that skips ignored text' else _skipping(mk()), ctx, precompile=False)).body
                    if not isinstance(w_, ast.FunctionDef)]        # helpers of nested arguments live at module level in both emissions
            body = [s for s in fn.body]
            same = len(body) == len(want) + 1 and all(_same_modulo_ids(a, b) for a, b in zip(body, want)) \
                and ast.unparse(body[-1]) == 'yield (_status, _result, _pos)'
            rep.add(unit, f'helper body = the inline fragment + `yield (_status, _result, _pos)` {tag}', 'case_complete', same, detail={'src': src})


def captured_argument_order_obligations(rep, tier, unit='wiring:captured-argument-order'):
    """a compound expression passed as an ARGUMENT (T(<expr>)) that mentions names bound at the call site becomes a helper; the call site wraps
    it as _ParseFunction(helper, (values...), ()) - the values must be, position by position, the helper's own extra parameters"""
    from contracts.call import _ref, _local
    for names in (('q', 'p'), ('q', 'p', 'zeta', 'alpha', 'k', 'm1', 'b2'), ('Open', 'Close', 'Word'), ('x9', 'x10', 'x1', 'x', 'X', '_y')):
        for ctx in (False, True):
            for callee in ('rule', 'local'):
                node = X.Call(_ref('T') if callee == 'rule' else _local('f'), [X.Seq(*[_local(n) for n in names])])
                src = frag.emit(node, ctx)
                tree = ast.parse(src)
                lead = (['_ctx'] if ctx else []) + ['_text', '_pos']
                pfs = [n for n in ast.walk(tree) if isinstance(n, ast.Call) and ast.unparse(n.func) == '_ParseFunction' and isinstance(n.args[0], ast.Name)
                       and n.args[0].id.startswith('_parse_function_')]
                ok, detail = bool(pfs), {'src': src[:1500]}
                for pf in pfs:
                    fn = next((n for n in tree.body if isinstance(n, ast.FunctionDef) and n.name == pf.args[0].id), None)
                    if fn is None or not isinstance(pf.args[1], ast.Tuple):
                        ok = False
                        continue
                    params = astutil.params_of(fn)
                    passed = [ast.unparse(x) for x in pf.args[1].elts]
                    if params[:len(lead)] != lead or passed != params[len(lead):] or set(passed) != set(names):
                        ok = False
                        detail.update(helper_parameters=params, passed=passed)
                rep.add(unit, f'captured values are passed in the order of the helper\'s parameter list [names={",".join(names)},ctx={int(ctx)},callee={callee}]',
                        'case_complete', ok, detail=detail)


def block_accounting_obligations(rep, tier, unit='wiring:block-accounting'):
    """the deepest compound-statement nesting a fragment opens by itself (children abstract: stubs open none) is at most its declared
    num_blocks; with CodeBuilder.has_available_blocks this bounds the nesting of every generated function by max_num_blocks (20)"""
    from contracts import core, lists, bind
    import contracts.call as callc
    seen = {}
    for c in core.CORE + lists.LISTS + bind.BIND + callc.CALL:
        for cfg in c.configs(tier):
            try:
                node, _ = c.build(cfg)
            except Exception:
                continue
            src = frag.emit(node, bool(cfg.get('ctx')))
            tree = ast.parse(src)
            stmts = [s for s in tree.body if not isinstance(s, (ast.FunctionDef, ast.ClassDef))]
            depth, loops = astutil.max_block_depth(stmts), astutil.max_loop_depth(stmts)
            key = type(node).__name__
            w = seen.setdefault(key, {'depth': 0, 'loops': 0, 'nb': node.num_blocks, 'cfg': None, 'excess': -99, 'loop_excess': -99})
            if depth - node.num_blocks > w['excess']:
                w.update(depth=depth, nb=node.num_blocks, cfg=c.label(cfg), excess=depth - node.num_blocks)
            if loops - node.num_blocks > w['loop_excess']:
                w.update(loops=loops, loop_excess=loops - node.num_blocks, loop_nb=node.num_blocks)
    for key, w in sorted(seen.items()):
        # CPython's static limit (20) counts loops / try / with: these must be covered by the declaration exactly
        rep.add(unit, f'{key}: loops opened by the fragment itself ({w["loops"]}) <= declared num_blocks ({w.get("loop_nb", w["nb"])})', 'case_complete',
                w['loop_excess'] <= 0, detail=w)
        # `if` blocks only count towards indentation (limit 100): the declaration may under-count them by at most one level
        rep.add(unit, f'{key}: all blocks opened by the fragment itself ({w["depth"]}) <= declared num_blocks ({w["nb"]}) + 1', 'case_complete',
                w['excess'] <= 1, detail=w)
    # operator tables (4 declared)
    def row(assoc, ops):
        return type('Row', (), {'associativity': assoc, 'operators': ops})()
    t = X.OperatorTable.create(Stub(1, False, True), [row('prefix', [Stub(2, False, False)]), row('left', [Stub(3, False, True)]),
                                                       row('postfix', [Stub(4, False, False)]), row('infix', [Stub(5, False, False)])])
    src = frag.emit(t, False)
    depth = astutil.max_block_depth(ast.parse(src).body)
    # the operands / operators are Apply and Longest nodes with blocks of their own: subtract nothing, compare against the sum
    rep.add(unit, f'OperatorTable: blocks opened ({depth}) <= declared num_blocks (4) + those of its Longest/Apply children (2 + 2)', 'case_complete', depth <= 8)


def no_python_recursion_obligations(rep, tier, unit='syntactic:no-input-proportional-recursion'):
    """the run-time functions reachable from parse() without entering user code form an acyclic call graph"""
    from pyvc import runtime
    src, tree, defs = runtime.runtime(False)
    fns = {k: v for k, v in defs.items() if isinstance(v, ast.FunctionDef)}
    graph = {}
    for name, fn in fns.items():
        calls = set()
        for n in ast.walk(fn):
            if isinstance(n, ast.Call):
                f = ast.unparse(n.func)
                if f in fns:
                    calls.add(f)
        graph[name] = calls
    reach = set()
    todo = ['parse', '_run']
    while todo:
        f = todo.pop()
        if f in reach:
            continue
        reach.add(f)
        todo.extend(graph.get(f, ()))
    def cyclic(f, stack=()):
        if f in stack:
            return True
        return any(cyclic(g, stack + (f,)) for g in graph.get(f, ()))
    bad = sorted(f for f in reach if cyclic(f))
    rep.add(unit, f'functions reachable from parse ({", ".join(sorted(reach))}) call each other acyclically', 'syntactic', not bad, detail={'cyclic': bad})


# ---------------------------------------------------------------------------------------------- C11 module production
C11_GRAMMARS = {
    'plain': 'start = [A, B?] | C+\nA = "a"\nB = /b+/i\nC = 0x43 | "c"\nclass K {\n x: A\n let y: B\n}\nT(p) = [p, p]\nU = T(A) | T("q")',
    'ignore-anon': 'ignore /[ \\t]+/\nignore Cm = /#[^\\n]*/\nstart = W+\nW = /[a-z]+/',
    'python': '```\nimport math\n```\nstart = /[0-9]+/ |> `int` where `lambda n: n > math.pi`\nE = Atom between {\n left: "+"\n prefix: "-"\n}\nAtom = /[0-9]+/',
    'tricky-docstring': 'start = "\\\\" | \'"""\' | "\\n" | /\\\\d+\\\\/ | """x"""\n# comment with \\ and """ inside',
}


def _free_globals(tree):
    """names read at module level or inside functions that are not bound anywhere in the module (python LEGB, approximated exactly
    enough for generated code: module-level stores / defs / classes / imports bind; function locals are per function)"""
    bound = set()
    for n in tree.body:
        if isinstance(n, (ast.FunctionDef, ast.ClassDef)):
            bound.add(n.name)
        elif isinstance(n, (ast.Import, ast.ImportFrom)):
            for a in n.names:
                bound.add((a.asname or a.name).split('.')[0])
        else:
            for t in ast.walk(n):
                if isinstance(t, ast.Name) and isinstance(t.ctx, ast.Store):
                    bound.add(t.id)
    free = set()

    def scan_fn(fn, outer):
        local = set(astutil.params_of(fn))
        body = fn.body if isinstance(fn.body, list) else [fn.body]
        for s in body:
            for t in ast.walk(s):
                if isinstance(t, ast.Name) and isinstance(t.ctx, ast.Store):
                    local.add(t.id)
                if isinstance(t, (ast.FunctionDef, ast.ClassDef)) and t is not fn:
                    local.add(t.name)
                if isinstance(t, ast.comprehension):
                    for x in ast.walk(t.target):
                        if isinstance(x, ast.Name):
                            local.add(x.id)
                if isinstance(t, ast.Lambda):
                    local.update(astutil.params_of(t))
                if isinstance(t, ast.FunctionDef) and t is not fn:
                    local.update(astutil.params_of(t))
        for s in body:
            for t in ast.walk(s):
                if isinstance(t, ast.Name) and isinstance(t.ctx, ast.Load) and t.id not in local and t.id not in outer:
                    free.add(t.id)
    for n in tree.body:
        if isinstance(n, ast.FunctionDef):
            scan_fn(n, bound)
        elif isinstance(n, ast.ClassDef):
            cls_local = {m.name for m in n.body if isinstance(m, ast.FunctionDef)} | {t.id for m in n.body for t in ast.walk(m) if isinstance(t, ast.Name) and isinstance(t.ctx, ast.Store) and not isinstance(m, ast.FunctionDef)}
            for m in n.body:
                if isinstance(m, ast.FunctionDef):
                    scan_fn(m, bound)
                else:
                    for t in ast.walk(m):
                        if isinstance(t, ast.Name) and isinstance(t.ctx, ast.Load) and t.id not in bound and t.id not in cls_local:
                            free.add(t.id)
        else:
            for t in ast.walk(n):
                if isinstance(t, ast.Name) and isinstance(t.ctx, ast.Load) and t.id not in bound:
                    free.add(t.id)
    return free - astutil.BUILTINS


def emitted_module_obligations(rep, tier, unit='wiring:emitted-module'):
    """the emitted source is self-contained python over the standard library; it means the same with and without `optimize=2`
    (no assert, no __doc__ / __debug__ reads); the docstring literal evaluates back to the docstring"""
    from pyvc import runtime
    for gname, desc in C11_GRAMMARS.items():
        for named in (False, True):
            text = (f'grammar c11emit_{gname.replace("-", "_")}\n' if named else '') + desc
            tag = f'[{gname},named={int(named)}]'
            try:
                src = runtime.generated_module_source(text)
            except Exception as e:
                rep.add(unit, f'source is generated {tag}', 'schematic', False, detail={'error': repr(e)})
                continue
            tree = ast.parse(src)
            free = sorted(_free_globals(tree) - ({'math'} if gname == 'python' else set()))
            rep.add(unit, f'every global name the module reads is defined by the module, imported from the standard library, or a builtin {tag}',
                    'schematic', not free, detail={'free': free})
            imports = sorted({(n.module if isinstance(n, ast.ImportFrom) else n.names[0].name).split('.')[0] for n in ast.walk(tree) if isinstance(n, (ast.Import, ast.ImportFrom))})
            rep.add(unit, f'imports only the standard library {tag}', 'schematic', set(imports) <= {'collections', 're', 'math'}, detail={'imports': imports})
            bad = [type(n).__name__ for n in ast.walk(tree) if isinstance(n, ast.Assert)] + \
                  [ast.unparse(n) for n in ast.walk(tree) if (isinstance(n, ast.Attribute) and n.attr == '__doc__') or (isinstance(n, ast.Name) and n.id in ('__debug__', '__doc__'))]
            rep.add(unit, f'no assert and no __doc__/__debug__ read: compile(optimize=2) and plain execution of the source agree {tag}', 'syntactic', not bad, detail={'found': bad})
            doc = ast.get_docstring(tree, clean=False)
            want = '# Grammar definition:\n' + text
            rep.add(unit, f'the docstring literal evaluates back to the grammar description (extends recovers the parent from __doc__) {tag}', 'ground',
                    doc is not None and doc.strip('\n') == want.strip('\n'), detail={'got': (doc or '')[:120], 'want': want[:120]})
            # context population
            if named:
                impls = [n.name for n in tree.body if isinstance(n, ast.FunctionDef) and n.name.startswith('_try_')]
                sets = {ast.unparse(s.targets[0]): ast.unparse(s.value) for s in tree.body if isinstance(s, ast.Assign) and ast.unparse(s.targets[0]).startswith('_ctx.')}
                miss = [i for i in impls if sets.get(f'_ctx.{i}') != i]
                rep.add(unit, f'the epilogue publishes every implementation of the module on its context {tag}', 'schematic', not miss, detail={'missing': miss})
            else:
                rep.add(unit, f'an unnamed module never mentions _ctx {tag}', 'syntactic', '_ctx' not in src)


def recompile_obligations(rep, tier, unit='ground:recompilation'):
    """two compilations of one description (and include_source on/off) give the same module text up to a consistent renaming of
    _anonymous_<id> rule names"""
    import re
    from sourcer import Grammar
    for gname, desc in C11_GRAMMARS.items():
        a = Grammar(desc, include_source=True)._source_code
        b = Grammar(desc, include_source=True)._source_code
        norm = lambda s: re.sub(r'_anonymous_\d+', lambda m, seen={}: seen.setdefault(m.group(0), f'_anonymous_{len(seen)}'), s)
        def canon(s):
            seen = {}
            return re.sub(r'_anonymous_\d+', lambda m: seen.setdefault(m.group(0), f'_anonymous_#{len(seen)}'), s)
        rep.add(unit, f'same text modulo anonymous rule names [{gname}]', 'ground', canon(a) == canon(b))
        m_off = Grammar(desc, include_source=False)
        rep.add(unit, f'include_source only adds the _source_code attribute [{gname}]', 'ground',
                not hasattr(m_off, '_source_code') and {k for k in vars(m_off) if not k.startswith('__')} == {k for k in vars(Grammar(desc, include_source=True)) if not k.startswith('__') and k != '_source_code'} or
                {re.sub(r'\d+$', '', k) for k in vars(m_off) if not k.startswith('__')} == {re.sub(r'\d+$', '', k) for k in vars(Grammar(desc, include_source=True)) if not k.startswith('__') and k != '_source_code'})


def generator_state_obligations(rep, tier, unit='syntactic:generator-is-stateless'):
    """sourcer.grammar / translator / expressions keep no module-level state between compilations: no `global`, no store to a module or
    class attribute outside __init__, no mutable module-level containers that functions write to"""
    import os
    from pyvc import paths
    root = os.path.join(paths.REPO, 'sourcer')
    files = [os.path.join(root, f) for f in ('grammar.py', 'translator.py')] + \
            [os.path.join(root, 'expressions', f) for f in sorted(os.listdir(os.path.join(root, 'expressions'))) if f.endswith('.py')]
    for path in files:
        tree = ast.parse(open(path).read())
        mod_names = {t.id for n in tree.body if isinstance(n, ast.Assign) for t in ast.walk(n) if isinstance(t, ast.Name) and isinstance(t.ctx, ast.Store)}
        bad = []
        for fn in [n for n in ast.walk(tree) if isinstance(n, ast.FunctionDef)]:
            for n in ast.walk(fn):
                if isinstance(n, ast.Global):
                    bad.append(f'{fn.name}: global {",".join(n.names)}')
                if isinstance(n, (ast.Attribute, ast.Subscript)) and isinstance(n.ctx, ast.Store):
                    base = n.value
                    while isinstance(base, (ast.Attribute, ast.Subscript)):
                        base = base.value
                    if isinstance(base, ast.Name) and base.id in mod_names and base.id not in astutil.params_of(fn):
                        bad.append(f'{fn.name}: store into module-level {ast.unparse(n)}')
                if isinstance(n, ast.Call) and isinstance(n.func, ast.Attribute) and n.func.attr in ('append', 'add', 'update', 'setdefault', 'extend', 'pop', 'clear') \
                        and isinstance(n.func.value, ast.Name) and n.func.value.id in mod_names and n.func.value.id not in astutil.params_of(fn):
                    local = {t.id for t in ast.walk(fn) if isinstance(t, ast.Name) and isinstance(t.ctx, ast.Store)}
                    if n.func.value.id not in local:
                        bad.append(f'{fn.name}: mutates module-level {n.func.value.id}')
        allowed = [b for b in bad if 'sys.modules' in b]
        bad = [b for b in bad if b not in allowed]
        rep.add(unit, f'{os.path.relpath(path, paths.REPO)}: functions write no module-level state', 'syntactic', not bad, detail={'found': bad})
        # state can also hide in a decorator (functools.lru_cache / cache keep every earlier call): only decorators that keep nothing
        decos = sorted({ast.unparse(d) for fn in ast.walk(tree) if isinstance(fn, (ast.FunctionDef, ast.ClassDef)) for d in fn.decorator_list})
        stateless = {'contextmanager', 'contextlib.contextmanager', 'staticmethod', 'classmethod', 'property', 'functools.wraps', 'wraps', 'abstractmethod', 'abc.abstractmethod'}
        other = [d for d in decos if d.split('(')[0] not in stateless]
        rep.add(unit, f'{os.path.relpath(path, paths.REPO)}: no decorator that can keep state between calls (caches)', 'syntactic', not other, detail={'decorators': other})
    # Grammar(): include_source flows only into the source_var argument of the code builder's compile() (taint analysis inside Grammar)
    gtree = ast.parse(open(os.path.join(root, 'grammar.py')).read())
    gfn = next((n for n in gtree.body if isinstance(n, ast.FunctionDef) and 'include_source' in astutil.params_of(n)), None)
    bad, sinks = [], 0
    if gfn is None:
        bad.append('no function takes include_source')
    else:
        tainted = {'include_source'}
        in_sink = {id(x) for c in ast.walk(gfn) if isinstance(c, ast.Call) for k in c.keywords if k.arg == 'source_var' for x in ast.walk(k.value)}
        changed = True
        while changed:
            changed = False
            for n in ast.walk(gfn):
                # what the sink call returns (the module) is the intended product, not tainted data
                if isinstance(n, ast.Assign) and any(isinstance(x, ast.Name) and x.id in tainted and id(x) not in in_sink for x in ast.walk(n.value)):
                    for t in n.targets:
                        for x in ast.walk(t):
                            if isinstance(x, ast.Name) and x.id not in tainted:
                                tainted.add(x.id)
                                changed = True
        allowed = set()
        for n in ast.walk(gfn):
            if isinstance(n, ast.Assign) and all(isinstance(t, ast.Name) for t in n.targets):
                allowed.update(id(x) for x in ast.walk(n.value))                      # feeding another (tainted) local
            if isinstance(n, ast.Call):
                for k in n.keywords:
                    if k.arg == 'source_var':
                        hit = [x for x in ast.walk(k.value) if isinstance(x, ast.Name) and x.id in tainted]
                        sinks += bool(hit)
                        allowed.update(id(x) for x in ast.walk(k.value))
        for n in ast.walk(gfn):
            if isinstance(n, ast.Name) and isinstance(n.ctx, ast.Load) and n.id in tainted and id(n) not in allowed:
                bad.append(f'{n.id} used at line {n.lineno}')
        # a tainted local must not be used for anything but the sink either: values assigned from tainted data are only read at the sink
    rep.add(unit, 'Grammar(): include_source (and what is computed from it) flows only into the source_var argument of compile()', 'syntactic',
            not bad and sinks == 1, detail={'other_uses': bad, 'sinks': sinks})


# ---------------------------------------------------------------------------------------------- C20 namespaces
C20_GRAMMAR = '''
ignore U_Space = /[ ]+/
ignore /#[^\\n]*/
start = U_Doc
class U_Doc {
    U_head: U_Word
    let U_n: U_Num
    U_items: U_Item{U_n}
    pass "."?
    requires `U_head != ""`
    U_tail: U_Expr / U_Pair(U_Word) / U_Tmpl(U_Word, U_k="x")
}
class U_Pair(U_p) {
    U_l: U_p
    U_r: U_p
}
U_Tmpl(U_a, U_k) = [U_a, U_k, U_a?] | (let U_v = U_a in [`U_v`, U_a*]) | U_a // "," | U_a /? ";"
U_Word = /[a-z]+/ | "lit"i | 0x41 >> `1`
U_Num = /[0-9]+/ |> `int`
U_Item = Sep(U_Word, ",", discard_separators=False) | Expect(U_Word) >> ExpectNot("z") >> Skip(" ") >> Longest("a", "ab") << Backtrack(0)
       | U_Word where `lambda U_x: len(U_x) > 1` | Fail("no") | `len` <| U_Word | U_Word+ | [U_Word, U_Num]{2,3}
U_Expr = U_Num between {
    prefix: "-"
    left: "*", "/"
    right: "^"
    infix: "=="
    postfix: "!"
    mixfix: "(" >> U_Expr << ")"
}
'''.replace(' / ', ' | ')

DOCUMENTED_API = {'parse', 'visit', 'traverse', 'transform', 'Infix', 'Prefix', 'Postfix', 'ParsedObject', 'ParsingRule', 'InputError', 'ParseError',
                  'PartialParseError'}


def namespace_obligations(rep, tier, unit='wiring:namespaces'):
    """user identifiers (here: everything spelled U_...) and generated identifiers live in disjoint name spaces: one obligation per
    generated name.  Names that violate it on the unchanged tree are listed one by one in known_findings.json; a NEW one is a violation."""
    import re
    from pyvc import runtime
    for named in (False, True):
        src = runtime.generated_module_source(('grammar c20names\n' if named else '') + C20_GRAMMAR)
        tree = ast.parse(src)
        tag = f'[named={int(named)}]'
        # 1. function scope of rule / class / helper functions: every local the generator introduces must start with an underscore
        temps = {}
        for fn in [n for n in ast.walk(tree) if isinstance(n, ast.FunctionDef) and (n.name.startswith(('_try_', '_parse_function_')))]:
            for n in ast.walk(fn):
                if isinstance(n, ast.Name) and isinstance(n.ctx, ast.Store) and not n.id.startswith('U_'):
                    temps.setdefault(re.sub(r'\d+$', '<n>', n.id), fn.name)
            for p_ in astutil.params_of(fn):
                if not p_.startswith('U_'):
                    temps.setdefault(p_, fn.name)
        for base, where in sorted(temps.items()):
            rep.add(unit, f'local `{base}` of generated rule code cannot collide with a user-chosen name (starts with an underscore) {tag}', 'syntactic',
                    base.startswith('_'), detail={'first_seen_in': where})
        # 2. names in scope where user parameter names are in scope: the parse(...) entry of parameterised classes and __init__
        for cdef in [n for n in tree.body if isinstance(n, ast.ClassDef) and n.name.startswith('U_')]:
            for m in [m for m in cdef.body if isinstance(m, ast.FunctionDef)]:
                user = [p_ for p_ in astutil.params_of(m) if p_.startswith('U_')]
                gen = [p_ for p_ in astutil.params_of(m) if not p_.startswith('U_')]
                for g_ in gen:
                    rep.add(unit, f'parameter `{g_}` of generated {m.name}() stands next to user-chosen parameters and cannot collide (underscore) {tag}',
                            'syntactic', g_.startswith('_') or not user, detail={'function': f'{cdef.name}.{m.name}', 'user_params': user})
                # names the body READS from outside (globals, builtins) while user-chosen parameter names are in scope: a field / parameter
                # of that name shadows them inside this function only - finer than the module-level shadowing of item 4
                if user:
                    local = set(astutil.params_of(m)) | {t.id for t in ast.walk(m) if isinstance(t, ast.Name) and isinstance(t.ctx, ast.Store)}
                    for lam_ in [x for x in ast.walk(m) if isinstance(x, ast.Lambda)]:
                        local |= set(astutil.params_of(lam_))
                    outside = sorted({t.id for st_ in m.body for t in ast.walk(st_) if isinstance(t, ast.Name) and isinstance(t.ctx, ast.Load) and t.id not in local})   # decorators are evaluated outside
                    for o_ in outside:
                        rep.add(unit, f'`{o_}`, read inside generated {m.name}() next to user-chosen parameters, cannot be shadowed by one of them (underscore or documented API) {tag}',
                                'syntactic', o_.startswith('_') or o_ in DOCUMENTED_API, detail={'function': f'{cdef.name}.{m.name}', 'user_params': user})
                for lam in [x for x in ast.walk(m) if isinstance(x, ast.Lambda)]:
                    inner_user = {t.id for t in ast.walk(lam.body) if isinstance(t, ast.Name) and t.id.startswith('U_')}
                    rep.add(unit, f'the callable returned by {cdef.name}.{m.name}() does not mention user names under its own parameters {tag}', 'syntactic',
                            not inner_user, detail={'mentions': sorted(inner_user)})
        # 3. module scope: names the module defines for itself vs user globals
        defined = set()
        for n in tree.body:
            if isinstance(n, (ast.FunctionDef, ast.ClassDef)):
                defined.add(n.name)
            elif isinstance(n, ast.Assign):
                for t in ast.walk(n):
                    if isinstance(t, ast.Name) and isinstance(t.ctx, ast.Store):
                        defined.add(t.id)
            elif isinstance(n, (ast.Import, ast.ImportFrom)):
                for a in n.names:
                    defined.add(a.asname or a.name)
        for name in sorted({re.sub(r'\d+$', '<n>', d) for d in defined if not d.startswith('U_') and d != 'start'}):
            rep.add(unit, f'module-level `{name}` cannot collide with a user rule or class (underscore, or documented API) {tag}', 'syntactic',
                    name.startswith('_') or name in DOCUMENTED_API, detail=None)
        # 4. builtins that generated code or the run-time library reach by bare name: a user rule/class of that name shadows them
        used = set()
        for fn in [n for n in ast.walk(tree) if isinstance(n, (ast.FunctionDef, ast.Lambda))]:
            local = set(astutil.params_of(fn)) | {t.id for t in ast.walk(fn) if isinstance(t, ast.Name) and isinstance(t.ctx, ast.Store)}
            for t in ast.walk(fn):
                if isinstance(t, ast.Name) and isinstance(t.ctx, ast.Load) and t.id in astutil.BUILTINS and t.id not in local and t.id not in defined:
                    used.add(t.id)
        for n in tree.body:
            if not isinstance(n, (ast.FunctionDef, ast.ClassDef)):
                for t in ast.walk(n):
                    if isinstance(t, ast.Name) and isinstance(t.ctx, ast.Load) and t.id in astutil.BUILTINS and t.id not in defined:
                        used.add(t.id)
        user_code = {'int', 'len'}     # reached from the grammar's own inline python in C20_GRAMMAR
        for b in sorted(used):
            rep.add(unit, f'builtin `{b}` is not reached by bare name from generated code (a user rule/class named `{b}` would shadow it) {tag}', 'syntactic',
                    False if b not in user_code or b == 'len' else True, detail=None)


def spelling_independence_obligations(rep, tier, unit='syntactic:generator-ignores-spelling'):
    """the generator branches on the spelling of a user name only where the language says so: `start` (case-insensitive), the leading
    underscore rule, the constructor names, `super`"""
    import os
    from pyvc import paths
    root = os.path.join(paths.REPO, 'sourcer')
    files = [os.path.join(root, 'translator.py')] + [os.path.join(root, 'expressions', f) for f in sorted(os.listdir(os.path.join(root, 'expressions'))) if f.endswith('.py')]
    allowed = ("name.lower() == 'start'", "startswith('_')", '_is_expression_constructor', "name == 'super'", 'rule_names', 'visited_names', 'is_bound',
               '_counts', "hasattr(stmt, 'name')", 'not rule.name', 'name is None', 'rule.name is not None', 'node.name and', 'member.name', 'x.name', 'name in which',
               'name is None else', "stmt.name.lower() == 'start'", 'len(names)', 'if name is None', 'self.name if', 'left.name')
    for path in files:
        tree = ast.parse(open(path).read())
        bad = []
        for n in ast.walk(tree):
            test = None
            if isinstance(n, (ast.If, ast.While, ast.IfExp)):
                test = n.test
            if test is None:
                continue
            t = ast.unparse(test)
            if re_search_name(t) and not any(a in t for a in allowed):
                bad.append(t[:90])
        rep.add(unit, f'{os.path.relpath(path, paths.REPO)}: no branch on the spelling of a user name beyond the documented ones', 'syntactic', not bad, detail={'tests': bad})


def re_search_name(t):
    import re
    return re.search(r'\b(name|names)\b', t) is not None and re.search(r'(==|!=|\bin\b|startswith|endswith|lower|upper|isdigit|\[)', t) is not None


# ---------------------------------------------------------------------------------------------- C19 spellings
def spelling_obligations(rep, tier, unit='wiring:spellings'):
    from sourcer import parser as P
    F2 = [(a, b) for a in frag.FLAGS for b in frag.FLAGS]
    F1 = [(a,) for a in frag.FLAGS]
    F1na = [(a,) for a in frag.FLAGS if a != (True, False)]
    pairs = [
        ('X1?', 'Opt(X1)', F1), ('X1*', 'List(X1)', F1na), ('X1+', 'Some(X1)', F1na), ('X1 >> X2', 'Right(X1, X2)', F2), ('X1 << X2', 'Left(X1, X2)', F2),
        ('X1 | X2', 'Choice(X1, X2)', F2), ('[X1, X2]', 'Seq(X1, X2)', F2), ('X1 // X2', 'Sep(X1, X2)', [f for f in F2 if f[0] != (True, False)]),
        ('X1 /? X2', 'Sep(X1, X2, allow_trailer=True)', [f for f in F2 if f[0] != (True, False)]),
        ('X1{2,5}', 'List(X1, min_len=2, max_len=5)', F1na), ('X1{2,10}', 'List(X1, min_len=2, max_len=10)', F1na), ('X1{9,12}', 'List(X1, min_len=9, max_len=12)', F1na),
        ('X1{3}', 'List(X1, min_len=3, max_len=3)', F1na), ('X1{2,}', 'List(X1, min_len=2)', F1na), ('X1{,4}', 'List(X1, max_len=4)', F1),
        ('X1{0,1}', 'List(X1, min_len=0, max_len=1)', F1), ('X1{1,}', 'List(X1, min_len=1)', F1na),
        ('X1{0}', 'List(X1, min_len=0, max_len=0)', F1), ('X1{,0}', 'List(X1, max_len=0)', F1), ('X1{0,}', 'List(X1, min_len=0)', F1na), ('X1{0,0}', 'List(X1, min_len=0, max_len=0)', F1),
        ('X1{1}', 'List(X1, min_len=1, max_len=1)', F1na), ('X1{1,1}', 'List(X1, min_len=1, max_len=1)', F1na), ('X1{n}', 'List(X1, min_len=`"n"`, max_len=`"n"`)', F1na),
    ]
    for a, b, flags in pairs:
        try:
            ok, d = True, None
            for fl in flags:
                for ctx in (False, True):
                    sa = [Stub(i + 1, *f) for i, f in enumerate(fl)]
                    sb = [Stub(i + 1, *f) for i, f in enumerate(fl)]
                    na = front.substitute_stubs(front.expr_of(a), dict(zip(('X1', 'X2'), sa)))
                    nb = front.substitute_stubs(front.expr_of(b), dict(zip(('X1', 'X2'), sb)))
                    ta, tb = frag.emit(na, ctx), frag.emit(nb, ctx)
                    if ast.dump(ast.parse(ta)) != ast.dump(ast.parse(tb)):          # identical up to comments
                        ok, d = False, {'flags': fl, 'ctx': ctx, 'a': ta, 'b': tb}
                        break
                if not ok:
                    break
        except Exception as e:
            ok, d = False, {'raised': repr(e)[:300]}
        rep.add(unit, f'`{a}` and `{b}` emit textually identical code for every child-flag combination and both conventions', 'case_complete', ok, detail=d)
    # renderings: identical syntax trees
    def tree(desc):
        try:
            return repr(P.parse(desc))
        except Exception as e:
            return f'{type(e).__name__}: {str(e)[:80]}'
    base = ('R1 {s1} "a" | B\nclass K {{\n f1 {s2} "x"\n let f2 {s3} B\n}}\nL {s1} let v {s4} "q" in v\nC {s1} T(k1 {s5} "z")\nT(k1) {s1} k1\nB {s1} "b"')
    ref = tree(base.format(s1='=', s2=':', s3=':', s4='=', s5='='))
    for pos, key in (('rule definition', 's1'), ('class field', 's2'), ('let class field', 's3'), ('let expression', 's4'), ('keyword argument', 's5')):
        for sep in ('=>', '=', ':'):
            kw = dict(s1='=', s2=':', s3=':', s4='=', s5='=')
            kw[key] = sep
            rep.add(unit, f'`{sep}` in a {pos} gives the same syntax tree as the other separators', 'ground', tree(base.format(**kw)) == ref,
                    detail={'got': tree(base.format(**kw))[:160]})
    variants = {
        'newline vs ; between statements': ('A = "a"\nB = "b"\nC = [A, B]', 'A = "a"; B = "b"; C = [A, B]'),
        'comments and blank lines': ('A = "a"\nB = "b"', '# head\n\nA = "a"  # tail\n\n\n# mid\nB = "b"\n\n'),
        'line breaks around binary operators': ('A = "a" | "b" >> "c" // "," |> `f` where `g`', 'A = "a"\n  | "b"\n  >> "c"\n  // ","\n  |> `f`\n  where `g`'),
        'line break after an operator': ('A = "a" | "b" << "c"', 'A = "a" |\n  "b" <<\n  "c"'),
        'redundant parentheses': ('A = "a" | ["b", "c"?]', 'A = (("a")) | ([("b"), (("c")?)])'),
        'ignore vs ignored (named)': ('ignore S = " "\nA = "a"', 'ignored S = " "\nA = "a"'),
        'ignore vs ignored (anonymous)': ('ignore " "\nA = "a"', 'ignored " "\nA = "a"'),
        'override vs overrides': ('grammar b extends a\noverride A = "a"', 'grammar b extends a\noverrides A = "a"'),
        'statement separators inside a class': ('class K {\n a: "a"\n b: "b"\n}', 'class K { a: "a"; b: "b" }'),
        'layout inside lists and argument lists': ('A = ["a", T("b", k="c")]', 'A = [\n  "a"\n  ,\n  T(\n    "b"\n    , k="c"\n  )\n]'),
    }
    for name, (a, b) in variants.items():
        rep.add(unit, f'{name}: same syntax tree', 'ground', tree(a) == tree(b) and not tree(a).startswith(('ParseError', 'PartialParseError')),
                detail={'a': tree(a)[:160], 'b': tree(b)[:160]})
    # layout family: every line break of a laid-out rendering replaced by blank lines / comment lines / trailing comments
    import re as _re

    def tree_nl(desc):          # the operator-table node keeps the layout text after each row (`tail`): not part of the meaning
        return _re.sub(r"tail=(None|\[[^\]]*\])", 'tail=_', tree(desc))
    layouts = {
        'binary operators at line starts': ('A = "a" | "b" >> "c" // "," |> `f` where `g`', 'A = "a"\n  | "b"\n  >> "c"\n  // ","\n  |> `f`\n  where `g`'),
        'binary operators at line ends': ('A = "a" | "b" << "c"', 'A = "a" |\n  "b" <<\n  "c"'),
        'lists and argument lists': ('A = ["a", T("b", k="c")]', 'A = [\n  "a"\n  ,\n  T(\n    "b"\n    , k="c"\n  )\n]'),
        'class body': ('class K { a: "a"; b: "b" }', 'class K {\n a: "a"\n b: "b"\n}'),
        'statements': ('A = "a"; B = "b"; C = [A, B]', 'A = "a"\nB = "b"\nC = [A, B]'),
        'operator table': ('E = "n" between { left: "+", "-"; prefix: "!" }', 'E = "n" between {\n left: "+", "-"\n prefix: "!"\n}'),
        'parenthesised group': ('A = ("a" | "b")+', 'A = (\n "a"\n | "b"\n)+'),
        'let body': ('A = let x = "a" in x', 'A = let x = "a" in\n x'),
        'parameter list': ('T(a, b) = [a, b]', 'T(\n a,\n b\n) = [a, b]'),
    }
    fillers = {'line break': '\n', 'blank line': '\n\n', 'comment line': '\n# c\n', 'indented comment lines and a blank line': '\n   # c1\n\n  # c2\n', 'trailing comment': '  # t\n'}
    for lname, (a, b) in layouts.items():
        ta = tree_nl(a)
        for fname, fill in fillers.items():
            tb = tree_nl(b.replace('\n', fill))
            rep.add(unit, f'layout [{lname}] with every line break rendered as {fname}: same syntax tree as the one-line form', 'ground',
                    ta == tb and not ta.startswith(('ParseError', 'PartialParseError')), detail={'a': ta[:160], 'b': tb[:160]})
    # a bare expression is `start = expr`
    from pyvc import locate
    _pg = locate.parse_grammar()
    pa, pb = _pg('"a" | "b"+'), _pg('start = "a" | "b"+')
    rep.add(unit, 'a bare expression is the rule start = <expression>', 'ground', repr(pa.body) == repr(pb.body), detail={'a': repr(pa.body)[:200], 'b': repr(pb.body)[:200]})
    # grouping: postfix tightest, then // /?, then << >>, then <| |> where, then |; binary operators associate to the left
    def shape(e):
        if isinstance(e, X.Str):
            return e.value
        if isinstance(e, X.Opt):
            return ('?', shape(e.expr))
        if isinstance(e, X.List):
            return ('*' if e.min_len is None else '+', shape(e.expr))
        if isinstance(e, X.Sep):
            return ('/?' if e.allow_trailer else '//', shape(e.expr), shape(e.separator))
        if isinstance(e, X.Discard):
            return ('>>' if e.discard_left else '<<', shape(e.expr1), shape(e.expr2))
        if isinstance(e, X.Apply):
            return ('<|' if e.apply_left else '|>', shape(e.expr1), shape(e.expr2))
        if isinstance(e, X.Where):
            return ('where', shape(e.expr), shape(e.predicate))
        if isinstance(e, X.Choice):
            return ('|',) + tuple(shape(x) for x in e.exprs)
        if isinstance(e, X.PythonExpression):
            return '`' + e.source_code + '`'
        return type(e).__name__
    groupings = [
        ('"a" // "b"?', ('//', 'a', ('?', 'b'))), ('"a" << "b" // "c"', ('<<', 'a', ('//', 'b', 'c'))), ('"a" /? "b" >> "c"', ('>>', ('/?', 'a', 'b'), 'c')),
        ('"a" |> `f` << "c"', ('|>', 'a', ('<<', '`f`', 'c'))), ('"a" >> "b" where `p`', ('where', ('>>', 'a', 'b'), '`p`')),
        ('"a" | "b" |> `f`', ('|', 'a', ('|>', 'b', '`f`'))), ('"a" where `p` | "c"', ('|', ('where', 'a', '`p`'), 'c')),
        ('"a" << "b" >> "c"', ('>>', ('<<', 'a', 'b'), 'c')), ('"a" >> "b" << "c"', ('<<', ('>>', 'a', 'b'), 'c')), ('"a" // "b" /? "c"', ('/?', ('//', 'a', 'b'), 'c')),
        ('"a" |> `f` <| "c"', ('<|', ('|>', 'a', '`f`'), 'c')), ('"a" <| "b" where `p` |> `g`', ('|>', ('where', ('<|', 'a', 'b'), '`p`'), '`g`')),
        ('"a"* // "b"+ >> "c"?', ('>>', ('//', ('*', 'a'), ('+', 'b')), ('?', 'c'))),
    ]
    for text, want in groupings:
        try:
            got = shape(front.expr_of(text))
        except Exception as e:
            got = repr(e)[:100]
        rep.add(unit, f'`{text}` groups as {want}', 'ground', got == want, detail={'got': got})
    # the table in grammar.txt itself
    import os
    from pyvc import paths
    gt = P.parse(open(os.path.join(paths.REPO, 'grammar.txt')).read())
    rows = None
    for st in gt.body:
        if isinstance(st, P.RuleDef) and st.name == 'Expr' and isinstance(st.expr, P.Postfix) and isinstance(st.expr.operator, P.OperatorTable):
            rows = [(r.associativity, ' '.join(sorted(set(__import__('re').findall(r"value='\"([^\"]+)\"'", repr(r.operators)))))) for r in st.expr.operator.rows]
    want_rows = [('mixfix', '('), ('postfix', ''), ('postfix', '* + ?'), ('left', '// /?'), ('left', '<< >>'), ('left', '<| where |>'), ('left', '|'), ('postfix', '')]
    rep.add(unit, 'grammar.txt: the Expr table lists, in this order, postfix forms, // /?, << >>, <| |> where, |, all binary rows left-associative', 'ground',
            rows is not None and [r[0] for r in rows] == [w[0] for w in want_rows] and all(set(r[1].split()) >= set(w[1].split()) - {'('} for r, w in zip(rows, want_rows)),
            detail={'rows': rows})


# ---------------------------------------------------------------------------------------------- C18 isolation (frame / ownership)
def _fresh_locals(fn):
    """locals of fn that are bound (everywhere in fn) only to freshly allocated containers / objects: displays, comprehensions, constructor calls"""
    fresh, other = set(), set()
    for n in ast.walk(fn):
        if isinstance(n, ast.Assign):
            for t in n.targets:
                for nm in [t] if isinstance(t, ast.Name) else []:
                    v = n.value
                    is_fresh = isinstance(v, (ast.List, ast.Dict, ast.Set, ast.ListComp, ast.DictComp, ast.SetComp, ast.Tuple)) or \
                        (isinstance(v, ast.Call) and ast.unparse(v.func) in ('set', 'dict', 'list', '_Metadata', '_StringLiteral', '_ByteLiteral')) or \
                        (isinstance(v, ast.Call) and (ast.unparse(v.func)[:1].isupper() or ast.unparse(v.func) in ('self.__class__',))) or \
                        (isinstance(v, ast.Subscript) and isinstance(v.value, ast.Name) and v.value.id in fresh)
                    (fresh if is_fresh else other).add(nm.id)
    return fresh - other


def isolation_obligations(rep, tier, unit='wiring:isolation'):
    """write frames: a parse activation writes only objects it allocated itself; module-level state is written only at import"""
    from pyvc import runtime
    import re
    # run-time library
    src, tree, defs = runtime.runtime(False)
    mod_level = {t.id for n in tree.body if isinstance(n, ast.Assign) for t in ast.walk(n) if isinstance(t, ast.Name) and isinstance(t.ctx, ast.Store)}
    for ctxv in (False, True):
        src, tree, defs = runtime.runtime(ctxv)
        for name, fn in sorted(defs.items()):
            if not isinstance(fn, ast.FunctionDef):
                continue
            params = set(astutil.params_of(fn))
            fresh = _fresh_locals(fn)
            bad = []
            for n in ast.walk(fn):
                if isinstance(n, (ast.Global, ast.Nonlocal)):
                    bad.append(ast.unparse(n))
                if isinstance(n, (ast.Attribute, ast.Subscript)) and isinstance(n.ctx, (ast.Store, ast.Del)):
                    base = n.value
                    while isinstance(base, (ast.Attribute, ast.Subscript)):
                        base = base.value
                    b = base.id if isinstance(base, ast.Name) else ast.unparse(base)
                    ok = b in fresh or (b == 'self' and name.split('.')[-1] in ('__init__', '__setattr__', '__hash__')) or \
                        (b == 'result' and b in {t.id for x in ast.walk(fn) if isinstance(x, ast.Assign) for t in x.targets if isinstance(t, ast.Name)}) or \
                        (name == '_finalize_parse_info' and isinstance(n, ast.Attribute) and n.attr == 'position_info') or \
                        (name.startswith('_Metadata.') and b == 'self') or (name == 'ParsedObject._replace' and b == 'kw')
                    if not ok:
                        bad.append(ast.unparse(n))
                if isinstance(n, ast.Call) and isinstance(n.func, ast.Attribute) and n.func.attr in ('append', 'add', 'update', 'setdefault', 'extend', 'pop', 'clear', 'insert', 'remove', 'discard') \
                        and isinstance(n.func.value, ast.Name) and n.func.value.id not in fresh and n.func.value.id not in ('stack',):
                    if n.func.value.id in mod_level or (n.func.value.id not in params and n.func.value.id not in {t.id for x in ast.walk(fn) for t in ([x] if isinstance(x, ast.Name) and isinstance(x.ctx, ast.Store) else [])}):
                        bad.append(ast.unparse(n)[:60])
            rep.add(unit, f'run-time {name}: stores only into objects allocated in the same activation (or the documented target) [ctx={int(ctxv)}]', 'syntactic',
                    not bad, detail={'stores': bad})
    # the two known non-fresh writes are contract obligations elsewhere: position_info of instances of THIS call's result (FinalizeC frame, C10),
    # metadata of a callback's return value (C16 known finding)
    for gname, desc in list(C11_GRAMMARS.items()) + [('all-forms', C20_GRAMMAR)]:
        for named in (False, True):
            text = (f'grammar c18iso_{re.sub("[^a-z]", "_", gname)}\n' if named else '') + desc
            src = runtime.generated_module_source(text)
            tree = ast.parse(src)
            tag = f'[{gname},named={int(named)}]'
            rt_names = set(runtime.runtime(named)[2]) | {'_ctx', '_super_ctx', '_Context', '_nt', '_compile_re', '_IGNORECASE', '_Position', '_PositionInfo', '_Traversing'}
            mod_assigned = {t.id for n in tree.body if isinstance(n, ast.Assign) for t in ast.walk(n) if isinstance(t, ast.Name) and isinstance(t.ctx, ast.Store)}
            classes = {n.name for n in tree.body if isinstance(n, ast.ClassDef)}
            fnames = {n.name for n in tree.body if isinstance(n, ast.FunctionDef)}
            bad_store, bad_read = [], []
            for fn in [n for n in tree.body if isinstance(n, ast.FunctionDef) and n.name.startswith(('_try_', '_parse_function_', '_raise_error'))]:
                local = set(astutil.params_of(fn)) | {t.id for t in ast.walk(fn) if isinstance(t, ast.Name) and isinstance(t.ctx, ast.Store)}
                for lam in [x for x in ast.walk(fn) if isinstance(x, ast.Lambda)]:
                    local |= set(astutil.params_of(lam))           # parameters of inline lambdas (user code, operator taggers)
                fresh = _fresh_locals(fn)
                for n in ast.walk(fn):
                    if isinstance(n, (ast.Global, ast.Nonlocal)):
                        bad_store.append((fn.name, ast.unparse(n)))
                    if isinstance(n, (ast.Attribute, ast.Subscript)) and isinstance(n.ctx, (ast.Store, ast.Del)) and ast.unparse(n) != '_result._metadata.position_info':
                        base = n.value
                        while isinstance(base, (ast.Attribute, ast.Subscript)):
                            base = base.value
                        # element / slice stores and deletions on a list allocated by this activation (del stack[k:]) stay inside its frame
                        if not (isinstance(n, ast.Subscript) and isinstance(base, ast.Name) and base.id in fresh):
                            bad_store.append((fn.name, ast.unparse(n)))
                    if isinstance(n, ast.Call) and isinstance(n.func, ast.Attribute) and n.func.attr in ('append', 'pop', 'extend', 'add', 'update', 'clear', 'insert', 'remove') \
                            and isinstance(n.func.value, ast.Name) and n.func.value.id not in fresh:
                        bad_store.append((fn.name, ast.unparse(n)[:50]))
                    if isinstance(n, ast.Name) and isinstance(n.ctx, ast.Load) and n.id not in local and n.id not in astutil.BUILTINS:
                        ok = n.id.startswith(('_try_', '_raise_error', '_parse_function_', 'matcher')) or n.id in rt_names or n.id in classes or n.id in fnames \
                            or (gname == 'python' and n.id == 'math') or n.id.startswith('U_') or n.id in ('int',)
                        if not ok:
                            bad_read.append((fn.name, n.id))
            rep.add(unit, f'emitted rule / helper / error functions assign only locals, mutate only lists of their own activation, store only the span of the instance just built {tag}',
                    'syntactic', not bad_store, detail={'stores': bad_store[:6]})
            rep.add(unit, f'emitted rule code reads no module-level DATA besides compiled matchers, implementations, error functions, the context and the run-time library {tag}',
                    'syntactic', not bad_read, detail={'reads': sorted(set(bad_read))[:6]})
            # matchers are bound methods of compiled patterns (immutable, thread-safe by the re contract)
            others = sorted(m for m in mod_assigned if not m.startswith(('matcher', '_ctx', '_Position', '_PositionInfo', '_Traversing')) and m not in classes
                            and not any(isinstance(n, ast.Assign) and isinstance(n.value, ast.Call) and ast.unparse(n.value.func) == 'ParsingRule' and ast.unparse(n.targets[0]) == m for n in tree.body))
            rep.add(unit, f'module-level data are only: compiled matchers, rule objects, the context, named tuples {tag}', 'syntactic', not others, detail={'others': others})


# ---------------------------------------------------------------------------------------------- A-subst (backing check)
CHILD_INTERFACE = {
    # what a parent (or a generator pass) may read of a child: the contract interface ...
    'compile', 'always_succeeds', 'can_partially_succeed',
    # ... text for comments / messages only, constants of omitted members, passes over the tree
    'operand_string', 'constantize', '__dict__', 'program_id', 'precompile', 'skip_ignored', 'extra_id',
    # ... argument passing (Call) and reference resolution passes
    'argumentize', 'is_reference', 'is_local', 'defines_local', 'has_params', 'params', 'name', 'complain', 'exprs',
}


def a_subst_obligations(rep, tier, unit='backing:A-subst'):
    """DYNAMIC backing of A-subst: every attribute of an abstract child that was read from outside the child while the real generator
    ran over it (all units of this check) belongs to the interface above - so replacing the stub by any real expression with the
    same flags changes the emitted text only at the marker"""
    seen = {}
    for attr, fn, file in sorted(rep.child_access):
        seen.setdefault(attr, set()).add(f'{file}:{fn}')
    rep.add(unit, f'{len(rep.child_access)} recorded reads of child attributes were made', 'syntactic', len(rep.child_access) > 0)
    for attr, where in sorted(seen.items()):
        rep.add(unit, f'child attribute `{attr}` read by the generator is part of the child interface', 'syntactic', attr in CHILD_INTERFACE,
                detail={'read_in': sorted(where)})


def a_uniform_obligations(rep, tier, unit='backing:A-uniform'):
    """SYNTACTIC backing of A-uniform: inside _compile (and the two flag methods) of every expression class, the tests of if / while /
    conditional expressions read only configuration attributes of self, the children's two flags, flags.uses_context, loop positions
    and the literal value's emptiness - never the concrete literal text or the arity beyond `i + 1 < len(...)` / `len(...) == 1` / emptiness"""
    import os
    from pyvc import paths
    root = os.path.join(paths.REPO, 'sourcer', 'expressions')
    ok_tokens = ('self.', 'expr.', 'x.', 'flags.uses_context', 'i ', 'i+', 'len(', 'name', 'which', 'cargs', 'needs_', 'is_kw', 'isinstance(', 'member.',
                 'const_value', 'class_attrs', 'not ', 'None', 'can_partially_succeed', 'always_succeeds', 'out.has_available_blocks', 'arg', 'rows', 'operators',
                 'associativity', 'exprs', 'params', 'postvisitor', 'child', 'node.')
    for f in sorted(os.listdir(root)):
        if not f.endswith('.py') or f in ('__init__.py', 'constants.py'):
            continue
        tree = ast.parse(open(os.path.join(root, f)).read())
        bad = []
        for fn in [n for n in ast.walk(tree) if isinstance(n, ast.FunctionDef) and n.name in ('_compile', 'always_succeeds', 'can_partially_succeed', 'compile', '_compile_class_body')]:
            for n in ast.walk(fn):
                test = n.test if isinstance(n, (ast.If, ast.While, ast.IfExp)) else None
                if test is None:
                    continue
                t = ast.unparse(test)
                # reads of the literal payload in a test are only allowed as emptiness / 0 / 1 checks
                payload = [m for m in ('self.value', 'self.pattern', 'self.amount', 'self.min_len', 'self.max_len', 'self.message') if m in t]
                for m in payload:
                    rest = t.replace(f'not {m}', '').replace(f'{m} is None', '').replace(f'{m} is not None', '').replace(f'{m} == 0', '').replace(f"{m} == '0'", '') \
                        .replace(f'{m} == 1', '').replace(f"{m} == '1'", '')
                    if m in rest:
                        bad.append(t[:80])
        rep.add(unit, f'{f}: generator branches read literal payloads only as empty / None / 0 / 1 tests', 'syntactic', not bad, detail={'tests': bad})


def rule_wrapper_obligations(rep, tier, unit='wiring:Rule._compile'):
    """Rule._compile: the implementation `_try_R([_ctx,] _text, _pos, *params)` is a generator whose body is exactly the fragment of the
    rule's expression followed by `yield (_status, _result, _pos)` - the generator protocol _run relies on: every yield is a request
    (CALL, f, p) made by a verified fragment, the last one is the final triple"""
    from contracts.call import _ref
    bodies = {
        'abstract body': lambda: Stub(1, False, True),
        'sequence with a rule reference': lambda: X.Seq(Stub(1, False, True), _ref('A')),
        'choice over literals': lambda: X.Choice(X.Str('a'), X.Regex('b+')),
    }
    for bname, mk in bodies.items():
        for params in (None, ['p', 'q']):
            for ctx in (False, True):
                rule = X.Rule('R', params, mk())
                src = frag.emit(rule, ctx)
                tree = ast.parse(src)
                tag = f'[{bname},params={params},ctx={int(ctx)}]'
                fn = next((n for n in tree.body if isinstance(n, ast.FunctionDef) and n.name == '_try_R'), None)
                want_params = (['_ctx'] if ctx else []) + ['_text', '_pos'] + (params or [])
                rep.add(unit, f'_try_R takes ([_ctx,] _text, _pos, *params) {tag}', 'case_complete', fn is not None and astutil.params_of(fn) == want_params)
                if fn is None:
                    continue
                want = [w for w in ast.parse(frag.emit(mk(), ctx)).body if not (isinstance(w, ast.Assign) and ast.unparse(w.targets[0]).startswith('matcher'))]
                same = len(fn.body) == len(want) + 1 and all(_same_modulo_ids(a, b) for a, b in zip(fn.body, want)) \
                    and ast.unparse(fn.body[-1]) == 'yield (_status, _result, _pos)'
                rep.add(unit, f'body = the fragment of the rule expression + `yield (_status, _result, _pos)` {tag}', 'case_complete', same, detail={'src': src})
                ys = [y for y in ast.walk(fn) if isinstance(y, ast.Yield)]
                proto = all(isinstance(y.value, ast.Tuple) and len(y.value.elts) == 3 for y in ys) and \
                    all(ast.unparse(y.value.elts[0]) == '3' for y in ys[:-1] if y is not fn.body[-1].value)
                rep.add(unit, f'every yield is a request (CALL, f, p) or the final triple {tag}', 'case_complete', proto)


def metadata_obligations(rep, tier, unit='ground:_Metadata'):
    """_Metadata / ParsedObject.__init__ executed on sentinels (straight-line, parametric in the values: one execution per shape of the
    field dicts - empty / disjoint / overlapping keys - decides the data flow).  These are the callee contracts that C10, C14 and C16 assume."""
    from pyvc.rtver import native_namespace
    for ctx in (False, True):
        ns = native_namespace(ctx)
        M, PO = ns['_Metadata'], ns['ParsedObject']
        a, b, c = object(), object(), object()
        tag = f'[ctx={int(ctx)}]'
        m = M()
        rep.add(unit, f'a new _Metadata is empty, falsy, and answers None for any ordinary name {tag}', 'ground',
                len(m) == 0 and not m and m.position_info is None and m.anything is None and m._fields == {})
        m.position_info = a
        rep.add(unit, f'setting an attribute stores it in the field dict only (no instance attribute) {tag}', 'ground',
                m.position_info is a and m._fields == {'position_info': a} and list(vars(m)) == ['_fields'] and len(m) == 1 and bool(m))
        m2 = M(x=b)
        m2.update(m)
        rep.add(unit, f'update(other) merges other\'s fields into self (disjoint keys) and leaves other untouched {tag}', 'ground',
                m2._fields == {'x': b, 'position_info': a} and m._fields == {'position_info': a})
        m3 = M(position_info=c, y=b)
        m3.update(m)
        rep.add(unit, f'update(other): other wins on a shared key, other keys are kept {tag}', 'ground', m3._fields == {'position_info': a, 'y': b})
        e = M()
        e.update(m)
        rep.add(unit, f'updating an EMPTY metadata with m gives exactly the contents of m (what _replace and transform rely on) {tag}', 'ground',
                e._fields == m._fields and e._fields is not m._fields)
        cp = m3.copy()
        rep.add(unit, f'copy() is a new _Metadata with an equal, independent field dict {tag}', 'ground',
                isinstance(cp, M) and cp is not m3 and cp._fields == m3._fields and cp._fields is not m3._fields)
        for name in ('__setstate__', '__deepcopy__', '__getstate__x__', '_fields'):
            blank = M.__new__(M)
            try:
                getattr(blank, name)
                ok = False
            except AttributeError:
                ok = True
            except RecursionError:
                ok = False
            rep.add(unit, f'an instance without __dict__ contents raises AttributeError for {name!r} (copy / pickle protocol) {tag}', 'ground', ok)
        o = PO()
        rep.add(unit, f'ParsedObject.__init__ gives every object its OWN empty metadata and an empty hash cache {tag}', 'ground',
                isinstance(o._metadata, M) and len(o._metadata) == 0 and o._hash is None and PO()._metadata is not o._metadata)


def _support_names_read_by_fragments():
    """global support names (defined by the run-time templates) that the code emitted for ANY expression can read: union, over one
    instance of every expression class (both context conventions, inline and spilled), of the template-defined names the emitted
    text loads.  By A-uniform the names a fragment reads do not depend on its children / literal arguments."""
    from pyvc import runtime, frag
    base = ast.parse(runtime.template_source(True))
    defined = set()
    for n in base.body:
        if isinstance(n, (ast.FunctionDef, ast.ClassDef)):
            defined.add(n.name)
        elif isinstance(n, (ast.Import, ast.ImportFrom)):
            defined.update((a.asname or a.name).split('.')[0] for a in n.names)
        elif isinstance(n, ast.Assign):
            defined.update(x.id for t in n.targets for x in ast.walk(t) if isinstance(x, ast.Name))
    builders, _ = _all_expression_builders()
    leaves = {'Str': lambda: X.Str('s'), 'Str(bytes)': lambda: X.Str(b's'), 'Regex': lambda: X.Regex('a+'), 'Regex(i)': lambda: X.Regex('a+', ignore_case=True),
              'Regex(bytes)': lambda: X.Regex(b'a+'), 'Byte': lambda: X.Byte(65), 'Ref': lambda: _ref('R'), 'Fail': lambda: X.Fail('m'), 'Pass': lambda: X.Pass(3),
              'PythonExpression': lambda: X.PythonExpression('f(1)'), 'Call(str arg)': lambda: X.Call(_ref('T'), [X.Str('a'), X.Str(b'b'), X.Byte(66), X.Regex('r')])}
    used = {}
    for name, mk in {**builders, **leaves}.items():
        for ctx in (False, True):
            for how in ('inline', 'spilled'):
                try:
                    e = mk()
                    src = frag.emit(e, ctx) if how == 'inline' else frag.emit_spilled(e, ctx)
                    tree = ast.parse(src)
                except Exception:
                    continue
                for t in ast.walk(tree):
                    if isinstance(t, ast.Name) and isinstance(t.ctx, ast.Load) and t.id in defined:
                        used.setdefault(t.id, set()).add(name)
    return used, defined


def derived_namespace_obligations(rep, tier, unit='wiring:derived-module-namespace'):
    """a derived grammar's module imports its run-time support from the parent: every support name that emitted code can read must be
    among the imports (or defined by the derived module itself), else a rule WRITTEN in the derived grammar raises NameError the first
    time that construct runs - inherited rules would not notice."""
    from string import Template
    from pyvc import locate, runtime
    used, defined = _support_names_read_by_fragments()
    rep.add(unit, 'fragments were emitted and read support names (vacuity)', 'schematic', len(used) >= 5, detail={'names': sorted(used)})
    setup = ast.parse(Template(locate.template('sub_setup')).safe_substitute(super_module='m'))
    body = ast.parse(Template(locate.template('sub_body')).safe_substitute(start='_try_start', ctx='_ctx'))
    bound = set()
    for tr in (setup, body):
        for n in tr.body:
            if isinstance(n, (ast.FunctionDef, ast.ClassDef)):
                bound.add(n.name)
            elif isinstance(n, (ast.Import, ast.ImportFrom)):
                bound.update((a.asname or a.name).split('.')[0] for a in n.names)
            elif isinstance(n, ast.Assign):
                bound.update(x.id for t in n.targets for x in ast.walk(t) if isinstance(x, ast.Name))
    imported = {a.name for n in setup.body if isinstance(n, ast.ImportFrom) for a in n.names}
    for name in sorted(used):
        rep.add(unit, f'support name {name} (read by emitted code of {", ".join(sorted(used[name]))[:80]}) is bound in a derived module', 'schematic',
                name in bound, detail={'bound_in_derived_module': sorted(bound)})
    missing = sorted(imported - defined - {'_ctx'})
    rep.add(unit, 'every name the derived module imports is defined by the base module', 'schematic', not missing, detail={'missing': missing})
    # user-visible API of a derived module = that of a base module
    api = sorted(n for n in defined if not n.startswith('_'))
    rep.add(unit, 'every public name of a base module is also a name of a derived module', 'schematic', set(api) <= bound, detail={'missing': sorted(set(api) - bound)})
    # a real derived module whose own rules use every construct: no unbound global
    import itertools
    seq = next(_DERIVED_SEQ)
    from sourcer import Grammar
    try:
        Grammar(f'grammar vns{seq}_base\nstart = "a"\n')
        d = Grammar(f'grammar vns{seq}_der extends vns{seq}_base\n' + C11_GRAMMARS['plain'].replace('start =', 'S2 =') + '\n' +
                    'E = Atom between {\n left: "+"\n prefix: "-"\n postfix: "!"\n right: "^"\n infix: "="\n}\nAtom = /[0-9]+/ |> `int` where `lambda n: n >= 0`\n'
                    'L = (A // ",") << B*\nM = T(0x41) | T(b"x") | T(/r/)\n', include_source=True)
        free = sorted(_free_globals(ast.parse(d._source_code)))
        rep.add(unit, 'a derived module whose own rules use every construct reads no unbound global', 'schematic', not free, detail={'free': free})
    except Exception as e:
        rep.add(unit, 'a derived module whose own rules use every construct reads no unbound global', 'schematic', False, detail={'error': repr(e)[:300]})


import itertools as _it
_DERIVED_SEQ = _it.count(1)


BINDER_CASES = {
    'rule parameter': 'start = T("#")\nT(mark) = %s\nW = /[a-z]+/',
    'class parameter': 'start = K("#")\nclass K(mark) {\n head: W\n body: %s\n}\nW = /[a-z]+/',
    'let': 'start = let mark = "#" in %s\nW = /[a-z]+/',
    'parameter of a template used through an inner let': 'start = T("#")\nT(p) = let mark = p in %s\nW = /[a-z]+/',
}


def frontend_capture_obligations(rep, tier, unit='wiring:captured-names-through-the-front-end'):
    """names bound by every kind of binder, used under nesting deep enough to force the generator to move the using expression into
    helper functions (real front end, real translator): no helper reads a name that is not its parameter / a module-level generated
    name / a run-time name, and every helper request passes the captured names on (so depth cannot turn a bound name into a NameError)"""
    from pyvc import runtime
    for title, desc in BINDER_CASES.items():
        for depth in (1, 25):
            inner = 'mark >> W'
            for _ in range(depth):
                inner = f'[{inner}]'
            for named in (False, True):
                tag = f'[{title},depth={depth},named={int(named)}]'
                text = ('grammar capturetest\n' if named else '') + desc % inner
                try:
                    src = runtime.generated_module_source(text)
                except Exception as e:
                    rep.add(unit, f'module is generated {tag}', 'case_complete', False, detail={'error': repr(e)[:300]})
                    continue
                defs, tree = helper_defs(src)
                if depth > 20:
                    rep.add(unit, f'nesting this deep is moved into helpers (vacuity) {tag}', 'case_complete', bool(defs), detail={'helpers': sorted(defs)})
                bad = {}
                module_level = {n.name for n in tree.body if isinstance(n, (ast.FunctionDef, ast.ClassDef))} | \
                    {x.id for n in tree.body if isinstance(n, ast.Assign) for t in n.targets for x in ast.walk(t) if isinstance(x, ast.Name)}
                for fn in [n for n in tree.body if isinstance(n, ast.FunctionDef) and (n.name.startswith('_parse_function_') or n.name.startswith('_try_'))]:
                    free = [f for f in unexpected_free(fn, named) if f not in module_level]
                    if free:
                        bad[fn.name] = free
                rep.add(unit, f'every generated function reads only its parameters, generated module-level names and run-time names {tag}', 'case_complete',
                        not bad, detail={'free': bad})
                # helpers that take `mark` are requested with it
                takes = {n for n, fn in defs.items() if 'mark' in astutil.params_of(fn)}
                wrapped = {}
                for n in ast.walk(tree):
                    if isinstance(n, ast.Call) and ast.unparse(n.func) == '_ParseFunction' and n.args and ast.unparse(n.args[0]) in takes:
                        wrapped[ast.unparse(n.args[0])] = [ast.unparse(x) for x in n.args[1].elts] if isinstance(n.args[1], ast.Tuple) else None
                miss = sorted(t for t in takes if 'mark' not in (wrapped.get(t) or []))
                rep.add(unit, f'every helper that takes the bound name is requested with its current value {tag}', 'case_complete', not miss,
                        detail={'missing': miss, 'wrapped': wrapped})


# ---------------------------------------------------------------------------------------------- front end: literals
def _regex_payload(e):
    """(pattern, ignore-case flag) of a Regex object, found by what they are rather than by attribute name"""
    pats = [v for v in vars(e).values() if isinstance(v, (str, bytes))]
    flags = [v for k, v in vars(e).items() if isinstance(v, bool) and 'case' in k.lower()]
    if len(pats) != 1 or len(flags) != 1:
        raise LookupError(f'cannot tell pattern / flag of {vars(e)}')
    return pats[0], flags[0]


def frontend_literal_obligations(rep, tier, unit='ground:front-end-literals'):
    """what the real front end (shipped parser + translator._create_parsing_expression) makes of each literal form: the expression object
    denotes exactly the documented language of the literal.  For case-insensitive literals and regex literals the object is a Regex:
    its pattern / flags are compared SEMANTICALLY with python's re on a family of probes built from the literal (itself, case variants,
    every one-character mutant, metacharacters replaced by the characters they would match if unescaped)."""
    import re as _re

    def expr(src):
        return front.expr_of(src)

    def probes(v):
        one = (lambda c: bytes([c])) if isinstance(v, bytes) else chr
        codes = list(v) if isinstance(v, bytes) else [ord(c) for c in v]
        out = {v, v.upper(), v.lower(), v.swapcase(), v + v[:1], v[:-1]}
        for i in range(len(codes)):
            for repl in (0x62, 0x41, 0x58, 0x30, 0x2E, 0x5C):
                out.add(type(v)().join(one(repl) if j == i else one(c) for j, c in enumerate(codes)))
            out.add(type(v)().join(one(c) for j, c in enumerate(codes) if j != i))
        return sorted(out)
    values = ['abc', 'a.c', '(x)', 'a+b', '[z]', 'k..', 'a|b', '^a$', 'a*', 'a?b', '{1}', 'a\\\\d', 'Straße'.encode('ascii', 'ignore').decode(), b'k..', b'a.c', b'(x)']
    for v in values:
        lit = ('b' if isinstance(v, bytes) else '') + '"' + (v.decode('latin-1') if isinstance(v, bytes) else v) + '"'
        raw = _re.sub(r'\\\\', r'\\', v.decode('latin-1') if isinstance(v, bytes) else v)
        val = raw.encode('latin-1') if isinstance(v, bytes) else raw
        # plain literal: a Str with exactly that value
        try:
            e = expr(lit)
            ok = isinstance(e, X.Str) and e.value == val and type(e.value) is type(val)
        except Exception as ex_:
            ok, e = False, repr(ex_)
        rep.add(unit, f'{lit}: a string literal is Str with exactly its value', 'ground', ok, detail={'got': repr(getattr(e, 'value', e))[:80]})
        # case-insensitive literal: matches exactly the strings equal to the value up to case
        try:
            e = expr(lit + 'i')
            if isinstance(e, X.Regex):
                pat, icase = _regex_payload(e)
                flags = _re.IGNORECASE if icase else 0
                rx = _re.compile(pat, flags)
                wrong = [p for p in probes(val) if (rx.fullmatch(p) is not None) != (p.lower() == val.lower())]
                ok = not wrong and type(pat) is type(val)
                d = {'pattern': repr(pat), 'ignore_case': icase, 'wrong_on': [repr(w) for w in wrong[:4]]}
            else:
                ok, d = False, {'got': repr(e)[:80]}
        except Exception as ex_:
            ok, d = False, {'raised': repr(ex_)[:200]}
        rep.add(unit, f'{lit}i: a case-insensitive literal matches exactly its value up to case (metacharacters are not operators)', 'ground', ok, detail=d)
    # regex literals keep their pattern; the i suffix is the only flag
    for src, pat, ic in (('/a.c/', 'a.c', False), ('/a.c/i', 'a.c', True), ('b/[0-9]+/', b'[0-9]+', False), ('/x\\/y/', 'x/y', False),
                         # every spelling of prefix and suffix the meta-grammar accepts ([bB]? ... [iI]?)
                         ('B/[0-9]+/', b'[0-9]+', False), ('/a.c/I', 'a.c', True), ('b/a.c/i', b'a.c', True), ('B/a.c/I', b'a.c', True)):
        try:
            e = expr(src)
            got = _regex_payload(e)
            rx_a, rx_b = _re.compile(got[0], _re.IGNORECASE if got[1] else 0), _re.compile(pat, _re.IGNORECASE if ic else 0)
            pr = ['a.c', 'abc', 'ABC', 'a/c', 'x/y', 'xy', '12', ''] if isinstance(pat, str) else [b'12', b'a', b'', b'abc', b'ABC', b'/12', b'/abc']
            ok = isinstance(e, X.Regex) and got[1] == ic and type(got[0]) is type(pat) and all((rx_a.fullmatch(p) is None) == (rx_b.fullmatch(p) is None) for p in pr)
        except Exception as ex_:
            ok, got = False, repr(ex_)
        rep.add(unit, f'{src}: a regex literal is Regex with its own pattern and the i suffix as its only flag', 'ground', ok, detail={'got': repr(got)[:120]})
    for src, b in (('0x41', 0x41), ('0x00', 0), ('0xff', 255), ('0xFF', 255)):
        try:
            e = expr(src)
            ok = isinstance(e, X.Byte) and e.value == b
        except Exception as ex_:
            ok, e = False, repr(ex_)
        rep.add(unit, f'{src}: a byte literal is Byte with that value', 'ground', ok, detail={'got': repr(getattr(e, 'value', e))[:60]})


def pickle_lookup_obligations(rep, tier, unit='ground:pickle-by-reference'):
    """contract of the dependency (pickle, copyreg): an instance is pickled by REFERENCE to its class, found again as
    getattr(sys.modules[cls.__module__], cls.__qualname__) - which must be that very class.  Decided for every class of a generated module
    installed under a name (own classes, Infix / Prefix / Postfix, the metadata and position records), and for a derived module."""
    import sys
    from sourcer import Grammar
    seq = next(_DERIVED_SEQ)
    base = Grammar(f'grammar vpk{seq}_a\nstart = E\nclass Num {{\n v: /[0-9]+/\n}}\nE = Num between {{\n left: "+"\n prefix: "-"\n postfix: "!"\n}}\n')
    der = Grammar(f'grammar vpk{seq}_b extends vpk{seq}_a\nclass Name {{\n v: /[a-z]+/\n}}\nF = Name | E\n')
    for mod in (base, der):
        classes = {k: v for k, v in vars(mod).items() if isinstance(v, type) and not issubclass(v, BaseException)}
        rep.add(unit, f'{mod.__name__}: the module is importable by its name', 'ground', sys.modules.get(mod.__name__) is mod)
        for k, cls in sorted(classes.items()):
            owner = sys.modules.get(cls.__module__)
            found = getattr(owner, cls.__qualname__, None) if owner is not None else None
            rep.add(unit, f'{mod.__name__}.{k}: found again by (module, qualified name) = ({cls.__module__}, {cls.__qualname__})', 'ground', found is cls,
                    detail={'module': cls.__module__, 'qualname': cls.__qualname__, 'found': repr(found)[:80]})
    rep.add(unit, 'classes were examined (vacuity)', 'ground', len(classes) >= 6)


def frontend_definition_obligations(rep, tier, unit='ground:front-end-definitions'):
    """what the real front end makes of definitions: rule / template / class heads and every kind of class member (plain field, `let`
    field, `pass`, `requires`), with every separator spelling.  `requires c` must be an unnamed, omitted member that consumes nothing and
    succeeds exactly when c is truthy in the scope of the body - decided by EVALUATING the predicate the front end built."""
    def get(desc):
        return front.rules_of(desc)
    try:
        rules = get('class K(p, q) {\n a: "x"\n let b: "y"\n pass "z"\n requires `a == "x" and p`\n c => "w"\n let d = "v"\n}\n'
                    'T(m, n) = [m, n]\nPlain = "p"\nignore Sp = " "\nignore /#.*/\nU(k) => k')
    except Exception as e:
        rep.add(unit, 'the description is accepted', 'ground', False, detail={'raised': repr(e)[:300]})
        return
    by_name = {getattr(r, 'name', None): r for r in rules}
    K = by_name.get('K')
    okK = isinstance(K, X.Class) and list(K.params or []) == ['p', 'q'] and len(K.members) == 6
    rep.add(unit, 'class head: name and parameters in order', 'ground', okK, detail={'got': repr(getattr(K, 'params', None))})
    if okK:
        m = K.members
        want = [('a', False), ('b', True), (None, True), (None, True), ('c', False), ('d', True)]
        got = [(x.name, bool(x.is_omitted)) for x in m]
        rep.add(unit, 'class members: names and omitted flags of plain / let / pass / requires members, every separator spelling', 'ground', got == want,
                detail={'got': got, 'want': want})
        rep.add(unit, 'class members: a plain, let or pass member holds its own expression', 'ground',
                all(isinstance(m[i].expr, X.Str) and m[i].expr.value == v for i, v in ((0, 'x'), (1, 'y'), (2, 'z'), (4, 'w'), (5, 'v'))),
                detail={'got': [str(x.expr) for x in m]})
        req = m[3].expr
        okreq, d = False, {'got': str(req)[:120]}
        if isinstance(req, X.Where):
            parts = [v for v in vars(req).values() if isinstance(v, frag.Expression)]
            pys = [p_ for p_ in parts if isinstance(p_, X.PythonExpression)]
            if len(parts) == 2 and len(pys) == 2:
                subj, pred = (pys[0], pys[1])
                try:
                    consumes_nothing = eval(subj.source_code, {}) is None
                    outcomes = []
                    for a_, p_ in (('x', 1), ('x', 0), ('q', 1)):
                        f = eval(pred.source_code, {'a': a_, 'p': p_})
                        outcomes.append(bool(f(None)))
                    okreq = consumes_nothing and outcomes == [True, False, False]
                    d = {'subject': subj.source_code, 'predicate': pred.source_code, 'outcomes': outcomes}
                except Exception as e:
                    d = {'raised': repr(e)[:200], 'subject': subj.source_code, 'predicate': pred.source_code}
        rep.add(unit, '`requires c` is a where-test on a value that consumes nothing, true exactly when c is truthy in the scope of the body', 'ground', okreq, detail=d)
    T, U, P = by_name.get('T'), by_name.get('U'), by_name.get('Plain')
    rep.add(unit, 'template heads: parameters in order, `=` and `=>`', 'ground',
            isinstance(T, X.Rule) and list(T.params or []) == ['m', 'n'] and isinstance(U, X.Rule) and list(U.params or []) == ['k']
            and isinstance(P, X.Rule) and not P.params and not P.is_ignored and not T.is_ignored)
    ign = [r for r in rules if getattr(r, 'is_ignored', False)]
    rep.add(unit, 'ignore statements: the named and the anonymous pattern are ignored rules with their own expressions', 'ground',
            len(ign) == 2 and ign[0].name == 'Sp' and isinstance(ign[0].expr, X.Str) and ign[0].expr.value == ' ' and isinstance(ign[1].expr, X.Regex))
    # let expressions and keyword arguments
    try:
        e = front.expr_of('let x = "a" in [x, T(k="b", j=x)]')
        call = [n for n in _walk_exprs(e) if isinstance(n, X.Call)]
        kws = [(a.name, str(a.expr)) for a in call[0].args] if call else None
        ok = isinstance(e, X.Let) and e.name == 'x' and isinstance(e.expr, X.Str) and e.expr.value == 'a' and kws == [('k', "'b'"), ('j', 'x')]
    except Exception as ex_:
        ok, kws = False, repr(ex_)
    rep.add(unit, 'let binds its name to its first expression; keyword arguments keep name and expression in order', 'ground', ok, detail={'got': repr(kws)[:160]})


def _walk_exprs(e):
    out = []
    X.visit(e, out.append)
    return out


def frontend_renaming_obligations(rep, tier, unit='ground:front-end-renaming'):
    """C20 at the front end: an identifier that merely STARTS or ENDS with a keyword of the description language (letters, classy, inner,
    wherever, ...) is an ordinary identifier - in every position where a name may stand, the syntax tree is the tree of the same
    description with a neutral name, up to that renaming."""
    from sourcer import parser as P
    from checks.c12 import KEYWORDS

    def tree(desc):
        try:
            return repr(P.parse(desc))
        except Exception as e:
            return f'{type(e).__name__}: {str(e)[:100]}'
    shapes = {
        'rule name and references': '{n} = "a"\nstart = {n} | {n}+\nlast = start',
        'rule name after a rule that ends with a reference': 'first = last\n{n} = "b"\nlast = "a"',
        'template parameter and keyword argument': 'T({n}) = [{n}, {n}?]\nstart = T("a") | T({n}="b")',
        'class name, field, let field': 'class {N} {{\n {n}: "a"\n let {n}2: "b"\n pass "c"\n {n}3 => {N}?\n}}',
        'let variable': 'start = let {n} = "a" in {n} where `lambda v: v`',
        'operand of an operator table': '{n} = "n"\nstart = {n} between {{\n left: "+"\n prefix: "-"\n}}',
        'second operand of every binary operator': 'start = ["a" | {n}, "a" >> {n}, "a" << {n}, "a" // {n}, "a" /? {n}, {n} |> `f`, `f` <| {n}, {n} where `f`]\n{n} = "b"',
    }
    neutral = 'zq'
    for sname, sh in shapes.items():
        ref = tree(sh.format(n=neutral, N=neutral.capitalize()))
        rep.add(unit, f'{sname}: the neutral description is accepted (vacuity)', 'ground', not ref.startswith(('ParseError', 'PartialParseError')), detail={'tree': ref[:160]})
        for kw in KEYWORDS:
            for nm in (kw + 'ters', kw + '2', 'x' + kw):
                if not nm[0].isalpha():
                    continue
                got = tree(sh.format(n=nm, N=nm.capitalize()))
                want = ref.replace(neutral.capitalize(), nm.capitalize()).replace(neutral, nm)
                rep.add(unit, f'{sname}: `{nm}` is an ordinary identifier (same tree as with a neutral name, up to the renaming)', 'ground', got == want,
                        detail={'got': got[:200], 'want': want[:200]})


# ---------------------------------------------------------------------------------------------- scope tracker (C05 / C06 / C17)
def symbol_counter_obligations(rep, tier, unit='bounded:SymbolCounter'):
    """the scope tracker behind `is_local` resolution and the captured names of helper functions (`SymbolCounter`, driven by `visit` with a
    pre- and a post-visitor) as a data structure against its abstract view: the view is the STACK of open binders; `is_bound(x)` iff x is
    on the stack - for EVERY name, so leaving an inner binder of `x` keeps an outer binder of `x` in force (shadowing); a local reference
    is free iff its name is not on the stack when it is met.  BOUNDED: the real class on every well-nested forest of <= 4
    nodes over 8 node kinds, every prefix of the trace compared with the stack model - labelled bounded, never counted as proved."""
    import itertools
    from types import SimpleNamespace as NS
    from sourcer.expressions import base as B
    # the contracts of the three methods, discharged for all nodes / parameter lists / earlier states (contracts/repo_scope.py); the enumeration
    # below is then the CPython cross-check of that proof - and the bounded stand-in when the class leaves the verifier's subset
    from contracts import repo_scope
    n_err0 = len(rep.errors)
    repo_scope.obligations(rep, tier)
    out_of_reach = [e[0] for e in rep.errors[n_err0:] if e[1] in ('out-of-subset', 'role')]
    kinds = [('let', 'a'), ('let', 'b'), ('par', ('a',)), ('par', ('a', 'b')), ('par', ()), ('par', None), ('ref', 'a'), ('ref', 'b')]

    def node(kind):
        k, v = kind
        return NS(defines_local=k == 'let', name=v if k != 'par' else 'T', has_params=k == 'par', params=(list(v) if v is not None else None) if k == 'par' else None,
                  is_reference=k == 'ref', is_local=k == 'ref')

    def forests(n):
        # ordered forests with n nodes as nested tuples
        if n == 0:
            yield ()
            return
        for first in range(1, n + 1):
            for kids in forests(first - 1):
                for rest in forests(n - first):
                    yield (kids,) + rest

    def label(forest, it):
        return tuple((next(it), label(kids, it)) for kids in forest)

    def run(forest, sc, stack, free, bad, trace):
        for kind, kids in forest:
            nd = node(kind)
            k, v = kind
            if k == 'ref' and v not in stack:
                free.add(v)
            sc.previsit(nd)
            pushed = [v] if k == 'let' else (list(v or ()) if k == 'par' else [])
            stack.extend(pushed)
            trace.append(('enter', kind))
            compare(sc, stack, bad, trace)
            run(kids, sc, stack, free, bad, trace)
            sc.postvisit(nd)
            for _ in pushed:
                stack.pop()
            trace.append(('leave', kind))
            compare(sc, stack, bad, trace)

    def compare(sc, stack, bad, trace):
        for x in ('a', 'b', 'zz'):
            if bool(sc.is_bound(x)) != (x in stack) and len(bad) < 3:
                bad.append({'trace': list(trace), 'name': x, 'is_bound': bool(sc.is_bound(x)), 'open binders': list(stack)})

    nmax = 4        # 40738 traces, 2 s (5 nodes: 1.09 million traces, 55 s - run once by hand, held)
    tried, bad = 0, []
    for n in range(1, nmax + 1):
        for shape in forests(n):
            for labels in itertools.product(kinds, repeat=n):
                if not any(k == 'ref' for k, _ in labels):
                    continue
                forest = label(shape, iter(labels))
                sc, stack, free, trace = B.SymbolCounter(), [], set(), []
                before = len(bad)
                run(forest, sc, stack, free, bad, trace)
                tried += 1
                if len(bad) == before and set(sc.freevars) != free and len(bad) < 3:
                    bad.append({'trace': trace, 'freevars': sorted(sc.freevars), 'want': sorted(free)})
            if len(bad) >= 3:
                break
    rep.add(unit, f'is_bound(x) iff x is on the stack of open binders, after every event; freevars = references met outside every binder of their name '
                  f'[all well-nested forests of <= {nmax} nodes over {len(kinds)} node kinds: {tried} traces]', 'bounded', not bad,
            detail={'violations': bad[:3]}, replay={'reproduced': True, 'violated': bad[:3]} if bad else None)
    for u in out_of_reach:
        rep.unit_bounded[u] = {'tried': tried, 'bound': f'all well-nested forests of <= {nmax} nodes over {len(kinds)} node kinds, every prefix of the trace', 'violations': len(bad)}
    # a fresh tracker starts empty (no state shared between trackers - each call of freevars() / each rule gets its own)
    s1 = B.SymbolCounter()
    s1.previsit(node(('ref', 'a')))
    s2 = B.SymbolCounter()
    rep.add(unit, 'a new tracker starts with no free names and no open binder, whatever earlier trackers saw', 'bounded',
            not s2.freevars and not s2.is_bound('a') and s2.freevars is not s1.freevars)
    rep.functions.update(['sourcer.expressions.base.SymbolCounter'])
