"""Case-complete / ground wiring obligations shared by several properties (DESIGN.md: kind `case_complete`).
Each obligation is decided exactly by running the REAL generator on abstract operands and analysing the text."""
import ast
import itertools

from pyvc import frag, front, astutil
from pyvc.frag import ex as X, Stub

MODULE_GLOBAL_OK = ('_raise_error', '_try_', '_parse_function_', 'matcher', '_CHILD_')
RUNTIME_NAMES = {'_ParseFunction', '_wrap_string_literal', '_wrap_byte_literal', '_compile_re', '_IGNORECASE', '_run',
                 'ParsedObject', 'Infix', 'Prefix', 'Postfix', 'ParseError'}


def _uses(kind):
    """an expression that USES the user name `n` in the given way"""
    if kind == 'ref-local':
        r = X.Ref('n'); r.is_local = True
        return r
    if kind == 'inline-python':
        return X.PythonExpression('n')
    if kind == 'repeat-bound':
        return X.List(X.Str('a'), max_len='n')
    if kind == 'where-predicate':
        return X.Where(Stub(1, False, False), X.PythonExpression('lambda v: v == n'))
    raise ValueError(kind)


USE_KINDS = ['ref-local', 'inline-python', 'repeat-bound', 'where-predicate']


def helper_defs(src):
    tree = ast.parse(src)
    return {n.name: n for n in ast.walk(tree) if isinstance(n, ast.FunctionDef) and n.name.startswith('_parse_function_')}, tree


def unexpected_free(fn, ctx):
    """free names of an emitted helper that are not module-level generated names, run-time names or builtins"""
    bad = []
    for nm in sorted(astutil.free_names(fn)):
        if nm.startswith(MODULE_GLOBAL_OK) or nm in RUNTIME_NAMES or nm in astutil.BUILTINS:
            continue
        bad.append(nm)
    return bad


def closure_obligations(rep, tier, prop_units='wiring:closure'):
    """every way a bound name is used x every way the using expression is emitted out of line:
    the helper's free names are its parameters and the call site passes the current values"""
    for use in USE_KINDS:
        for ctx in (False, True):
            # (a) spilled by Expression.compile when the block budget is exhausted
            e = X.Seq(X.Str('a'), _uses(use))
            src = frag.emit_spilled(e, ctx)
            defs, tree = helper_defs(src)
            ok = bool(defs)
            detail = {'src': src}
            for name, fn in defs.items():
                bad = unexpected_free(fn, ctx)
                if bad:
                    ok = False
                    detail['free'] = bad
            rep.add(prop_units, f'spill[{use},ctx={int(ctx)}]: free names of the helper are its parameters', 'case_complete', ok, detail=detail)
            # (b) argumentized by Call
            e = X.Call(_ref('T'), [X.Seq(X.Str('a'), _uses(use))])
            src = frag.emit(e, ctx)
            defs, tree = helper_defs(src)
            ok = bool(defs)
            detail = {'src': src}
            for name, fn in defs.items():
                bad = unexpected_free(fn, ctx)
                if bad:
                    ok = False
                    detail['free'] = bad
            rep.add(prop_units, f'argument[{use},ctx={int(ctx)}]: free names of the helper are its parameters', 'case_complete', ok, detail=detail)


def _ref(name):
    r = X.Ref(name)
    r._resolved = X.implementation_name(name)
    return r


CLASS_SHAPES = [
    ('class Foo { a: X1 }', ['f']),
    ('class Foo { a: X1\n let b: X2\n c: X3 }', ['f', 'l', 'f']),
    ('class Foo { pass X1\n a: X2 }', ['p', 'f']),
    ('class Foo { a: X1; b: X2; requires `a == b` }', ['f', 'f', 'r']),
    ('class Foo(p, q) { a: X1\n let b: X2\n pass X3\n c: X4 }', ['f', 'l', 'p', 'f']),
    ('class Foo { let a: X1 }', ['l']),
    ('class Foo { }', []),
]


def class_compile_obligations(rep, tier, unit='wiring:Class._compile'):
    """Class._compile builds exactly the class body that contracts.bind.ClassSeqC verifies, and the emitted class
    declares the same field list in the same order (C05, C10, C14)."""
    for desc, shape in CLASS_SHAPES:
        for ctx in (False, True):
            for fl in ([(False, True)] if tier == 'quick' else frag.FLAGS):
                rules = front.rules_of(desc)
                cls = rules[0]
                n = len(shape)
                front.substitute_stubs(cls, {f'X{i + 1}': Stub(i + 1, *fl) for i in range(n)})
                members = cls.members
                kinds = []
                for m in members:
                    if m.name and not m.is_omitted:
                        kinds.append('f')
                    elif m.name:
                        kinds.append('l')
                    elif isinstance(m.expr, X.Where) and isinstance(m.expr.expr, X.PythonExpression) and m.expr.expr.source_code == 'None':
                        kinds.append('r')
                    else:
                        kinds.append('p')
                tag = f'[{desc.splitlines()[0][:40]!r},ctx={int(ctx)},flags={frag.FLAG_NAMES[fl]}]'
                rep.add(unit, f'member kinds as declared {tag}', 'case_complete', kinds == shape, detail={'got': kinds, 'want': shape})
                src = frag.emit(cls, ctx)
                tree = ast.parse(src)
                cdef = next(x for x in tree.body if isinstance(x, ast.ClassDef))
                fdef = next(x for x in tree.body if isinstance(x, ast.FunctionDef) and x.name == '_try_Foo')
                want_fields = [m.name for m in members if m.name and not m.is_omitted]
                # _fields, __init__ parameters and stores, __repr__ over the same list
                fields_stmt = next(s for s in cdef.body if isinstance(s, ast.Assign) and s.targets[0].id == '_fields')
                got_fields = list(ast.literal_eval(fields_stmt.value))
                rep.add(unit, f'_fields == named non-omitted members in order {tag}', 'case_complete', got_fields == want_fields,
                        detail={'got': got_fields, 'want': want_fields})
                init = next(s for s in cdef.body if isinstance(s, ast.FunctionDef) and s.name == '__init__')
                ip = astutil.params_of(init)
                stores = [(s.targets[0].attr, s.value.id) for s in init.body if isinstance(s, ast.Assign)
                          and isinstance(s.targets[0], ast.Attribute) and isinstance(s.value, ast.Name)]
                rep.add(unit, f'__init__ takes the fields in order and stores each under its own name {tag}', 'case_complete',
                        ip == ['self'] + want_fields and stores == [(f, f) for f in want_fields]
                        and ast.unparse(init.body[0]) == 'ParsedObject.__init__(self)', detail={'params': ip, 'stores': stores})
                bases = [ast.unparse(b) for b in cdef.bases]
                rep.add(unit, f'class derives directly from ParsedObject {tag}', 'case_complete', bases == ['ParsedObject'])
                rp = next(s for s in cdef.body if isinstance(s, ast.FunctionDef) and s.name == '__repr__')
                want_repr = "f'Foo(" + ', '.join(f'{f}={{self.{f}!r}}' for f in want_fields) + ")'"
                rep.add(unit, f'__repr__ is Name(f1=<repr>, ...) over the field list {tag}', 'case_complete',
                        ast.unparse(rp.body[0].value) == ast.unparse(ast.parse(want_repr).body[0].value),
                        detail={'got': ast.unparse(rp.body[0].value)})
                # implementation body == the verified class-body fragment + final yield of the registers
                exprs = [m.expr for m in members]
                names = [m.name for m in members]
                seq = X.Seq(*exprs, names=names, constructor='Foo', constructor_args=want_fields)
                seq.program_id = cls.extra_id
                want_body = ast.parse(frag.emit(seq, ctx, precompile=False)).body
                got_body = fdef.body
                same = (len(got_body) == len(want_body) + 1
                        and all(ast.dump(a) == ast.dump(b) for a, b in zip(got_body, want_body))
                        and ast.unparse(got_body[-1]) == 'yield (_status, _result, _pos)')
                rep.add(unit, f'_try_Foo body is the class-body Seq fragment followed by `yield (_status, _result, _pos)` {tag}',
                        'case_complete', same, detail={'src': src})
                want_params = (['_ctx'] if ctx else []) + ['_text', '_pos'] + (cls.params or [])
                rep.add(unit, f'_try_Foo signature is ([_ctx,] _text, _pos, *params) {tag}', 'case_complete',
                        astutil.params_of(fdef) == want_params, detail={'got': astutil.params_of(fdef)})


def requests_in(fn):
    """callee texts of the driver requests `yield (CALL, callee, pos)` inside an emitted function"""
    out = []
    for n in ast.walk(fn):
        if isinstance(n, ast.Yield) and isinstance(n.value, ast.Tuple) and len(n.value.elts) == 3 \
                and isinstance(n.value.elts[0], ast.Constant) and n.value.elts[0].value == 3:
            out.append(ast.unparse(n.value.elts[1]))
    return out


SHADOW_CASES = [
    # (description, function to inspect, expected request callees in order [unnamed grammar])
    ('rule parameter shadows a rule', 'X = "x"\nT(X) = X\nstart = T("a")', '_try_T', ['X']),
    ('class parameter shadows a rule', 'X = "x"\nclass C(X) {\n f: X\n}\nstart = C("a")', '_try_C', ['X']),
    ('let shadows a rule', 'X = "x"\nL = let X = "q" in X << X\nstart = L', '_try_L', ['X', 'X']),
    ('reference outside the binder still denotes the rule', 'X = "x"\nT(X) = X\nstart = [T("a"), X]', '_try_start', None),
    ('unshadowed rule reference', 'X = "x"\nT(Y) = [Y, X]\nstart = T("a")', '_try_T', ['Y', '_try_X']),
    ('parameter used after an inner let of another name', 'X = "x"\nT(p) = let q = p in [q, p, X]\nstart = T("a")', '_try_T', ['p', 'q', 'p', '_try_X']),
]


def ref_resolution_obligations(rep, tier, unit='wiring:reference-resolution'):
    """a reference denotes the innermost enclosing binder of that name (parameter / let), otherwise the rule (C05, C06, C20)"""
    from pyvc import runtime
    for title, desc, fname, want in SHADOW_CASES:
        for named in (False, True):
            text = ('grammar shadowtest\n' if named else '') + desc
            try:
                src = runtime.generated_module_source(text)
            except Exception as e:
                rep.add(unit, f'{title} [named={int(named)}]', 'case_complete', False, detail={'error': repr(e)})
                continue
            tree = ast.parse(src)
            fn = next(n for n in tree.body if isinstance(n, ast.FunctionDef) and n.name == fname)
            got = requests_in(fn)
            if want is None:
                # start = [T("a"), X]: second request must be the RULE X
                ok = len(got) == 2 and got[1] == ('_ctx._try_X' if named else '_try_X')
            else:
                exp = [(('_ctx.' + w) if named and w.startswith('_try_') else w) for w in want]
                ok = got == exp
            rep.add(unit, f'{title} [named={int(named)}]', 'case_complete', ok, detail={'requests': got, 'src': ast.unparse(fn)})


WIRING_GRAMMARS = {
    'plain': 'start = [A, "x"] | [A, "y"] | [Expect(A), A*]\nA = /a+/ >> B?\nB = "b" | C\nC = "c"',
    'ignore': 'ignore Space = /[ \\t]+/\nignore /#[^\\n]*/\nstart = Word+ << Opt(".")\nWord = /[a-z]+/\nclass Pair {\n k: Word\n v: "=" >> Word\n}',
    'template': 'T(x) = [x, x?]\nstart = T(A) | T("a") | T(A >> A)\nA = "a"',
    'named': 'grammar wiringtest\nstart = A | B\nA = "a" >> B\nB = "b"\nclass K {\n a: A\n}',
    'named-ignore': 'grammar wiringtest2\nignore Sp = " "\nstart = A+\nA = "a"',
}


def _module_tree(desc):
    from pyvc import runtime
    src = runtime.generated_module_source(desc)
    return src, ast.parse(src)


def no_direct_rule_calls(rep, tier, unit='wiring:every-rule-invocation-is-a-driver-request'):
    """emitted code never CALLS a _try_* implementation (or a rule parameter) directly: every rule invocation is a
    `yield (CALL, f, pos)` so that it goes through the memo of _run (C07, C17)"""
    for name, desc in WIRING_GRAMMARS.items():
        src, tree = _module_tree(desc)
        bad = []
        for n in ast.walk(tree):
            if isinstance(n, ast.Call):
                f = ast.unparse(n.func)
                if f.split('.')[-1].startswith('_try_'):
                    bad.append(ast.unparse(n)[:80])
        rep.add(unit, f'no direct call of a rule implementation [{name}]', 'syntactic', not bad, detail={'calls': bad})
        # _try_* may only be mentioned inside requests, _ParseFunction(...) arguments, _run(...) start argument and the _ctx epilogue
        ok_ctx = True
        for n in ast.walk(tree):
            if isinstance(n, ast.Name) and n.id.startswith('_try_') and isinstance(n.ctx, ast.Load):
                pass
        rep.add(unit, f'requests have the form (CALL, callee, position) [{name}]', 'syntactic',
                all(isinstance(y.value, ast.Tuple) and len(y.value.elts) == 3 for f in tree.body if isinstance(f, ast.FunctionDef)
                    and f.name.startswith('_try_') for y in ast.walk(f) if isinstance(y, ast.Yield)))


def ignored_rule_is_memoised(rep, tier, unit='wiring:ignored-rules-are-referenced-not-inlined'):
    """the synthetic _ignored rule refers to the ignored rules BY REFERENCE (requests), so that their bodies are
    memoised like any other rule (C07) and are exactly the declared rules (C04)"""
    for name in ('ignore', 'named-ignore'):
        src, tree = _module_tree(WIRING_GRAMMARS[name])
        fn = next((n for n in tree.body if isinstance(n, ast.FunctionDef) and n.name == '_try__ignored'), None)
        if fn is None:
            rep.add(unit, f'_try__ignored exists [{name}]', 'schematic', False)
            continue
        reqs = requests_in(fn)
        # body consists of requests only: no literal matching inlined
        inl = [ast.unparse(n)[:60] for n in ast.walk(fn) if isinstance(n, ast.Call) and ast.unparse(n.func).startswith(('matcher', '_compile_re'))]
        inl += [ast.unparse(n)[:60] for n in ast.walk(fn) if isinstance(n, ast.Subscript) and ast.unparse(n.value) == '_text']
        nign = WIRING_GRAMMARS[name].count('ignore ')
        rep.add(unit, f'_ignored requests each ignored rule once and matches nothing inline [{name}]', 'schematic',
                len(reqs) == nign and not inl, detail={'requests': reqs, 'inline': inl})


def memo_key_obligations(rep, tier, unit='wiring:memo-key'):
    """the request a reference emits is keyed by the SAME function object for every reference to one parameterless rule:
    a bare name in unnamed grammars, an attribute of the one run-time context in named grammars; a rule passed as an
    argument is passed as that same object (not wrapped), so direct and indirect references share one memo entry"""
    for ctx in (False, True):
        r = X.Ref('A'); r._resolved = X.implementation_name('A')
        direct = ast.parse(frag.emit(r, ctx))
        callee = requests_in(direct)[0]
        r2 = X.Ref('A'); r2._resolved = X.implementation_name('A')
        call = X.Call(_ref('T'), [r2])
        src = frag.emit(call, ctx)
        tree = ast.parse(src)
        pf = [n for n in ast.walk(tree) if isinstance(n, ast.Call) and ast.unparse(n.func) == '_ParseFunction']
        arg0 = ast.unparse(pf[-1].args[1].elts[0]) if pf and isinstance(pf[-1].args[1], ast.Tuple) and pf[-1].args[1].elts else None
        rep.add(unit, f'rule passed as argument is the same key object as a direct reference [ctx={int(ctx)}]', 'case_complete',
                arg0 is not None and arg0.split('.')[-1] == callee.split('.')[-1] and not arg0.startswith('_ParseFunction'),
                detail={'direct': callee, 'argument': arg0, 'src': src})


ENTRY_GRAMMARS = {
    'unnamed': 'start = A | B\nA(x) = x\nB = "b"\nclass K {\n a: B\n}\nclass P(q) {\n a: q\n}',
    'named': 'grammar entrytest\nstart = A | B\nA(x) = x\nB = "b"\nclass K {\n a: B\n}\nclass P(q) {\n a: q\n}',
    'no-start': 'First = "a" | Second\nSecond = "b"',
    'class-start': 'class Start {\n a: "a"\n}\nB = "b"',
}


def _is_run_call(node, ctx, impl, via_closure=False):
    """node is `_run([_ctx,] text, pos, <impl>, fullparse)`"""
    if not (isinstance(node, ast.Call) and ast.unparse(node.func) == '_run' and not node.keywords):
        return False
    args = [ast.unparse(a) for a in node.args]
    want = (['_ctx'] if ctx else []) + ['text', 'pos', impl, 'fullparse']
    return args == want


def entry_point_obligations(rep, tier, unit='wiring:entry-points'):
    """every public entry point - module parse, R.parse for each rule, C.parse for each class - is
    _run([_ctx,] text, pos, <implementation of that rule>, fullparse) with defaults pos=0, fullparse=True (C08),
    and exposes no _ctx parameter (C11)"""
    for gname, desc in ENTRY_GRAMMARS.items():
        named = gname == 'named'
        src, tree = _module_tree(desc)
        fns = {n.name: n for n in tree.body if isinstance(n, ast.FunctionDef)}
        classes = {n.name: n for n in tree.body if isinstance(n, ast.ClassDef)}

        def sig_ok(fn):
            a = fn.args
            return [x.arg for x in a.args] == ['text', 'pos', 'fullparse'] and [ast.unparse(d) for d in a.defaults] == ['0', 'True']

        def body_ok(fn, impl):
            stmts = [s for s in fn.body if not (isinstance(s, ast.Expr) and isinstance(s.value, ast.Constant))]
            return len(stmts) == 1 and isinstance(stmts[0], ast.Return) and _is_run_call(stmts[0].value, named, impl)

        start_impl = {'unnamed': '_try_start', 'named': '_try_start', 'no-start': '_try_First', 'class-start': '_try_Start'}[gname]
        rep.add(unit, f'module parse(text, pos=0, fullparse=True) runs the start rule [{gname}]', 'schematic',
                'parse' in fns and sig_ok(fns['parse']) and body_ok(fns['parse'], start_impl),
                detail={'src': ast.unparse(fns.get('parse')) if 'parse' in fns else None})
        for rname in [n[len('_parse_'):] for n in fns if n.startswith('_parse_') and not n.startswith('_parse_function')]:
            fn = fns['_parse_' + rname]
            rep.add(unit, f'{rname}.parse runs the implementation of {rname} [{gname}]', 'schematic',
                    sig_ok(fn) and body_ok(fn, '_try_' + rname), detail={'src': ast.unparse(fn)})
            # the public object is ParsingRule(name, _parse_<name>, definition)
            binds = [s for s in tree.body if isinstance(s, ast.Assign) and ast.unparse(s.targets[0]) == rname]
            ok = len(binds) == 1 and isinstance(binds[0].value, ast.Call) and ast.unparse(binds[0].value.func) == 'ParsingRule' \
                and ast.unparse(binds[0].value.args[1]) == '_parse_' + rname
            rep.add(unit, f'{rname} = ParsingRule(.., _parse_{rname}, ..) [{gname}]', 'schematic', ok)
        for cname, cdef in classes.items():
            if cname in ('ParsedObject', '_Metadata', 'ParsingRule', 'InputError', 'ParseError', 'PartialParseError', 'Infix',
                         'Prefix', 'Postfix', '_ParseFunction', '_StringLiteral', '_ByteLiteral', '_Context'):
                continue
            p = next((m for m in cdef.body if isinstance(m, ast.FunctionDef) and m.name == 'parse'), None)
            static = p is not None and any(ast.unparse(d) == 'staticmethod' for d in p.decorator_list)
            impl = ('_ctx.' if named else '') + '_try_' + cname
            if p is not None and [x.arg for x in p.args.args] == ['text', 'pos', 'fullparse']:
                rep.add(unit, f'class {cname}.parse runs the implementation of {cname} [{gname}]', 'schematic',
                        static and sig_ok(p) and body_ok(p, impl), detail={'src': ast.unparse(p)})
            elif p is not None:
                # parameterised class: parse(*params) returns a callable (text, pos=0, fullparse=True)
                lam = next((n for n in ast.walk(p) if isinstance(n, ast.Lambda)), None)
                lam_params = [x.arg for x in lam.args.args] if lam else None
                clo = next((s_ for s_ in p.body if isinstance(s_, ast.Assign) and ast.unparse(s_.targets[0]) == '_closure'), None)
                cparams = [x.arg for x in p.args.args]
                cok = clo is not None and isinstance(clo.value, ast.Call) and ast.unparse(clo.value.func) == '_ParseFunction' \
                    and len(clo.value.args) == 3 and ast.unparse(clo.value.args[0]) == impl \
                    and isinstance(clo.value.args[1], ast.Tuple) and [ast.unparse(x) for x in clo.value.args[1].elts] == cparams \
                    and ast.unparse(clo.value.args[2]) == '()'
                rep.add(unit, f'parameterised class {cname}.parse(args): start request is the hashable _ParseFunction(impl, (args..), ()) [{gname}]',
                        'schematic', cok, detail={'src': ast.unparse(p)})
                rep.add(unit, f'parameterised class {cname}.parse(args) returns a callable (text, pos=0, fullparse=True) without _ctx [{gname}]',
                        'schematic', static and lam_params == ['text', 'pos', 'fullparse'] and
                        _is_run_call(lam.body, named, '_closure'), detail={'src': ast.unparse(p)})
            else:
                rep.add(unit, f'class {cname} has a parse entry point [{gname}]', 'schematic', False)


def operator_node_classes(rep, tier, unit='wiring:Infix/Prefix/Postfix'):
    """the three operator node classes of the run-time: _fields, __init__ parameters / stores and __repr__ agree (C14, C02)"""
    from pyvc import runtime
    src, tree, defs = runtime.runtime(False)
    want = {'Infix': ['left', 'operator', 'right'], 'Prefix': ['operator', 'right'], 'Postfix': ['left', 'operator']}
    for cname, fields in want.items():
        cdef = defs.get(cname)
        ok = cdef is not None and [ast.unparse(b) for b in cdef.bases] == ['ParsedObject']
        fs = next((s for s in cdef.body if isinstance(s, ast.Assign) and ast.unparse(s.targets[0]) == '_fields'), None) if cdef else None
        ok = ok and fs is not None and list(ast.literal_eval(fs.value)) == fields
        init = defs.get(f'{cname}.__init__')
        ok = ok and init is not None and astutil.params_of(init) == ['self'] + fields
        if init is not None:
            stores = [(s.targets[0].attr, s.value.id) for s in init.body if isinstance(s, ast.Assign) and isinstance(s.targets[0], ast.Attribute) and isinstance(s.value, ast.Name)]
            ok = ok and stores == [(f, f) for f in fields] and ast.unparse(init.body[0]) == 'ParsedObject.__init__(self)'
        rp = defs.get(f'{cname}.__repr__')
        want_repr = "f'" + cname + "(" + ', '.join('{self.%s!r}' % f for f in fields) + ")'"
        ok = ok and rp is not None and ast.unparse(rp.body[0].value) == ast.unparse(ast.parse(want_repr).body[0].value)
        rep.add(unit, f'{cname}: _fields = {fields}, __init__ stores them in order, __repr__ rebuilds the constructor call', 'syntactic', bool(ok))


def span_recording_obligations(rep, tier, unit='wiring:span-recording'):
    """every class implementation records its span, whatever its members are (also field-less classes, classes whose members
    are all omitted, parameterised classes)"""
    descs = {
        'plain': 'class A {\n x: "a"\n}',
        'all-omitted': 'class A {\n pass "break"\n let k: "skip"\n}',
        'empty': 'class A {\n}',
        'params': 'class A(p) {\n x: p\n}\nstart = A("q")',
        'named': 'grammar spanwiring\nclass A {\n x: "a"\n pass "b"\n}',
    }
    for name, desc in descs.items():
        src, tree = _module_tree(desc)
        fn = next(n for n in tree.body if isinstance(n, ast.FunctionDef) and n.name == '_try_A')
        stores = [ast.unparse(n) for n in ast.walk(fn) if isinstance(n, ast.Assign) and ast.unparse(n.targets[0]) == '_result._metadata.position_info']
        first = fn.body[0]
        start_saved = isinstance(first, ast.Assign) and ast.unparse(first.value) == '_pos'
        ok = len(stores) == 1 and start_saved and stores[0].endswith(f'({ast.unparse(first.targets[0])}, _pos)')
        rep.add(unit, f'_try_A saves the entry position first and stores (entry, _pos) into the new instance [{name}]', 'schematic', ok,
                detail={'src': ast.unparse(fn)})
