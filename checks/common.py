"""helpers shared by the per-property check modules"""
import os
from pyvc.runner import run_jobs
from pyvc.report import Report


def fragment_jobs(contracts, tier, only_cfg=None):
    both = tier == 'thorough'
    jobs = []
    only = os.environ.get('VERIF_ONLY_UNIT')
    for c in contracts:
        for cfg in c.configs(tier):
            if only_cfg and not only_cfg(c, cfg):
                continue
            if only and not only.startswith(f'fragment:{c.cls_name}['):
                continue
            jobs.append(('fragment', (c, cfg, both)))
    return jobs


def _label(kind, payload):
    from pyvc.runner import _label as lab
    return lab(kind, payload)


def run_fragments(rep, contracts, tier, clause_filter=None, only_cfg=None, skip_done=False, unit_filter=None):
    jobs = fragment_jobs(contracts, tier, only_cfg)
    if skip_done:
        # already run WITH ALL ITS CLAUSES by the property's own part (a unit run under a clause filter is completed here)
        jobs = [j for j in jobs if _label(*j) not in rep.units or _label(*j) in rep.filtered_units]
    elif clause_filter is not None:
        rep.filtered_units.update(_label(*j) for j in jobs)
    res = run_jobs(jobs)
    rep.add_fragment_results(res, clause_filter, unit_filter)
    for c in contracts:
        rep.functions.add(f'sourcer.expressions.{c.cls_name}._compile / always_succeeds / can_partially_succeed')
    return res


def run_rt(rep, contracts, tier, skip_done=False, unit_filter=None):
    from pyvc.rtver import verify_rt
    both = tier == 'thorough'
    only = os.environ.get('VERIF_ONLY_UNIT')
    jobs = []
    for c in contracts:
        for cfg in c.configs(tier):
            if only and not only.startswith(f'runtime:{c.fn_name}['):
                continue
            jobs.append(('call', (verify_rt, (c, cfg, both))))
    if skip_done:
        jobs = [j for j in jobs if _label(*j) not in rep.units]
    res = run_jobs(jobs)
    rep.add_fragment_results(res, None, unit_filter)
    for c in contracts:
        rep.functions.add(f'run-time template {c.fn_name} (sourcer/translator.py)')
    return res


def dependency_layer(rep, tier, groups=('fragments', 'runtime', 'nodes', 'wiring', 'front')):
    """Obligations of the code a property's behaviour PASSES THROUGH without being about it: the generic (protocol / flag) clauses of every
    fragment contract, the contracts of the run-time library, the node classes, the wiring of references / entry points / ignore / derived
    modules, the front end.  A change there can break this property too (rounds 3-5 of the seeded changes: a third of the misses were
    changes in a dependency that only the check of ANOTHER property looked at).  Units the property's own part already ran are skipped;
    obligations that are a recorded finding of some property are reported under that property only."""
    if os.environ.get('VERIF_NO_DEPENDENCY_LAYER'):
        # harness use only (tools/run_harmless_scratch.sh): the layer is the same set of obligations in every check - when ALL checks are run
        # on one tree it is enough to run it once
        rep.notes.append('dependency layer skipped (VERIF_NO_DEPENDENCY_LAYER set by a harness that runs it once for all checks)')
        return
    import inspect
    from pyvc.report import matches_any_known
    from contracts import core, lists, bind, call, rt_run, rt_final, rt_errors, rt_misc, rt_walk, rt_objects, rt_transform, spellings
    from . import wiring
    not_known = lambda unit, name, path: not matches_any_known(unit, name, path)
    rep.notes.append('DEPENDENCY LAYER (after the property\'s own obligations): generic clauses of all fragment contracts, run-time library contracts, node classes, '
                     'wiring, front end - the code this property\'s behaviour passes through (checks/common.dependency_layer).')
    if 'fragments' in groups:
        generic = lambda name: name.split(':', 1)[-1].startswith('G-') or 'safety:' in name
        run_fragments(rep, core.CORE + lists.LISTS + bind.BIND + call.CALL, tier, clause_filter=generic,
                      only_cfg=lambda c, cfg: len(cfg.get('flags', [])) <= 2, skip_done=True, unit_filter=not_known)
        # operator tables: two mid-size configurations (prefix+infix, postfix+infix rows; partially succeeding operand) with ALL their clauses -
        # stack safety, position protocol (the end that parse() reports), tree shape; the full configuration table is C02's own part
        from contracts import optable
        run_fragments(rep, optable.OPTABLE, tier, only_cfg=lambda c, cfg: bool(cfg.get('infix')) and (bool(cfg.get('prefix')) != bool(cfg.get('postfix')))
                      and cfg.get('operand') == 'PS' and cfg.get('ops') == 'PS', skip_done=True, unit_filter=not_known)
    if 'runtime' in groups:
        run_rt(rep, rt_run.RUN + rt_final.FINAL + rt_errors.RT + rt_misc.EXC + rt_walk.WALK + rt_objects.OBJECTS + rt_objects.MORE + rt_transform.TRANSFORM,
               tier, skip_done=True, unit_filter=not_known)
    fns = []
    if 'nodes' in groups:
        fns += [wiring.operator_node_classes, wiring.class_compile_obligations, wiring.metadata_obligations]
    if 'wiring' in groups:
        fns += [wiring.entry_point_obligations, wiring.rule_wrapper_obligations, wiring.ref_resolution_obligations, wiring.ignore_wiring_obligations,
                wiring.visit_reaches_every_child, wiring.memo_key_obligations, wiring.no_direct_rule_calls, wiring.ignored_rule_is_memoised,
                wiring.derived_namespace_obligations, wiring.spill_obligations, wiring.captured_argument_order_obligations,
                wiring.symbol_counter_obligations]
    if 'front' in groups:
        fns += [wiring.frontend_literal_obligations, wiring.frontend_definition_obligations]
    for fn in fns:
        unit = inspect.signature(fn).parameters['unit'].default
        if unit in rep.units:
            continue
        n0 = len(rep.obls)
        fn(rep, tier)
        # recorded findings of other properties that live in these exactly decided obligations stay with their own property
        rep.obls[n0:] = [o for o in rep.obls[n0:] if not (o.verdict == 'failed' and matches_any_known(o.unit, o.name, o.path))]
    if 'front' in groups:
        run_fragments(rep, spellings.SPELLED, tier, skip_done=True, unit_filter=not_known)


def run_vcs(rep, unit, vcs, axioms=()):
    """discharge hand-stated lemma VCs (named, with explicit hypotheses)"""
    from pyvc.solve import discharge
    for vc in vcs:
        v = discharge(vc, list(axioms))
        verdict = {'unsat': 'proved', 'sat': 'failed'}.get(v.status, 'unknown')
        from pyvc.report import Obligation
        rep.obls.append(Obligation(unit, vc.name, 'smt', verdict, v.solver, v.time,
                                   detail={'model': str(v.model)[:1500]} if verdict != 'proved' else None))
        rep.units.setdefault(unit, {'vcs': 0})
        rep.units[unit]['vcs'] += 1
