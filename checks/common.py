"""helpers shared by the per-property check modules"""
import os
from pyvc.runner import run_jobs
from pyvc.report import Report


def fragment_jobs(contracts, tier, only_cfg=None):
    both = tier == 'thorough'
    jobs = []
    only = os.environ.get('VERIF_ONLY_UNIT')
    for c in contracts:
        for cfg in c.configs(tier):
            if only_cfg and not only_cfg(c, cfg):
                continue
            if only and not only.startswith(f'fragment:{c.cls_name}['):
                continue
            jobs.append(('fragment', (c, cfg, both)))
    return jobs


def run_fragments(rep, contracts, tier, clause_filter=None, only_cfg=None):
    jobs = fragment_jobs(contracts, tier, only_cfg)
    res = run_jobs(jobs)
    rep.add_fragment_results(res, clause_filter)
    for c in contracts:
        rep.functions.add(f'sourcer.expressions.{c.cls_name}._compile / always_succeeds / can_partially_succeed')
    return res
