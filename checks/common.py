"""helpers shared by the per-property check modules"""
import os
from pyvc.runner import run_jobs
from pyvc.report import Report


def fragment_jobs(contracts, tier, only_cfg=None):
    both = tier == 'thorough'
    jobs = []
    only = os.environ.get('VERIF_ONLY_UNIT')
    for c in contracts:
        for cfg in c.configs(tier):
            if only_cfg and not only_cfg(c, cfg):
                continue
            if only and not only.startswith(f'fragment:{c.cls_name}['):
                continue
            jobs.append(('fragment', (c, cfg, both)))
    return jobs


def run_fragments(rep, contracts, tier, clause_filter=None, only_cfg=None):
    jobs = fragment_jobs(contracts, tier, only_cfg)
    res = run_jobs(jobs)
    rep.add_fragment_results(res, clause_filter)
    for c in contracts:
        rep.functions.add(f'sourcer.expressions.{c.cls_name}._compile / always_succeeds / can_partially_succeed')
    return res


def run_rt(rep, contracts, tier):
    from pyvc.rtver import verify_rt
    both = tier == 'thorough'
    only = os.environ.get('VERIF_ONLY_UNIT')
    jobs = []
    for c in contracts:
        for cfg in c.configs(tier):
            if only and not only.startswith(f'runtime:{c.fn_name}['):
                continue
            jobs.append(('call', (verify_rt, (c, cfg, both))))
    res = run_jobs(jobs)
    rep.add_fragment_results(res)
    for c in contracts:
        rep.functions.add(f'run-time template {c.fn_name} (sourcer/translator.py)')
    return res


def run_vcs(rep, unit, vcs, axioms=()):
    """discharge hand-stated lemma VCs (named, with explicit hypotheses)"""
    from pyvc.solve import discharge
    for vc in vcs:
        v = discharge(vc, list(axioms))
        verdict = {'unsat': 'proved', 'sat': 'failed'}.get(v.status, 'unknown')
        from pyvc.report import Obligation
        rep.obls.append(Obligation(unit, vc.name, 'smt', verdict, v.solver, v.time,
                                   detail={'model': str(v.model)[:1500]} if verdict != 'proved' else None))
        rep.units.setdefault(unit, {'vcs': 0})
        rep.units[unit]['vcs'] += 1
