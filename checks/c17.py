"""C17 - nesting depth never changes meaning or exhausts the Python stack."""
from contracts import core, rt_walk
from pyvc.report import Report
from .common import run_fragments, run_rt, dependency_layer
from . import wiring


def run(tier, seed):
    rep = Report('C17', tier, seed, 'proof')
    rep.notes.append('Spill path of the real Expression.compile decided case by case on emitted text: the fragment is replaced by ONE driver request for a '
                     'helper whose body is that fragment (+ final yield), captured names passed in order, no free names - so by the driver contract the '
                     'registers hold the fragment\'s outcome (children: pure / rule reference / skipping literal / template call / parameter-using / '
                     'always-succeeding x both conventions). Block accounting: blocks opened by each fragment itself <= its declared num_blocks. '
                     'Transparency of the wrappers themselves is C01 (Seq/Opt/Choice contracts hold at every depth by structural induction).')
    wiring.spill_obligations(rep, tier)
    wiring.closure_obligations(rep, tier)
    wiring.frontend_capture_obligations(rep, tier)
    wiring.block_accounting_obligations(rep, tier)
    wiring.no_direct_rule_calls(rep, tier)
    wiring.no_python_recursion_obligations(rep, tier)
    # wrappers named by the statement: sequences, options, choices with a failing branch (contracts of C01, re-run here)
    run_fragments(rep, [core.SeqC(), core.OptC(), core.ChoiceC()], tier, only_cfg=lambda c, cfg: len(cfg.get('flags', [])) <= 2)
    # the post-parse pass must not recurse through user-visible hashing of nested objects: visit de-duplicates by id()
    run_rt(rep, [rt_walk.VisitC()], tier)
    rep.assumptions.append('CodeBuilder.has_available_blocks / max_num_blocks = 20 (outsourcer, trusted); CPython limits: 20 nested blocks, 100 indentation levels')
    rep.assumptions.append('rule recursion depth is bounded by memory only because every rule invocation is a request to the trampoline _run (C07 wiring), whose stack is a heap list')
    # the scope tracker that decides which names are local / captured (bounded stand-in for a data-structure contract)
    wiring.symbol_counter_obligations(rep, tier)
    dependency_layer(rep, tier)
    return rep.finish()
