"""C15 - visit and traverse enumerate the whole tree, once, in order."""
import ast
from contracts import rt_walk
from pyvc.report import Report
from pyvc import runtime
from pyvc.solve import cvc5_check
from .common import run_rt, dependency_layer
from . import wiring


REV_LEMMAS = {
    'rev(a.b) = rev(b).rev(a)': '(declare-sort V 0)(declare-fun a () (Seq V))(declare-fun b () (Seq V))'
                               '(assert (not (= (seq.rev (seq.++ a b)) (seq.++ (seq.rev b) (seq.rev a)))))(check-sat)',
    'rev(rev(c)) = c': '(declare-sort V 0)(declare-fun c () (Seq V))(assert (not (= (seq.rev (seq.rev c)) c)))(check-sat)',
    'rev([x]) = [x]': '(declare-sort V 0)(declare-fun x () V)(assert (not (= (seq.rev (seq.unit x)) (seq.unit x))))(check-sat)',
}


def run(tier, seed):
    rep = Report('C15', tier, seed, 'proof')
    rep.notes.append('visit and traverse (extracted from the template) proved against recursive specification functions PRE / EVT over a work '
                     'list and a visited set, with the loop invariant  out . SPEC(rev(stack), visited) = SPEC([root], {}); the spec functions ARE '
                     'the statement (pre-order, left to right, first occurrence; enter/finish pairs for every occurrence, expansion once).')
    res = run_rt(rep, rt_walk.WALK, tier)
    # the walkers go by _fields: for the operator nodes of the run-time they must list operand / operator / operand in input order
    wiring.operator_node_classes(rep, tier)
    wiring.class_compile_obligations(rep, tier)
    # list-reversal lemmas used (instantiated) by the invariants: discharged with cvc5's native seq.rev
    for name, smt in REV_LEMMAS.items():
        r, t = cvc5_check('(set-logic ALL)' + smt, 20000)
        rep.add('lemma:list-reversal', name, 'smt-cvc5', True if r == 'unsat' else (False if r == 'sat' else None))
    # neither function is recursive; the work list is a heap list ("not limited by recursion depth")
    src, tree, defs = runtime.runtime(False)
    for fn in ('visit', 'traverse'):
        calls = {ast.unparse(n.func) for n in ast.walk(defs[fn]) if isinstance(n, ast.Call)}
        rep.add(f'syntactic:{fn}', 'does not call itself (no recursion depth limit)', 'syntactic', fn not in calls, detail={'calls': sorted(calls)})
    # thorough tier / self-validation: the bounded native stand-ins agree with the proof on the unchanged tree
    if tier == 'thorough':
        from pyvc.rtver import RtCx
        for c in rt_walk.WALK:
            bad, tried, bound = c.bounded(RtCx(c, {}))
            rep.bounded.append({'unit': c.fn_name, 'bound': bound, 'tried': tried, 'violations': len(bad)})
            if bad:
                rep.add(f'bounded:{c.fn_name}', 'contract on all small heaps', 'bounded', False, detail={'violations': bad[:3]}, replay={'reproduced': True, 'violated': bad[:3]})
    rep.assumptions.append('heap abstraction: nkind/children of a node are fixed during the walk; id() is injective on live objects')
    rep.assumptions.append('termination (acyclic structures) is not proved')
    rep.assumptions.append('the three comprehensions of traverse are recognised syntactically against the definition of occs (parent, field, child); '
                           'any other shape is out of subset (UNDECIDED, with a bounded native stand-in), never a pass')
    dependency_layer(rep, tier)
    return rep.finish()
