"""C01 - generated parsers implement PEG semantics for the core expressions."""
from contracts import core, segments, rt_run, rt_final, spellings
from pyvc.report import Report
from .common import run_fragments, run_rt, dependency_layer
from . import wiring


def run(tier, seed):
    rep = Report('C01', tier, seed, 'proof')
    rep.notes.append('Every core expression class: the text emitted by the real _compile over abstract children is proved, '
                     'for all inputs, positions and child behaviours, to implement the documented PEG meaning (ok/value/end), '
                     'to report failures consistently with its static flags (G-as, G-cps), to stay in range and to write only its own temporaries.')
    run_fragments(rep, core.CORE, tier)
    # the spellings of the statement (`?`, `*`, `+`, `>>`, `<<`, `|`, `[a, b]` and their constructor forms) as the real front end builds them
    run_fragments(rep, [spellings.SpelledDiscardC(), spellings.SpelledOptC(), spellings.SpelledChoiceC(), spellings.SpelledSeqC(), spellings.SpelledListC()], tier)
    # arbitrary arity: segment induction for Choice, closure checks for Seq (section 0, deviation 4)
    segments.ChoiceSegments().run(rep, tier)
    segments.LongestSegments().run(rep, tier)
    segments.SkipSegments().run(rep, tier)
    segments.seq_closure(rep, tier)
    wiring.rule_wrapper_obligations(rep, tier)
    # the literals of the statement as the real front end builds them (escaping of case-insensitive literals, flags, byte values)
    wiring.frontend_literal_obligations(rep, tier)
    # "parsing returns exactly the value and consumes exactly the prefix": the way from the start rule's outcome to what parse() returns or
    # raises (driver and post-pass; their contracts are those of C07 / C08 / C10, discharged here too)
    run_rt(rep, rt_run.RUN + rt_final.FINAL, tier)
    wiring.a_subst_obligations(rep, tier)
    wiring.a_uniform_obligations(rep, tier)
    rep.functions.update(['sourcer.expressions.utils.if_succeeds', 'sourcer.expressions.utils.if_fails',
                          'sourcer.expressions.utils.breakable', 'sourcer.expressions.utils.skip_ignored',
                          'sourcer.expressions.base.Expression.compile'])
    rep.assumptions.append('arity: Choice is proved for EVERY arity by segment induction (head / middle / last+tail triples from an arbitrary state satisfying the cut-point invariant + closure of the segment shapes at arity 5 and 7); Seq: every arity - each segment shape is a Hoare triple from an arbitrary chain position (the failure of the item itself, or value stored and chain extended), closure keyed by (kind, shape), items assigned once, distinct, display in order; Longest: every arity by the same segment induction (ghost winner-so-far); Skip: every arity by segment induction inside one loop iteration (J: at the checkpoint, no earlier item progresses) under the loop invariant of SkipC; every proved segment shape is keyed by the KIND (flags) of its child')
    rep.assumptions.append('re contract: matcher(text,pos) is None or a match with pos <= end <= len(text), a function of (pattern, flags, text, pos)')
    rep.assumptions.append('driver contract for rule references: the answer to a request (CALL, f, pos) is the outcome of f at pos (proved for _run under C07/C08)')
    if tier == 'thorough':
        # the combination lemma behind A-meta, re-checked by Lean (core only, < 10 s); a failure is a fault of the machinery, never a violation
        from pyvc import meta
        r = meta.check_meta()
        rep.extra['a_meta_lemma'] = r
        if r['status'] == 'failed':
            rep.errors.append(('meta:Compose.lean', 'crash', f"the Lean proof of the combination lemma does not check: {str(r.get('reason'))[:300]}"))
        elif r['status'] == 'unavailable':
            rep.notes.append('A-meta: lean is not available in this environment; the combination lemma was not re-checked in this run')
    dependency_layer(rep, tier)
    return rep.finish()
