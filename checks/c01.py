"""C01 - generated parsers implement PEG semantics for the core expressions."""
from contracts import core, segments
from pyvc.report import Report
from .common import run_fragments
from . import wiring


def run(tier, seed):
    rep = Report('C01', tier, seed, 'proof')
    rep.notes.append('Every core expression class: the text emitted by the real _compile over abstract children is proved, '
                     'for all inputs, positions and child behaviours, to implement the documented PEG meaning (ok/value/end), '
                     'to report failures consistently with its static flags (G-as, G-cps), to stay in range and to write only its own temporaries.')
    run_fragments(rep, core.CORE, tier)
    # arbitrary arity: segment induction for Choice, closure checks for Seq (section 0, deviation 4)
    segments.ChoiceSegments().run(rep, tier)
    segments.LongestSegments().run(rep, tier)
    segments.seq_closure(rep, tier)
    wiring.rule_wrapper_obligations(rep, tier)
    wiring.a_subst_obligations(rep, tier)
    wiring.a_uniform_obligations(rep, tier)
    rep.functions.update(['sourcer.expressions.utils.if_succeeds', 'sourcer.expressions.utils.if_fails',
                          'sourcer.expressions.utils.breakable', 'sourcer.expressions.utils.skip_ignored',
                          'sourcer.expressions.base.Expression.compile'])
    rep.assumptions.append('arity: Choice is proved for EVERY arity by segment induction (head / middle / last+tail triples from an arbitrary state satisfying the cut-point invariant + closure of the segment shapes at arity 5 and 7); Seq: outright <= 3/4 + closure (segments are proved shapes, items distinct, display in order); Longest: every arity by the same segment induction (ghost winner-so-far); Skip: outright <= 2/3, larger arities rest on A-uniform')
    rep.assumptions.append('re contract: matcher(text,pos) is None or a match with pos <= end <= len(text), a function of (pattern, flags, text, pos)')
    rep.assumptions.append('driver contract for rule references: the answer to a request (CALL, f, pos) is the outcome of f at pos (proved for _run under C07/C08)')
    return rep.finish()
