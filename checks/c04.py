"""C04 - ignored patterns are skipped exactly at token boundaries."""
from contracts import core, segments
from pyvc.report import Report
from .common import run_fragments, dependency_layer
from . import wiring


def run(tier, seed):
    rep = Report('C04', tier, seed, 'proof')
    rep.notes.append('Leaf contracts with skipping: on success the position is ign(end of the literal match) where ign is the driver\'s answer for the '
                     '_ignored rule, on failure no request is made and the position is unchanged; _ignored is Skip(refs): maximal run, always succeeds '
                     '(C01 Skip contract). Wiring (schematic, real translator on 7 shapes): _ignored requests exactly the declared rules; the entry rule '
                     'starts with the skip; every literal in every rule skips exactly once after success and nothing else requests _ignored; '
                     'expressions.visit reaches every child of every class.')
    run_fragments(rep, [core.StrC(), core.RegexC(), core.ByteC(), core.SkipC(), core.RegexPairC()], tier)
    segments.SkipSegments().run(rep, tier)       # any number of ignore declarations: Skip for every arity
    wiring.visit_reaches_every_child(rep, tier)
    wiring.ignore_wiring_obligations(rep, tier)
    wiring.ignored_rule_is_memoised(rep, tier)
    rep.assumptions.append('second sentence of the statement (lengthening an ignorable run changes no value) is a two-run property of whole grammars: '
                           'it follows on paper from the leaf contract + C01 under its side conditions and gets no obligation')
    rep.assumptions.append('A-schematic: wiring obligations are exhaustive over the stated shape family only')
    dependency_layer(rep, tier)
    return rep.finish()
