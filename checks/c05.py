"""C05 - bound names and data-dependent predicates see the values parsed earlier."""
from contracts import bind, lists, spellings
from pyvc.report import Report
from .common import run_fragments, dependency_layer


def run(tier, seed):
    rep = Report('C05', tier, seed, 'proof')
    rep.notes.append('Let / Where / Apply / class bodies / inline Python / data-dependent repetition bounds: emitted fragments proved '
                     'against an environment-passing spec (child outcomes are functions of position AND of the current values of the '
                     'user-visible names); class bodies additionally against a heap contract (fresh instance, fields in declaration '
                     'order, raw span, frame).')
    run_fragments(rep, bind.BIND, tier)
    # data-dependent repetition counts (shared with C03): units whose bounds are names
    run_fragments(rep, [lists.BoundedListC()], tier,
                  only_cfg=lambda c, cfg: bool(cfg.get('user_sorts')) and cfg.get('regime') != 'max<min')
    from . import wiring
    wiring.a_subst_obligations(rep, tier)
    wiring.closure_obligations(rep, tier)
    wiring.class_compile_obligations(rep, tier)
    from contracts import segments
    segments.class_body_closure(rep, tier)
    run_fragments(rep, [spellings.SpelledApplyC(), spellings.SpelledWhereC()], tier)      # `a |> f`, `f <| a`, `e where p` as the real front end builds them
    wiring.ref_resolution_obligations(rep, tier)
    wiring.frontend_definition_obligations(rep, tier)
    rep.assumptions.append('frame clause of the child contract: a child does not change user-visible names that are in scope at its entry '
                           '(G-scope is proved for every class under this hypothesis; it FAILS for Let itself - known finding)')
    rep.assumptions.append('bindings are python locals of the generated function: activations cannot share them (CPython semantics; no global/nonlocal is emitted - checked in C18)')
    # the scope tracker that decides which names are local / captured (bounded stand-in for a data-structure contract)
    wiring.symbol_counter_obligations(rep, tier)
    dependency_layer(rep, tier)
    return rep.finish()
