"""C13 - inheritance: overrides are late-bound, super is the parent, parent untouched."""
from contracts import core, call, rt_run
from pyvc.report import Report
from .common import run_fragments, run_rt, dependency_layer
from . import wiring


def run(tier, seed):
    rep = Report('C13', tier, seed, 'proof')
    rep.notes.append('Late binding proved on fragments (named convention): every non-local rule reference - in parsing position, as a template '
                     'argument, as the callee of a call, the _ignored request of a literal - is an attribute of the RUN-TIME context; super.R is the static '
                     '_super_ctx of the defining module; _run passes the context it received unchanged to every generator it creates. Context completeness, '
                     'override resolution, parent-untouched and ignore inheritance are schematic obligations on real three-level chains.')
    only_ctx = lambda c, cfg: bool(cfg.get('ctx'))
    run_fragments(rep, [core.RefC(), core.StrC(), core.RegexC(), core.ByteC()], tier, only_cfg=only_ctx)
    run_fragments(rep, call.CALL, tier, only_cfg=only_ctx)
    run_rt(rep, rt_run.RUN, tier)
    wiring.entry_point_obligations(rep, tier)
    wiring.inheritance_obligations(rep, tier)
    wiring.derived_start_obligations(rep, tier)
    wiring.derived_namespace_obligations(rep, tier)
    wiring.ignored_rule_is_memoised(rep, tier)
    rep.assumptions.append('A-schematic: chains of length 3 over the stated family (ignore none/named/anonymous per level, X overridden plainly / with super / not at all, '
                           'new rules referring to rules of every ancestor, plain and dotted names); rule bodies are placeholders')
    rep.assumptions.append('the behavioural rows (parse "x"/"B"/"C" through each level) are ground executions on the built chains, run under a 20 s budget')
    dependency_layer(rep, tier)
    return rep.finish()
