"""C19 - alternative spellings of the grammar language are interchangeable."""
from contracts import spellings
from pyvc.report import Report
from .common import run_fragments, dependency_layer
from . import wiring


def run(tier, seed):
    rep = Report('C19', tier, seed, 'other')
    rep.notes.append('Case-complete: for every pair of the statement the real front end (shipped parser + _create_parsing_expression) maps both spellings, over '
                     'abstract operands, to objects that emit TEXTUALLY IDENTICAL code for every child-flag combination and both conventions (identical text => '
                     'identical behaviour). Ground: alternative separators, statement separators, comments/blank lines, line breaks around operators, redundant '
                     'parentheses, ignore/ignored, bare expression vs start = expr give identical syntax trees; unparenthesised operators group as grammar.txt says. '
                     'Deductive: for every operator and constructor spelling the object the front end builds is proved, over abstract operands, to have the meaning the documentation gives that spelling (class contract with the documented options). The step from these finitely many renderings to "every combination of layouts on every grammar" rests on C01-C05 (meaning of the '
                     'projections that discard layout) and C12 (the shipped parser IS grammar.txt) and is a paper argument.')
    wiring.spelling_obligations(rep, tier)
    # the documented MEANING of each spelling, proved (all child behaviours) on what the front end builds for it: catches a mapping mistake
    # that both spellings of a pair share (sugar constructors, the operator -> class table of the front end)
    run_fragments(rep, spellings.SPELLED, tier)
    rep.assumptions.append('layout closure: the discarded/normalised positions of grammar.txt (wrap(...), LineSep, Comment/Space ignored, mixfix parentheses) make '
                           'ALL layouts equivalent by the contracts of Skip, Discard, Opt, Sep and operator tables (C01-C03, C02); only representatives are executed')
    dependency_layer(rep, tier)
    return rep.finish()
