"""C20 - user-chosen names cannot collide with generated code."""
from pyvc.report import Report
from . import wiring

from .common import dependency_layer

def run(tier, seed):
    rep = Report('C20', tier, seed, 'proof')
    rep.level = 'proof'
    rep.notes.append('Namespace-disjointness (frame) contract decided by exact static analysis of the text the real generator emits for a grammar that uses '
                     'every expression form with user identifiers spelled U_...: one obligation per generated name (locals of rule code, parameters that '
                     'stand next to user parameters, module-level definitions, builtins reached by bare name), plus the constructor interception set '
                     'and spelling independence of the generator. Since user names reach the emitted text only verbatim, this covers all renamings at once.')
    wiring.namespace_obligations(rep, tier)
    wiring.interception_obligations(rep, tier)
    wiring.spelling_independence_obligations(rep, tier)
    wiring.ref_resolution_obligations(rep, tier)
    wiring.frontend_renaming_obligations(rep, tier)
    rep.assumptions.append('the composite grammar C20_GRAMMAR exercises every expression class and option that allocates names (checked against the class table of wiring.visit_reaches_every_child)')
    rep.assumptions.append('names violating disjointness on the unchanged tree are inherent in the naming scheme (a repair renames every temporary and regenerates parser.py): '
                           'listed one by one in known_findings.json; any NEW colliding name is a violation')
    dependency_layer(rep, tier)
    return rep.finish()
