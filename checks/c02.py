"""C02 - operator tables build the tree dictated by precedence and associativity."""
from contracts import optable, optable_ref, core, bind, segments
from pyvc.report import Report
from .common import run_fragments, dependency_layer
from . import wiring


def run(tier, seed):
    rep = Report('C02', tier, seed, 'proof')
    rep.notes.append('Shunting-yard fragment proved over ABSTRACT operand/prefix/infix/postfix children whose values carry SYMBOLIC (precedence, '
                     'associativity) tags (one run covers all tables): stack safety (every pop / index / unpack), position protocol (the expression ends right '
                     'after the last operand or postfix operator parsed: a dangling operator is left unconsumed, a second non-associative operator ends the '
                     'expression), exactly one tree remains, status and flags - and the SHAPE of the tree: a ghost record per operand-stack slot (precedence of '
                     'the open-left / open-right operator, first and one-past-last consumed occurrence) is maintained on the real pops / appends / Infix, Prefix, '
                     'Postfix constructions; EVERY construction carries the local clauses of the statement as obligations (operands are the adjacent occurrences '
                     'in input order; the left operand binds tighter, or equally in a left row; the right operand binds tighter, or equally in a right row; '
                     'operands of prefix / postfix operators bind at least as tight; the operator stored is the one popped); stack invariants W0-W5 / K1-K8 '
                     'carry them through the six loops; posts: the tree is well-shaped, spans exactly the committed occurrences, and the expression ends only '
                     'because no operand / no infix operator follows or a non-associative operator would be chained (P-stop). Tagging by OperatorTable.create '
                     'decided case-complete (a row has one kind: rowkind); Longest (longest match among rows) and Apply (tagging) by their C01/C05 contracts. '
                     'A brute-force reference of the statement vs the real parser on all token sequences up to a length runs in addition (bounded, an independent cross-check).')
    run_fragments(rep, optable.OPTABLE + [core.LongestC(), bind.ApplyC(), core.ChoiceC()], tier,
                  only_cfg=lambda c, cfg: len(cfg.get('flags', [])) <= 3)
    optable.CreateC().obligations(rep, tier)
    # "reading the operands and operators of the resulting tree in order reproduces the occurrences consumed": the generic readers
    # (traverse, visit, _asdict, repr) go by _fields - which must list operand / operator / operand in input order
    wiring.operator_node_classes(rep, tier)
    # operators and operands of a row may be any expression (a multi-token operator is a sequence): the table relies on the static flags
    # of whatever it is given - the flag clauses of the core classes, re-run here
    run_fragments(rep, core.CORE, tier, clause_filter=lambda name: any(t in name for t in ('G-as', 'G-cps', 'G-flags')),
                  only_cfg=lambda c, cfg: len(cfg.get('flags', [])) <= 2)
    # tables with many rows of one kind combine them by Longest of that arity: proved for every arity by segment induction
    segments.LongestSegments().run(rep, tier)
    segments.ChoiceSegments().run(rep, tier)
    wiring.a_subst_obligations(rep, tier)
    maxlen = 6 if tier == 'quick' else 8
    bad, tried, bound = optable_ref.bounded(maxlen)
    rep.bounded.append({'unit': 'tree shape: generated parser vs brute-force reference of the statement', 'bound': bound, 'tried': tried, 'violations': len(bad)})
    if bad:
        rep.add('bounded:tree-shape', 'the generated parser returns the well-shaped tree over the longest prefix that has one', 'bounded', False,
                detail={'violations': bad[:3]}, replay={'reproduced': True, 'violated': bad[:3]})
    rep.assumptions.append('well-shapedness of the WHOLE tree follows from the per-construction obligations by induction on the tree (every node ever built satisfied its local '
                           'clause w.r.t. well-shaped operands); the in-order reading of a tree spanning occurrences [lo, hi) being exactly those occurrences likewise (paper, two lines each)')
    rep.assumptions.append('uniqueness of the well-shaped tree and optimality of the greedy run ("longest run that fits") are NOT proved: P-stop pins the three reasons for which the real '
                           'loop ends; BOUNDED cross-check (not counted as proved): brute-force reference of the statement on all '
                           f'token sequences up to length {maxlen} over 6 tables (shared prefix/infix spellings, non-associative rows, prefix looser/tighter than infix)')
    rep.assumptions.append('rowkind: a row has ONE kind, so entries of equal precedence have equal kind and a postfix row shares its precedence with no prefix / infix row (OperatorTable.create, decided by CreateC)')
    rep.assumptions.append('child value typing: what OperatorTable.create builds (Apply(operators, tagger)) returns (row, kind, operator) triples resp. (row, operator) pairs - decided by CreateC + Apply contract')
    dependency_layer(rep, tier)
    return rep.finish()
