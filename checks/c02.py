"""C02 - operator tables build the tree dictated by precedence and associativity."""
from contracts import optable, optable_ref, core, bind, segments
from pyvc.report import Report
from .common import run_fragments
from . import wiring


def run(tier, seed):
    rep = Report('C02', tier, seed, 'proof')
    rep.notes.append('Shunting-yard fragment proved over ABSTRACT operand/prefix/infix/postfix children whose values carry SYMBOLIC (precedence, '
                     'associativity) tags (one run covers all tables): stack safety (every pop / index / unpack), position protocol (the expression ends right '
                     'after the last operand or postfix operator parsed: a dangling operator is left unconsumed, a second non-associative operator ends the '
                     'expression), exactly one tree remains, status and flags. Tagging by OperatorTable.create decided case-complete; Longest (longest match '
                     'among rows) and Apply (tagging) by their C01/C05 contracts. The SHAPE of the tree (precedence / associativity / fringe) is a BOUNDED '
                     'stand-in: brute-force reference of the statement vs the real parser on all token sequences up to a length.')
    run_fragments(rep, optable.OPTABLE + [core.LongestC(), bind.ApplyC(), core.ChoiceC()], tier,
                  only_cfg=lambda c, cfg: len(cfg.get('flags', [])) <= 3)
    optable.CreateC().obligations(rep, tier)
    # tables with many rows of one kind combine them by Longest of that arity: proved for every arity by segment induction
    segments.LongestSegments().run(rep, tier)
    segments.ChoiceSegments().run(rep, tier)
    wiring.a_subst_obligations(rep, tier)
    maxlen = 6 if tier == 'quick' else 8
    bad, tried, bound = optable_ref.bounded(maxlen)
    rep.bounded.append({'unit': 'tree shape: generated parser vs brute-force reference of the statement', 'bound': bound, 'tried': tried, 'violations': len(bad)})
    if bad:
        rep.add('bounded:tree-shape', 'the generated parser returns the well-shaped tree over the longest prefix that has one', 'bounded', False,
                detail={'violations': bad[:3]}, replay={'reproduced': True, 'violated': bad[:3]})
    rep.assumptions.append('BOUNDED (not counted as proved): the tree-shape / in-order-fringe / longest-run clauses are compared with a brute-force reference on all '
                           f'token sequences up to length {maxlen} over 6 tables (shared prefix/infix spellings, non-associative rows, prefix looser/tighter than infix)')
    rep.assumptions.append('child value typing: what OperatorTable.create builds (Apply(operators, tagger)) returns (row, kind, operator) triples resp. (row, operator) pairs - decided by CreateC + Apply contract')
    return rep.finish()
