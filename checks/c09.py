"""C09 - reported error locations point at a real, consistent input location."""
from contracts import core, lists, bind, rt_errors, rt_misc
from pyvc.report import Report
from pyvc.rtver import RtCx
from .common import run_fragments, run_rt, run_vcs, dependency_layer


def fpos_filter(name):
    return name.startswith(('post:G-fpos', 'post:G-range', 'post:G-err', 'loop')) or name.startswith('safety:')


def run(tier, seed):
    rep = Report('C09', tier, seed, 'proof')
    rep.notes.append('Line/column map proved against nl/lastnl spec functions with a loop invariant; excerpt proved with strings as ropes '
                     '(window and caret clauses are linear arithmetic over piece lengths, slices must be un-clipped); error functions raise '
                     'ParseError with (pos, None, None) exactly at end of input; every fragment reports a failure position that some '
                     'sub-attempt left behind (G-fpos) inside [0, len(text)] (G-range).')
    run_rt(rep, rt_errors.RT, tier)
    run_rt(rep, rt_misc.EXC, tier)        # the messages: PartialParseError carries the excerpt unchanged, on a fresh line
    for b in (False, True):
        cx = RtCx(None, {'bytes': b})
        run_vcs(rep, f'lemma:lastnl-props[bytes={b}]', rt_errors.lemma_vcs(cx))
    run_fragments(rep, core.CORE + lists.LISTS + bind.BIND, tier, clause_filter=fpos_filter,
                  only_cfg=lambda c, cfg: cfg.get('regime') != 'max<min')
    rep.assumptions.append('re contract for the line-break search: search(text, k) returns the first index >= k holding a line break, or None')
    rep.assumptions.append('strings are modelled as ropes (literal pieces, un-clipped slices of the text, runs of spaces); no string solver involved')
    rep.assumptions.append('the statement about the message text is about its structure (pieces); f-string formatting of ints is not modelled')
    dependency_layer(rep, tier)
    return rep.finish()
