"""C06 - parameterised rules behave like their expansion."""
from contracts import call, core, rt_objects
from pyvc.report import Report
from .common import run_fragments, run_rt, dependency_layer
from . import wiring


def run(tier, seed):
    rep = Report('C06', tier, seed, 'proof')
    rep.notes.append('Call fragment proved: one request (CALL, _ParseFunction(callee, args in order, keyword pairs), entry position), registers := the '
                     'driver\'s answer, for every argument kind x calling convention x positional/keyword; argument adaptor decided case by case on emitted '
                     'text (helper parameters = captured tuple, body = inline fragment + final yield, no free names); wrappers executed on sentinels; '
                     'template bodies are functions of their parameters only (python locals), so instantiations cannot interfere given adequate memo keys.')
    run_fragments(rep, call.CALL + [core.RefC()], tier)
    # object-valued arguments are memo-key components: their == must be exactly structural equality (C14 contract)
    run_rt(rep, [rt_objects.EqC(), rt_objects.HashC()], tier)
    wiring.argument_adaptor_obligations(rep, tier)
    wiring.a_subst_obligations(rep, tier)
    wiring.closure_obligations(rep, tier)
    wiring.callable_wrapper_obligations(rep, tier)
    wiring.key_adequacy_obligations(rep, tier)
    wiring.interception_obligations(rep, tier)
    wiring.ref_resolution_obligations(rep, tier)
    wiring.frontend_definition_obligations(rep, tier)
    wiring.visit_reaches_every_child(rep, tier)
    rep.assumptions.append('expansion semantics on paper: the callee body, being a rule function over python locals, behaves as the body with each '
                           'parameter replaced by the argument value (C05 frame); _run\'s same-outcome clause (C07) needs == keys to have equal outcomes')
    # the scope tracker that decides which names are local / captured (bounded stand-in for a data-structure contract)
    wiring.symbol_counter_obligations(rep, tier)
    dependency_layer(rep, tier)
    return rep.finish()
