"""C14 - parsed objects are values: equality, hashing, copying and repr agree."""
from contracts import rt_objects
from pyvc.report import Report
from pyvc.rtver import RtCx
from .common import run_rt, dependency_layer
from . import wiring


def run(tier, seed):
    rep = Report('C14', tier, seed, 'proof')
    rep.notes.append('ParsedObject.__eq__ / __hash__ / _replace proved with loop invariants over recursive spec functions (EQF, XF) and a closed-form '
                     'dict invariant; _hash proved against the xor-fold spec; _Metadata.__getattr__ proved TOTAL on instances whose __dict__ is '
                     'still empty (the copy / pickle protocol); emitted classes tied to the field list by exact text analysis.')
    run_rt(rep, rt_objects.OBJECTS + rt_objects.MORE, tier)
    wiring.class_compile_obligations(rep, tier)
    wiring.operator_node_classes(rep, tier)
    wiring.metadata_obligations(rep, tier)
    wiring.pickle_lookup_obligations(rep, tier)
    if tier == 'thorough':
        bad, tried, bound = rt_objects.bounded_values()
        rep.bounded.append({'unit': 'value laws (==, hash, _asdict, _replace, deepcopy, pickle, repr)', 'bound': bound, 'tried': tried, 'violations': len(bad)})
        if bad:
            rep.add('bounded:value-laws', 'laws hold on the fixed family', 'bounded', False, detail={'violations': bad[:3]}, replay={'reproduced': True, 'violated': bad[:3]})
    rep.assumptions.append('copy / pickle are dependencies known by their documented protocol (__reduce_ex__(4), copyreg.__newobj__, hasattr(y, "__setstate__"), __dict__.update)')
    rep.assumptions.append('equivalence-relation and eq=>hash laws for whole trees follow from the per-object contracts by induction on height, given that == on foreign field values is an equivalence and xor is associative/commutative (paper)')
    rep.assumptions.append('hash cache is sound for objects not mutated after hashing (fields are plain attributes)')
    dependency_layer(rep, tier)
    return rep.finish()
