/-!
# The composition step of the segment induction (DESIGN.md section 0, deviation 4)

`contracts/segments.py` proves, for Choice / Longest / Skip / Seq, one Hoare triple per segment SHAPE from an ARBITRARY state
satisfying the cut-point invariant `J` (the segment either leaves the construct with an outcome satisfying the post `Q`, or falls
through to the next segment in a state satisfying `J` again), a triple for the tail, and a closure check that every segment of
an expression of any arity is one of the proved shapes.  This file is the machine-checked step from those triples to the
statement about a construct with ANY number of segments.  `S` is the state (registers + ghost summary), `O` the outcome.
-/
namespace Sourcer

/-- a segment, run from a state, either leaves the construct with an outcome (`inl`) or continues in a new state (`inr`);
    a relation, so nothing is assumed about determinism or termination -/
abbrev Seg (S O : Type) := S → Sum O S → Prop

/-- running the segments in order, then the tail -/
inductive RunSegs {S O : Type} (tail : S → O → Prop) : List (Seg S O) → S → O → Prop
  | done {s o} : tail s o → RunSegs tail [] s o
  | leave {seg rest s o} : seg s (.inl o) → RunSegs tail (seg :: rest) s o
  | next {seg rest s s' o} : seg s (.inr s') → RunSegs tail rest s' o → RunSegs tail (seg :: rest) s o

/-- what is proved per segment shape: from any `J`-state, leave with `Q` or re-establish `J` -/
def Triple {S O : Type} (J : S → Prop) (Q : O → Prop) (seg : Seg S O) : Prop :=
  ∀ s, J s → ∀ r, seg s r → (match r with | .inl o => Q o | .inr s' => J s')

theorem segments_sound {S O : Type} (J : S → Prop) (Q : O → Prop) (tail : S → O → Prop)
    (htail : ∀ s o, J s → tail s o → Q o) :
    ∀ (segs : List (Seg S O)), (∀ seg, seg ∈ segs → Triple J Q seg) → ∀ s o, J s → RunSegs tail segs s o → Q o := by
  intro segs hsegs s o hJ hrun
  induction hrun with
  | done ht => exact htail _ _ hJ ht
  | leave h => exact hsegs _ (List.mem_cons_self ..) _ hJ _ h
  | next h _ ih =>
      have hJ' := hsegs _ (List.mem_cons_self ..) _ hJ _ h
      exact ih (fun seg hm => hsegs seg (List.mem_cons_of_mem _ hm)) hJ'

/-- with the head segment establishing `J` from the entry condition `P` -/
theorem construct_sound {S O : Type} (P J : S → Prop) (Q : O → Prop) (head : Seg S O) (tail : S → O → Prop)
    (hhead : ∀ s, P s → ∀ r, head s r → (match r with | .inl o => Q o | .inr s' => J s'))
    (htail : ∀ s o, J s → tail s o → Q o)
    (segs : List (Seg S O)) (hsegs : ∀ seg, seg ∈ segs → Triple J Q seg) :
    ∀ s o, P s → RunSegs tail (head :: segs) s o → Q o := by
  intro s o hP hrun
  cases hrun with
  | leave h => exact hhead _ hP _ h
  | next h hrest => exact segments_sound J Q tail htail segs hsegs _ _ (hhead _ hP _ h) hrest

end Sourcer

#print axioms Sourcer.segments_sound
#print axioms Sourcer.construct_sound
