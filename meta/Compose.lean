/-!
# The combination lemma behind assumption A-meta (DESIGN.md section 4)

The checks of /verif discharge obligations *per unit*: the text one expression class emits, over ABSTRACT children
(uninterpreted `ok_k/val_k/end_k/fpos_k/err_k(pos, rho)` constrained by the child contract and the child's static
flags), the `Ref` fragment against the driver contract, the rule wrapper and the driver `_run`.  This file is the
machine-checked step from those per-unit statements to a statement about EVERY grammar: structural induction over the
expression tree (substitution of fragments for the markers) and induction over the unfolding depth of rule references
(partial correctness - a non-terminating run is `none` and satisfies every contract vacuously).

Nothing here talks about Python.  The hypotheses `hstep`, `href`, `hwrap` have exactly the logical form of the clause
families the SMT back end proves (for ALL child meanings satisfying the contract ...), and `hfin` is the operational
fact that a terminating run has finite call depth.  That these hypotheses are what the VCs establish for the real code
is the part of A-meta that stays a reading of DESIGN.md; the induction itself is no longer on paper.

Checked by `lean meta/Compose.lean` (core Lean only, no Mathlib); `#print axioms` may list only `propext` (a standard axiom of Lean, used by `simp`); `sorryAx` or anything else is a failure.
-/
namespace Sourcer

/-- what a terminating run of a fragment leaves in the registers: status, value, end position, farthest position, error payload -/
structure Outcome (V : Type) where
  ok   : Bool
  val  : V
  endp : Nat
  fpos : Nat
  err  : V

/-- the meaning of a piece of emitted text: a deterministic function of the start position and the environment `rho`
    (bound names, parameters, the text itself); `none` = the run does not terminate -/
abbrev Sem (V Env : Type) := Nat → Env → Option (Outcome V)

/-- a fragment: its meaning and its static flags (AS / NP / PS of the contracts) -/
structure Frag (V Env Flags : Type) where
  sem   : Sem V Env
  flags : Flags

/-- `Good C f`: every terminating run of `f` satisfies the pointwise contract `C` (the conjunction of the generic clauses
    G-ok .. G-bool and of the clauses of the property at hand), read with the static flags of `f` itself -/
def Good {V Env Flags : Type} (C : Flags → Nat → Env → Outcome V → Prop) (f : Frag V Env Flags) : Prop :=
  ∀ p ρ o, f.sem p ρ = some o → C f.flags p ρ o

/-- the contract of a rule as seen through the driver (the answer to the request `(CALL, f, pos)`) -/
def GoodSem {V Env : Type} (D : Nat → Env → Outcome V → Prop) (s : Sem V Env) : Prop :=
  ∀ p ρ o, s p ρ = some o → D p ρ o

mutual
  /-- expression trees: a class/configuration applied to sub-expressions, or a reference to a rule -/
  inductive Expr (Cls R : Type) : Type
    | node : Cls → Kids Cls R → Expr Cls R
    | ref  : R → Expr Cls R
  inductive Kids (Cls R : Type) : Type
    | nil  : Kids Cls R
    | cons : Expr Cls R → Kids Cls R → Kids Cls R
end

section
variable {Cls R V Env Flags : Type}
/- `step c kids`: the meaning (and flags) of the text `X._compile` emits for class/configuration `c` once every marker is
    replaced by a fragment with meaning `kids[i]` (A-subst: a parent uses a child only through `compile` and the flags) -/
variable (step : Cls → List (Frag V Env Flags) → Frag V Env Flags)
/- the `Ref` fragment, given the meaning of the rule it names (request / answer through the driver) -/
variable (refStep : R → Sem V Env → Frag V Env Flags)
/- the rule function around a body, run by the driver (memo included) -/
variable (wrap : Frag V Env Flags → Sem V Env)

mutual
  def denote (rules : R → Sem V Env) : Expr Cls R → Frag V Env Flags
    | .node c ks => step c (denoteKids rules ks)
    | .ref r     => refStep r (rules r)
  def denoteKids (rules : R → Sem V Env) : Kids Cls R → List (Frag V Env Flags)
    | .nil       => []
    | .cons e ks => denote rules e :: denoteKids rules ks
end

/-- rule meanings by unfolding depth: depth 0 never answers -/
def ruleSem (body : R → Expr Cls R) : Nat → R → Sem V Env
  | 0,     _ => fun _ _ => none
  | n + 1, r => wrap (denote step refStep (ruleSem body n) (body r))

variable (C : Flags → Nat → Env → Outcome V → Prop) (D : Nat → Env → Outcome V → Prop)

mutual
  /-- structural induction: with good rule meanings, every expression tree denotes a good fragment -/
  theorem good_denote
      (hstep : ∀ c kids, (∀ k, k ∈ kids → Good C k) → Good C (step c kids))
      (href  : ∀ r s, GoodSem D s → Good C (refStep r s))
      (rules : R → Sem V Env) (hr : ∀ r, GoodSem D (rules r)) :
      ∀ e : Expr Cls R, Good C (denote step refStep rules e)
    | .node c ks => by
        simp only [denote]
        exact hstep c _ (good_kids hstep href rules hr ks)
    | .ref r => by
        simp only [denote]
        exact href r _ (hr r)
  theorem good_kids
      (hstep : ∀ c kids, (∀ k, k ∈ kids → Good C k) → Good C (step c kids))
      (href  : ∀ r s, GoodSem D s → Good C (refStep r s))
      (rules : R → Sem V Env) (hr : ∀ r, GoodSem D (rules r)) :
      ∀ ks : Kids Cls R, ∀ k, k ∈ denoteKids step refStep rules ks → Good C k
    | .nil => by
        intro k hk
        simp [denoteKids] at hk
    | .cons e ks => by
        intro k hk
        simp only [denoteKids, List.mem_cons] at hk
        cases hk with
        | inl h => exact h ▸ good_denote hstep href rules hr e
        | inr h => exact good_kids hstep href rules hr ks k h
end

/-- induction over the unfolding depth: every finite unfolding of every rule satisfies the rule contract -/
theorem good_ruleSem
    (hstep : ∀ c kids, (∀ k, k ∈ kids → Good C k) → Good C (step c kids))
    (href  : ∀ r s, GoodSem D s → Good C (refStep r s))
    (hwrap : ∀ f, Good C f → GoodSem D (wrap f))
    (body : R → Expr Cls R) :
    ∀ n r, GoodSem D (ruleSem step refStep wrap body n r)
  | 0, r => by
      intro p ρ o h
      simp [ruleSem] at h
  | n + 1, r => by
      simp only [ruleSem]
      exact hwrap _ (good_denote step refStep C D hstep href _ (good_ruleSem hstep href hwrap body n) (body r))

/-- **A-meta.**  `L` is what the generated module really computes for each rule.  If every terminating run of `L` has finite
    call depth (`hfin`: it coincides with some finite unfolding), then every rule of every grammar satisfies the rule
    contract on every terminating run - from nothing but the per-unit statements `hstep`, `href`, `hwrap`. -/
theorem a_meta
    (hstep : ∀ c kids, (∀ k, k ∈ kids → Good C k) → Good C (step c kids))
    (href  : ∀ r s, GoodSem D s → Good C (refStep r s))
    (hwrap : ∀ f, Good C f → GoodSem D (wrap f))
    (body : R → Expr Cls R) (L : R → Sem V Env)
    (hfin : ∀ r p ρ o, L r p ρ = some o → ∃ n, ruleSem step refStep wrap body n r p ρ = some o) :
    ∀ r, GoodSem D (L r) := by
  intro r p ρ o h
  obtain ⟨n, hn⟩ := hfin r p ρ o h
  exact good_ruleSem step refStep wrap C D hstep href hwrap body n r p ρ o hn

/-- ... and so does every expression evaluated inside such a module -/
theorem a_meta_expr
    (hstep : ∀ c kids, (∀ k, k ∈ kids → Good C k) → Good C (step c kids))
    (href  : ∀ r s, GoodSem D s → Good C (refStep r s))
    (hwrap : ∀ f, Good C f → GoodSem D (wrap f))
    (body : R → Expr Cls R) (L : R → Sem V Env)
    (hfin : ∀ r p ρ o, L r p ρ = some o → ∃ n, ruleSem step refStep wrap body n r p ρ = some o) :
    ∀ e : Expr Cls R, Good C (denote step refStep L e) :=
  good_denote step refStep C D hstep href L (a_meta step refStep wrap C D hstep href hwrap body L hfin)

end

/-- vacuity guard: the hypotheses are satisfiable with a contract that is not trivially true (one class whose fragment
    fails without moving, contract "a failure ends where it started") and the conclusion is not trivially true either -/
example : ∃ (C : Unit → Nat → Unit → Outcome Nat → Prop), (¬ ∀ f p ρ o, C f p ρ o) ∧
    ∀ kids : List (Frag Nat Unit Unit), (∀ k, k ∈ kids → Good C k) →
      Good C ⟨fun p _ => some ⟨false, 0, p, p, 0⟩, ()⟩ := by
  refine ⟨fun _ p _ o => o.ok = false → o.endp = p, ?_, ?_⟩
  · intro h
    have := h () 0 () ⟨false, 0, 1, 0, 0⟩ rfl
    simp at this
  · intro kids _ p ρ o h
    simp at h
    intro _
    rw [← h]

end Sourcer

#print axioms Sourcer.a_meta
#print axioms Sourcer.a_meta_expr
