"""BOUNDED stand-in for the shape clause of C02 (never counted as proved).

Reference = the statement itself, executed by brute force: for a token sequence, enumerate ALL Infix/Prefix/Postfix trees
whose in-order reading is a prefix of the sequence, keep the well-shaped ones (WS: earlier rows bind tighter, left/right rows
group accordingly, non-associative operators are never chained, prefix/postfix attach according to their row), take the longest
prefix that has one.  The real generated parser must consume exactly that prefix and return that (unique) tree."""
import itertools


def rows_of(table):
    """table: list of (kind, [spellings]) -> per spelling the (row, kind) uses"""
    uses = {}
    for ri, (kind, ops) in enumerate(table):
        for o in ops:
            uses.setdefault(o, []).append((ri, kind))
    return uses


def trees(tokens, i, j, uses, memo):
    key = (i, j)
    if key in memo:
        return memo[key]
    out = []
    if j - i == 1 and tokens[i] == 'n':
        out.append(('n',))
    if j - i >= 2:
        for (ri, kind) in uses.get(tokens[i], []):
            if kind == 'prefix':
                out += [('pre', (ri, kind, tokens[i]), r) for r in trees(tokens, i + 1, j, uses, memo)]
        for (ri, kind) in uses.get(tokens[j - 1], []):
            if kind == 'postfix':
                out += [('post', l, (ri, kind, tokens[j - 1])) for l in trees(tokens, i, j - 1, uses, memo)]
        for k in range(i + 1, j - 1):
            for (ri, kind) in uses.get(tokens[k], []):
                if kind in ('left', 'right', 'infix'):
                    ls = trees(tokens, i, k, uses, memo)
                    if ls:
                        rs = trees(tokens, k + 1, j, uses, memo)
                        out += [('in', l, (ri, kind, tokens[k]), r) for l in ls for r in rs]
    memo[key] = out
    return out


def open_r(t):      # root operator whose RIGHT side is open
    return t[2] if t[0] == 'in' else (t[1] if t[0] == 'pre' else None)


def open_l(t):      # root operator whose LEFT side is open
    return t[2] if t[0] in ('in', 'post') else None


def ws(t):
    if t[0] == 'n':
        return True
    if t[0] == 'in':
        _, l, o, r = t
        if not (ws(l) and ws(r)):
            return False
        n = open_r(l)
        if n is not None and not (n[0] < o[0] or (n[0] == o[0] and o[1] == 'left')):
            return False
        n = open_l(r)
        if n is not None and not (n[0] < o[0] or (n[0] == o[0] and o[1] == 'right')):
            return False
        return True
    if t[0] == 'pre':
        _, o, r = t
        n = open_l(r)
        return ws(r) and (n is None or n[0] <= o[0])
    _, l, o = t
    n = open_r(l)
    return ws(l) and (n is None or n[0] <= o[0])


def reference(tokens, table):
    """-> (consumed length, [well-shaped trees over that prefix]) ; (0, []) when no expression starts here"""
    uses = rows_of(table)
    for L in range(len(tokens), 0, -1):
        memo = {}
        good = [t for t in trees(tokens, 0, L, uses, memo) if ws(t)]
        if good:
            return L, good
    return 0, []


def strip(t):
    if t[0] == 'n':
        return 'n'
    if t[0] == 'in':
        return ('in', strip(t[1]), t[2][2], strip(t[3]))
    if t[0] == 'pre':
        return ('pre', t[1][2], strip(t[2]))
    return ('post', strip(t[1]), t[2][2])


def native_tree(v, g):
    if isinstance(v, str):
        return 'n'
    if isinstance(v, g.Infix):
        return ('in', native_tree(v.left, g), v.operator, native_tree(v.right, g))
    if isinstance(v, g.Prefix):
        return ('pre', v.operator, native_tree(v.right, g))
    if isinstance(v, g.Postfix):
        return ('post', native_tree(v.left, g), v.operator)
    raise TypeError(repr(v))


TABLES = {
    'two left rows': [('left', ['*']), ('left', ['+'])],
    'right, prefix, left, postfix': [('right', ['^']), ('prefix', ['-']), ('left', ['+']), ('postfix', ['!'])],
    'non-associative row sharing its spelling with a prefix row': [('infix', ['-']), ('prefix', ['-']), ('left', ['+'])],
    'postfix tightest, prefix, left, right loosest': [('postfix', ['!']), ('prefix', ['~']), ('left', ['*']), ('right', ['^'])],
    'prefix looser than the infix row': [('left', ['*']), ('prefix', ['-']), ('postfix', ['?'])],
    'two operators in one row, non-associative row in the middle': [('left', ['*', '/']), ('infix', ['=']), ('right', ['>'])],
}


def description(table, operand='"n"'):
    rows = '\n'.join(f'    {kind}: ' + ', '.join(f'"{o}"' for o in ops) for kind, ops in table)
    return f'start = {operand} between {{\n{rows}\n}}'


def bounded(maxlen=6, tables=None):
    """-> (violations, tried, bound)"""
    from sourcer import Grammar
    bad, tried, ambiguous = [], 0, 0
    for name, table in (tables or TABLES).items():
        g = Grammar(description(table))
        alpha = ['n'] + sorted({o for _, ops in table for o in ops})
        for n in range(1, maxlen + 1):
            for toks in itertools.product(alpha, repeat=n):
                text = ''.join(toks)
                tried += 1
                L, good = reference(list(toks), table)
                try:
                    r = g.parse(text)
                    got = (len(text), native_tree(r, g))
                except g.PartialParseError as e:
                    got = (e.last_position.index, native_tree(e.partial_result, g))
                except g.ParseError:
                    got = (0, None)
                except Exception as e:
                    bad.append({'table': name, 'text': text, 'raised': repr(e)})
                    continue
                want_trees = {strip(t) for t in good}
                if len(want_trees) > 1:
                    ambiguous += 1
                if got[0] != L or (L > 0 and got[1] not in want_trees):
                    bad.append({'table': name, 'description': description(table), 'text': text, 'consumed': got[0], 'tree': repr(got[1]),
                                'expected_consumed': L, 'expected_trees': [repr(t) for t in sorted(want_trees, key=repr)][:3]})
                    if len(bad) >= 8:
                        return bad, tried, f'all token sequences up to length {maxlen} over each table\'s alphabet, {len(TABLES)} tables (stopped early)'
    return bad, tried, f'all token sequences up to length {maxlen} over each table\'s alphabet, {len(tables or TABLES)} tables; {ambiguous} sequences with more than one well-shaped tree (any accepted)'
