"""Contracts of the core PEG expression classes (C01; reused by C03, C04, C09, C11, C13).

Every spec below is the documented PEG meaning (README "Parsing Expressions", property C01), written
over the ABSTRACT outcome functions of the children.  Nothing here reads the class's ``_compile``."""
import ast
import itertools
import z3
from z3 import And, Or, Not, Implies, If, IntVal, BoolVal, Const, Function, Length, ForAll, Select, Empty, Unit, Concat

from pyvc import frag
from pyvc.frag import ex as X, Stub, FLAGS, FLAG_NAMES
from pyvc.fragver import (FragContract, Child, Outcome, LoopSpec, RHO0, reach, d_ok, d_val, d_end, d_fpos, d_err,
                          re_ok, re_end, re_val, is_empty_list, is_name)
from pyvc.symx import Val, I, B, SeqV, NONE, list_v, int_v, StrLit

NAME2FLAGS = {v: k for k, v in FLAG_NAMES.items()}


def mk_children(flag_names, first=1):
    """-> (list of real-Expression stubs, list of Child contracts); 'FAIL' = the real Fail() class"""
    nodes, kids = [], []
    for i, fn in enumerate(flag_names):
        k = first + i
        if fn == 'FAIL':
            nodes.append(X.Fail())
            kids.append(None)
        else:
            f = NAME2FLAGS[fn]
            nodes.append(Stub(k, *f))
            kids.append(Child(k, *f))
    return nodes, kids


def flag_products(n, catalogue=('AS', 'NP', 'PS')):
    return [list(t) for t in itertools.product(catalogue, repeat=n)]


def ctxs(tier):
    return (False, True)


IGN = {False: Const('_try__ignored', Val), True: Const('_ctx._try__ignored', Val)}


def ign_end(ctx, q):
    """position after skipping ignored text from q: the driver's answer for the _ignored rule (always succeeds)"""
    return d_end(IGN[ctx], q)


def ref_skip(cx, W, q):
    if not cx.cfg['skip']:
        return q
    from pyvc.replay import Tok
    return W.request(Tok(IGN[cx.uses_context]), q)[2]


class WithIgnored:
    """mixin: units whose fragments may request the _ignored rule"""
    def setup(self, cx, ex, st):
        cx.ignored_callee = lambda: IGN[cx.uses_context]


# ------------------------------------------------------------------------------------------------ Opt
class OptC(FragContract):
    cls_name = 'Opt'

    def configs(self, tier):
        for f in ('AS', 'NP', 'PS'):
            for ctx in ctxs(tier):
                yield {'flags': [f], 'ctx': ctx}

    def build(self, cfg):
        nodes, kids = mk_children(cfg['flags'])
        return X.Opt(nodes[0]), kids

    def spec(self, cx, ex, st):
        c = cx.kids[1]
        ok = c.ok(cx.p0, RHO0)
        return Outcome(BoolVal(True), If(ok, c.val(cx.p0, RHO0), NONE), If(ok, c.end(cx.p0, RHO0), cx.p0))

    def ref(self, cx, W, user):
        ok, v, e = W.child(1, W.p0)
        return (True, v, e) if ok else (True, None, W.p0)


# ------------------------------------------------------------------------------------------------ Choice
def first_match(cx, kids, p):
    """(anyok, val, end) of ordered choice over kids at p; kids[i] None = Fail()"""
    anyok, val, end = BoolVal(False), NONE, p
    for c in reversed(kids):
        if c is None:
            continue
        ok = c.ok(p, RHO0)
        val = If(ok, c.val(p, RHO0), val)
        end = If(ok, c.end(p, RHO0), end)
    oks = [c.ok(p, RHO0) for c in kids if c is not None]
    anyok = Or(*oks) if oks else BoolVal(False)
    return anyok, val, end


class ChoiceC(FragContract):
    cls_name = 'Choice'
    cls = 'Choice'

    def configs(self, tier):
        ns = (1, 2, 3) if tier == 'quick' else (1, 2, 3, 4)
        for n in ns:
            cat = ('AS', 'NP', 'PS', 'FAIL') if n <= 3 else ('AS', 'NP', 'PS')
            for fl in flag_products(n, cat):
                for ctx in ((False,) if n >= 3 else ctxs(tier)):
                    yield {'flags': fl, 'ctx': ctx}

    def build(self, cfg):
        nodes, kids = mk_children(cfg['flags'])
        return getattr(X, self.cls)(*nodes), [k for k in kids if k is not None]

    def kid_list(self, cx):
        out = []
        for i, fn in enumerate(cx.cfg['flags']):
            out.append(None if fn == 'FAIL' else cx.kids[i + 1])
        return out

    def spec(self, cx, ex, st):
        anyok, val, end = first_match(cx, self.kid_list(cx), cx.p0)
        return Outcome(anyok, val, end)

    def ref(self, cx, W, user):
        for i, fn in enumerate(cx.cfg['flags']):
            if fn == 'FAIL':
                continue
            ok, v, e = W.child(i + 1, W.p0)
            if ok:
                return True, v, e
        return False, None, W.p0


# ------------------------------------------------------------------------------------------------ Longest
class LongestC(ChoiceC):
    cls_name = 'Longest'
    cls = 'Longest'

    def configs(self, tier):
        ns = (1, 2, 3) if tier == 'quick' else (1, 2, 3, 4)
        for n in ns:
            cat = ('AS', 'NP', 'PS', 'FAIL') if n <= 2 else ('AS', 'NP', 'PS')
            for fl in flag_products(n, cat):
                if n == 1 and fl == ['FAIL']:
                    continue
                yield {'flags': fl, 'ctx': False}

    def spec(self, cx, ex, st):
        kids = [k for k in self.kid_list(cx) if k is not None]
        p = cx.p0
        oks = [c.ok(p, RHO0) for c in kids]
        anyok = Or(*oks) if oks else BoolVal(False)
        # winner: the successful option with the largest end, the first one on ties
        val, end = NONE, p
        for i in reversed(range(len(kids))):
            c = kids[i]
            better = [Or(Not(kids[j].ok(p, RHO0)), kids[j].end(p, RHO0) < c.end(p, RHO0)) for j in range(i)]
            not_worse = [Or(Not(kids[j].ok(p, RHO0)), kids[j].end(p, RHO0) <= c.end(p, RHO0)) for j in range(i + 1, len(kids))]
            wins = And(c.ok(p, RHO0), *better, *not_worse)
            val = If(wins, c.val(p, RHO0), val)
            end = If(wins, c.end(p, RHO0), end)
        return Outcome(anyok, val, end)

    def ref(self, cx, W, user):
        best = None
        for i, fn in enumerate(cx.cfg['flags']):
            if fn == 'FAIL':
                continue
            ok, v, e = W.child(i + 1, W.p0)
            if ok and (best is None or e > best[2]):
                best = (True, v, e)
        return best or (False, None, W.p0)


# ------------------------------------------------------------------------------------------------ Seq / Discard
def thread(cx, kids, p, rho=RHO0):
    """positions q_i and conjunction of successes when the kids are run one after another from p"""
    oks, vals, q = [], [], p
    for c in kids:
        oks.append(c.ok(q, rho))
        vals.append(c.val(q, rho))
        q = c.end(q, rho)
    return oks, vals, q


def ref_thread(W, ks, user=None):
    q, vals = W.p0, []
    for k in ks:
        ok, v, q = W.child(k, q, user)
        if not ok:
            return False, vals, q
        vals.append(v)
    return True, vals, q


class SeqC(FragContract):
    cls_name = 'Seq'

    def ref(self, cx, W, user):
        return ref_thread(W, range(1, len(cx.cfg['flags']) + 1))

    def configs(self, tier):
        ns = (0, 1, 2, 3) if tier == 'quick' else (0, 1, 2, 3, 4)
        for n in ns:
            for fl in flag_products(n):
                for ctx in ((False,) if n >= 3 else ctxs(tier)):
                    yield {'flags': fl, 'ctx': ctx}

    def build(self, cfg):
        nodes, kids = mk_children(cfg['flags'])
        return X.Seq(*nodes), kids

    def spec(self, cx, ex, st):
        kids = [cx.kids[i + 1] for i in range(len(cx.cfg['flags']))]
        oks, vals, q = thread(cx, kids, cx.p0)
        ok = And(*oks) if oks else BoolVal(True)
        seq = Empty(SeqV) if not vals else (Unit(vals[0]) if len(vals) == 1 else Concat(*[Unit(v) for v in vals]))
        return Outcome(ok, ex.box(seq), q)


class DiscardC(FragContract):
    cls_name = 'Discard'

    def configs(self, tier):
        for fl in flag_products(2):
            for left in (True, False):
                for ctx in ctxs(tier):
                    yield {'flags': fl, 'discard_left': left, 'ctx': ctx}

    def build(self, cfg):
        nodes, kids = mk_children(cfg['flags'])
        return X.Discard(nodes[0], nodes[1], discard_left=cfg['discard_left']), kids

    def spec(self, cx, ex, st):
        kids = [cx.kids[1], cx.kids[2]]
        oks, vals, q = thread(cx, kids, cx.p0)
        return Outcome(And(*oks), vals[1] if cx.cfg['discard_left'] else vals[0], q)

    def ref(self, cx, W, user):
        ok, vals, q = ref_thread(W, [1, 2])
        return ok, (vals[1] if cx.cfg['discard_left'] else vals[0]) if ok else None, q


# ------------------------------------------------------------------------------------------------ lookahead
class ExpectC(FragContract):
    cls_name = 'Expect'

    def configs(self, tier):
        for f in ('AS', 'NP', 'PS'):
            yield {'flags': [f], 'ctx': False}

    def build(self, cfg):
        nodes, kids = mk_children(cfg['flags'])
        return X.Expect(nodes[0]), kids

    def spec(self, cx, ex, st):
        c = cx.kids[1]
        return Outcome(c.ok(cx.p0, RHO0), c.val(cx.p0, RHO0), cx.p0)

    def ref(self, cx, W, user):
        ok, v, e = W.child(1, W.p0)
        return ok, v, W.p0


class ExpectNotC(ExpectC):
    cls_name = 'ExpectNot'

    def build(self, cfg):
        nodes, kids = mk_children(cfg['flags'])
        return X.ExpectNot(nodes[0]), kids

    def spec(self, cx, ex, st):
        c = cx.kids[1]
        return Outcome(Not(c.ok(cx.p0, RHO0)), NONE, cx.p0)

    def ref(self, cx, W, user):
        ok, v, e = W.child(1, W.p0)
        return (not ok), None, W.p0


# ------------------------------------------------------------------------------------------------ leaves
class FailC(FragContract):
    cls_name = 'Fail'

    def configs(self, tier):
        yield {'message': None}
        yield {'message': 'boo'}

    def build(self, cfg):
        return X.Fail(cfg['message']), []

    def spec(self, cx, ex, st):
        return Outcome(BoolVal(False), NONE, cx.p0)

    def ref(self, cx, W, user):
        return False, None, W.p0


class BacktrackC(FragContract):
    cls_name = 'Backtrack'

    def configs(self, tier):
        for k in (0, 1, 2, 7):
            yield {'amount': k}

    def build(self, cfg):
        return X.Backtrack(cfg['amount']), []

    def spec(self, cx, ex, st):
        k = cx.cfg['amount']
        return Outcome(cx.p0 >= k, NONE, cx.p0 - k)

    def ref(self, cx, W, user):
        k = cx.cfg['amount']
        return W.p0 >= k, None, W.p0 - k


def lit_match(cx, p, value):
    """text[p:p+|v|] == v  (python clipping slice)"""
    codes = list(value) if isinstance(value, bytes) else [ord(ch) for ch in value]
    conj = [p + len(codes) <= cx.N]
    for i, c in enumerate(codes):
        conj.append(Select(cx.text.arr, p + i) == c)
    return And(*conj)


STR_VALUES = ['', 'a', 'abc', 'hello world', b'', b'\x00', b'ab\xff']


class StrC(WithIgnored, FragContract):
    cls_name = 'Str'

    def configs(self, tier):
        for i, v in enumerate(STR_VALUES):
            for skip in (False, True):
                for ctx in ctxs(tier):
                    yield {'value_ix': i, 'skip': skip, 'ctx': ctx, 'bytes': isinstance(v, bytes)}

    def build(self, cfg):
        n = X.Str(STR_VALUES[cfg['value_ix']])
        n.skip_ignored = cfg['skip']
        return n, []

    def spec(self, cx, ex, st):
        v = STR_VALUES[cx.cfg['value_ix']]
        p = cx.p0
        if not v:
            return Outcome(BoolVal(True), ex.lit(v), p)
        end0 = p + len(v)
        end = ign_end(cx.uses_context, end0) if cx.cfg['skip'] else end0
        return Outcome(lit_match(cx, p, v), ex.lit(v), end)

    def ref(self, cx, W, user):
        v = STR_VALUES[cx.cfg['value_ix']]
        if not v:
            return True, v, W.p0
        if W.text[W.p0:W.p0 + len(v)] != v:
            return False, None, W.p0
        return True, v, ref_skip(cx, W, W.p0 + len(v))


REGEXES = [('a+', False), ('[0-9]*', True), (b'\\x00+', False), ('x', True)]


class RegexC(WithIgnored, FragContract):
    cls_name = 'Regex'

    def configs(self, tier):
        for i, (pat, ic) in enumerate(REGEXES):
            for skip in (False, True):
                for ctx in ctxs(tier):
                    yield {'re_ix': i, 'skip': skip, 'ctx': ctx, 'bytes': isinstance(pat, bytes)}

    def build(self, cfg):
        pat, ic = REGEXES[cfg['re_ix']]
        n = X.Regex(pat, ignore_case=ic)
        n.skip_ignored = cfg['skip']
        return n, []

    def spec(self, cx, ex, st):
        pat, ic = REGEXES[cx.cfg['re_ix']]
        # re contract: the compiled matcher is a function of (pattern, flags); flags must carry IGNORECASE iff asked
        pid = ex.lit(('re', pat, '_IGNORECASE' if ic else '0'))
        p = cx.p0
        end0 = re_end(pid, p)
        end = ign_end(cx.uses_context, end0) if cx.cfg['skip'] else end0
        return Outcome(re_ok(pid, p), re_val(pid, p), end)

    def ref(self, cx, W, user):
        pat, ic = REGEXES[cx.cfg['re_ix']]
        r = W.re_match(pat, '_IGNORECASE' if ic else '0', W.p0)
        if r is None:
            return False, None, W.p0
        return True, r[1], ref_skip(cx, W, r[0])


class RegexPairC(FragContract):
    """two regex literals in ONE generated module (shared precompile state): each must be matched by the matcher of
    ITS OWN (pattern, flags), whatever was precompiled before it"""
    cls_name = 'Seq'
    PATS = ['ab', b'ab', '[a-z]+']

    def label(self, cfg):
        return f"regex-pair,pat={self.PATS[cfg['pat_ix']]!r},ic={cfg['ic']}"

    def configs(self, tier):
        for i, pat in enumerate(self.PATS):
            for ic in ((False, True), (True, False), (True, True), (False, False)):
                yield {'pat_ix': i, 'ic': list(ic), 'ctx': False, 'bytes': isinstance(pat, bytes)}

    def build(self, cfg):
        pat = self.PATS[cfg['pat_ix']]
        return X.Seq(X.Regex(pat, ignore_case=cfg['ic'][0]), X.Regex(pat, ignore_case=cfg['ic'][1])), []

    def pids(self, cx, ex):
        pat = self.PATS[cx.cfg['pat_ix']]
        return [ex.lit(('re', pat, '_IGNORECASE' if ic else '0')) for ic in cx.cfg['ic']]

    def spec(self, cx, ex, st):
        p1, p2 = self.pids(cx, ex)
        p = cx.p0
        q = re_end(p1, p)
        seq = Concat(Unit(re_val(p1, p)), Unit(re_val(p2, q)))
        return Outcome(And(re_ok(p1, p), re_ok(p2, q)), ex.box(seq), re_end(p2, q))

    def ref(self, cx, W, user):
        pat = self.PATS[cx.cfg['pat_ix']]
        f1, f2 = ['_IGNORECASE' if ic else '0' for ic in cx.cfg['ic']]
        r1 = W.re_match(pat, f1, W.p0)
        if r1 is None:
            return False, None, W.p0
        r2 = W.re_match(pat, f2, r1[0])
        if r2 is None:
            return False, None, r1[0]
        return True, [r1[1], r2[1]], r2[0]


class ByteC(WithIgnored, FragContract):
    cls_name = 'Byte'

    def configs(self, tier):
        for b in (0, 0x61, 0xFF):
            for skip in (False, True):
                for ctx in ctxs(tier):
                    yield {'byte': b, 'skip': skip, 'ctx': ctx, 'bytes': True}

    def build(self, cfg):
        n = X.Byte(cfg['byte'])
        n.skip_ignored = cfg['skip']
        return n, []

    def spec(self, cx, ex, st):
        p, b = cx.p0, cx.cfg['byte']
        ok = And(p < cx.N, Select(cx.text.arr, p) == b)
        end = ign_end(cx.uses_context, p + 1) if cx.cfg['skip'] else p + 1
        return Outcome(ok, ex.box(IntVal(b)), end)

    def ref(self, cx, W, user):
        p, b = W.p0, cx.cfg['byte']
        if not (p < W.N and W.text[p] == b):
            return False, None, p
        return True, b, ref_skip(cx, W, p + 1)


class RefC(FragContract):
    """rule reference: one request to the driver for the callee; in named grammars the callee is looked up
    through the RUN-TIME context (late binding, C13), locals (parameters) are used directly"""
    cls_name = 'Ref'

    def configs(self, tier):
        for ctx in (False, True):
            yield {'kind': 'rule', 'ctx': ctx}
            yield {'kind': 'local', 'ctx': ctx, 'user_sorts': {'prm': 'val'}}
            yield {'kind': 'super', 'ctx': ctx} if ctx else {'kind': 'unresolved', 'ctx': ctx}

    def build(self, cfg):
        if cfg['kind'] == 'rule':
            n = X.Ref('R'); n._resolved = X.implementation_name('R')
        elif cfg['kind'] == 'local':
            n = X.Ref('prm'); n.is_local = True
        elif cfg['kind'] == 'super':
            n = X.Ref('super.R'); n._resolved = '_super_ctx.' + X.implementation_name('R')
        else:
            n = X.Ref('Q')
        return n, []

    def callee(self, cx, st):
        k, ctx = cx.cfg['kind'], cx.uses_context
        if k == 'rule':
            return Const('_ctx._try_R' if ctx else '_try_R', Val)
        if k == 'local':
            return cx.entry_env['prm']
        if k == 'super':
            # super.R is static: the parent of the grammar in which it is written, resolved in that module's namespace (C13)
            return Const('_super_ctx._try_R', Val)
        return Const('Q', Val)

    def setup(self, cx, ex, st):
        if cx.cfg['kind'] == 'unresolved':
            cx.cfg.setdefault('globals', {})['Q'] = 'val'

    def spec(self, cx, ex, st):
        f = self.callee(cx, st)
        if cx.cfg['kind'] == 'unresolved':
            f = Const('G_Q', Val)
        p = cx.p0
        return Outcome(d_ok(f, p), d_val(f, p), d_end(f, p))

    def ref(self, cx, W, user):
        from pyvc.replay import Tok
        f = self.callee(cx, None)
        if cx.cfg['kind'] == 'unresolved':
            f = Const('G_Q', Val)
        ft = user['prm'] if cx.cfg['kind'] == 'local' else W.tok(f)
        return W.request(ft, W.p0)


# ------------------------------------------------------------------------------------------------ List
P = Function('P', I, I)          # P(j): position before the j-th iteration (spec function, unfolded on demand)


def bound_term(b, env, default):
    if b is None:
        return default
    if isinstance(b, int):
        return IntVal(b)
    if isinstance(b, str) and b.lstrip('-').isdigit():
        return IntVal(int(b))
    return env[b]


class ListC(FragContract):
    """e* / e+ / e{m,n}: greedy repetition.  P(0)=p, P(j+1)=end_e(P(j)); count = min(max, least j with
    not ok_e(P(j))); ok iff count >= min; value = the count values; end = P(count)."""
    cls_name = 'List'
    BOUNDS = [(None, None), (1, None)]

    def configs(self, tier):
        for mn, mx in self.BOUNDS:
            for f in ('AS', 'NP', 'PS'):
                if f == 'AS' and mx is None:
                    continue      # repetition of something that always succeeds never ends: not well-formed
                us = {b: 'int' for b in (mn, mx) if isinstance(b, str) and not b.lstrip('-').isdigit()}
                for ctx in ((False, True) if (mn, mx) in ((None, None), (1, None)) else (False,)):
                    yield {'min': mn, 'max': mx, 'flags': [f], 'ctx': ctx, 'user_sorts': us}

    def build(self, cfg):
        nodes, kids = mk_children(cfg['flags'])
        return X.List(nodes[0], min_len=cfg['min'], max_len=cfg['max']), kids

    def bounds(self, cx):
        env = cx.entry_env
        return bound_term(cx.cfg['min'], env, IntVal(0)), bound_term(cx.cfg['max'], env, None)

    def setup(self, cx, ex, st):
        st.assume(P(0) == cx.p0)
        cx.entry_env = dict(st.env)
        MN, MX = self.bounds(cx)
        # data-dependent bounds range over the non-negative integers (property C03: "all integer bounds 0..k")
        for b in (cx.cfg['min'], cx.cfg['max']):
            if isinstance(b, str) and not b.lstrip('-').isdigit():
                st.assume(cx.entry_env[b] >= 0)
        regime = cx.cfg.get('regime')
        if regime == 'max>=min':
            st.assume(MX >= MN)
        elif regime == 'max<min':
            st.assume(MX < MN)

    def staging(self, cx):
        return cx.one(cx.names_initialised(is_empty_list), 'staging')

    def unfold(self, cx, k):
        c = cx.kids[1]
        return Implies(k >= 0, P(k + 1) == c.end(P(k), RHO0))

    def loops(self, cx):
        if not any(isinstance(n, ast.While) for n in ast.walk(cx.tree)):
            return {}
        sname = self.staging(cx)
        c = cx.kids[1]
        j = Const('j', I)

        def inv(ex, st):
            MN, MX = self.bounds(cx)
            s = st.env[sname]
            k = Length(s)
            yield 'pos', st.env['_pos'] == P(k)
            yield 'range', And(0 <= st.env['_pos'], st.env['_pos'] <= cx.N, reach(st.env['_pos']))
            yield 'elems', ForAll([j], Implies(And(0 <= j, j < k), And(c.ok(P(j), RHO0), s[j] == c.val(P(j), RHO0))))
            if MX is not None:
                yield 'within-max', k <= MX

        def havoc(ex, st):
            k = Length(st.env[sname])
            st.assume(self.unfold(cx, k))

        return {1: LoopSpec(inv, havoc=havoc)}

    def spec(self, cx, ex, st):
        MN, MX = self.bounds(cx)
        c = cx.kids[1]
        j = Const('j', I)
        try:
            sname = self.staging(cx)
        except Exception:
            sname = None
        if sname is None or sname not in st.env:
            # no loop was emitted (max == 0): the spec count is 0
            return Outcome(IntVal(0) >= MN, ex.box(Empty(SeqV)), cx.p0)
        s = st.env[sname]
        k = Length(s)
        stop = Not(c.ok(P(k), RHO0)) if MX is None else Or(k == MX, Not(c.ok(P(k), RHO0)))
        extra = [('spec-count-stop', stop),
                 ('spec-elems', ForAll([j], Implies(And(0 <= j, j < k), And(c.ok(P(j), RHO0), s[j] == c.val(P(j), RHO0)))))]
        if MX is not None:
            extra.append(('spec-count-max', k <= MX))
        return Outcome(k >= MN, ex.box(s), P(k), extra)

    def ref(self, cx, W, user):
        def b(x, default):
            if x is None:
                return default
            if isinstance(x, int):
                return x
            return int(x) if x.lstrip('-').isdigit() else user[x]
        mn, mx = b(cx.cfg['min'], 0), b(cx.cfg['max'], None)
        q, vals = W.p0, []
        while mx is None or len(vals) < mx:
            ok, v, e = W.child(1, q)
            if not ok:
                break
            vals.append(v)
            q = e
        return (True, vals, q) if len(vals) >= mn else (False, None, W.p0)


# ------------------------------------------------------------------------------------------------ Skip
chain = Function('skip_chain', I, I, B)     # q is reachable from p by repeatedly taking the first progressing option


class SkipC(FragContract):
    cls_name = 'Skip'

    def configs(self, tier):
        ns = (1, 2) if tier == 'quick' else (1, 2, 3)
        for n in ns:
            for fl in flag_products(n):
                yield {'flags': fl, 'ctx': False}
        yield {'flags': [], 'ctx': False}

    def build(self, cfg):
        nodes, kids = mk_children(cfg['flags'])
        return X.Skip(*nodes), kids

    def progresses(self, c, q):
        ok = c.ok(q, RHO0)
        return And(ok, c.end(q, RHO0) != q) if c.a_s else ok

    def step(self, cx, q, q2):
        """q2 is where the first progressing option at q ends"""
        kids = [cx.kids[i + 1] for i in range(len(cx.cfg['flags']))]
        alts = []
        for i, c in enumerate(kids):
            before = [Not(self.progresses(kids[j], q)) for j in range(i)]
            alts.append(And(*before, self.progresses(c, q), q2 == c.end(q, RHO0)))
        return Or(*alts) if alts else BoolVal(False)

    def stuck(self, cx, q):
        kids = [cx.kids[i + 1] for i in range(len(cx.cfg['flags']))]
        return And(*[Not(self.progresses(c, q)) for c in kids]) if kids else BoolVal(True)

    def setup(self, cx, ex, st):
        st.assume(chain(cx.p0, cx.p0))

    def loops(self, cx):
        def inv(ex, st):
            pos = st.env['_pos']
            yield 'range', And(0 <= pos, pos <= cx.N, reach(pos))
            yield 'chain', chain(cx.p0, pos)

        def havoc(ex, st):
            st.ghost['q'] = st.env['_pos']

        def step(ex, st):
            # definition of the chain (closure under one step), instantiated at this iteration
            q, q2 = st.ghost['q'], st.env['_pos']
            st.assume(Implies(And(chain(cx.p0, q), self.step(cx, q, q2)), chain(cx.p0, q2)))

        def leave(ex, st):
            pass

        return {1: LoopSpec(inv, havoc=havoc, step=step)}

    def spec(self, cx, ex, st):
        pos = st.env['_pos']
        extra = [('Skip-chain', chain(cx.p0, pos)), ('Skip-stuck', self.stuck(cx, pos))]
        return Outcome(BoolVal(True), NONE, pos, extra)

    def ref(self, cx, W, user):
        q = W.p0
        n = len(cx.cfg['flags'])
        while True:
            for k in range(1, n + 1):
                ok, v, e = W.child(k, q)
                if ok and (e != q or not cx.kids[k].a_s):
                    q = e
                    break
            else:
                return True, None, q


CORE = [OptC(), ChoiceC(), LongestC(), SeqC(), DiscardC(), ExpectC(), ExpectNotC(), FailC(), BacktrackC(),
        StrC(), RegexC(), RegexPairC(), ByteC(), RefC(), ListC(), SkipC()]


# ---------------------------------------------------------------------------------------------- bounded stand-ins for the leaves
_LEAF_SEQ = itertools.count(1)


def _leaf_bounded(lit_src, is_bytes, skip, ctx, reference, alphabet, maxlen):
    """the leaf through the PUBLIC interface of a freshly generated grammar (`start = <literal>`, optionally with `ignore` of blanks and
    a grammar header) on all texts over a small alphabet x every start offset, against python's own matching.  Stands in when
    the emitted fragment leaves the executor's subset - labelled bounded, never counted as proved.
    reference(text, q) -> (value, end) | None is the literal's own match at q (no skipping)."""
    from sourcer import Grammar
    blank = b' ' if is_bytes else ' '
    head = f'grammar vleaf{next(_LEAF_SEQ)}\n' if ctx else ''
    ign = ('ignore b/[ ]+/\n' if is_bytes else 'ignore /[ ]+/\n') if skip else ''
    g = Grammar(head + ign + f'start = {lit_src}')

    def skipb(text, q):
        while skip and q < len(text) and text[q:q + 1] == blank:
            q += 1
        return q
    bad, tried = [], 0
    alpha = list(alphabet) + ([blank] if skip else [])
    empty = b'' if is_bytes else ''
    for n in range(maxlen + 1):
        for t in itertools.product(alpha, repeat=n):
            text = empty.join(t)
            for p in range(len(text) + 1):
                tried += 1
                q = skipb(text, p)              # the start rule skips leading ignored text
                r = reference(text, q)
                want = ('fail',) if r is None else ('ok', r[0], skipb(text, r[1]))
                try:
                    v = g.parse(text, pos=p)
                    got = ('ok', v, len(text))
                except g.PartialParseError as e:
                    got = ('ok', e.partial_result, e.last_position.index)
                except g.ParseError:
                    got = ('fail',)
                except Exception as e:
                    got = ('raised', repr(e))
                if got != want:
                    bad.append({'text': repr(text), 'pos': p, 'got': repr(got), 'want': repr(want)})
                    if len(bad) >= 5:
                        return bad, tried, f'all texts up to length {maxlen} over {len(alpha)} symbols x every start offset, through Grammar().parse'
    return bad, tried, f'all texts up to length {maxlen} over {len(alpha)} symbols x every start offset, through Grammar().parse'


def _dsl_string(v):
    body = ''.join(chr(c) if 32 <= c < 127 and chr(c) not in '"\\' else f'\\x{c:02x}' for c in (v if isinstance(v, bytes) else v.encode('latin-1')))
    return ('b' if isinstance(v, bytes) else '') + '"' + body + '"'


def _str_bounded(self, cx):
    v = STR_VALUES[cx.cfg['value_ix']]
    isb = isinstance(v, bytes)
    one = (lambda c: bytes([c])) if isb else chr
    syms = sorted({one(c) for c in (v if isb else map(ord, v))} | {one(0x78)})[:4]
    return _leaf_bounded(_dsl_string(v), isb, cx.cfg['skip'], cx.uses_context,
                         lambda text, q: (v, q + len(v)) if text[q:q + len(v)] == v else None, syms, min(len(v) + 2, 4) if len(v) <= 3 else len(v) + 1 if len(syms) <= 2 else 4)


def _regex_bounded(self, cx):
    import re as _re
    pat, ic = REGEXES[cx.cfg['re_ix']]
    isb = isinstance(pat, bytes)
    rx = _re.compile(pat, _re.IGNORECASE if ic else 0)
    src = ('b' if isb else '') + '/' + (pat.decode('latin-1') if isb else pat) + '/' + ('i' if ic else '')
    syms = {'a+': ['a', 'A', 'b'], '[0-9]*': ['0', '7', 'x'], b'\\x00+': [b'\x00', b'\x01'], 'x': ['x', 'X', 'y']}[pat]

    def reference(text, q):
        m = rx.match(text, q)
        return None if m is None else (m.group(0), m.end())
    bad, tried, bound = _leaf_bounded(src, isb, cx.cfg['skip'], cx.uses_context, reference, syms, 4)
    # the re contract makes the match a function of (pattern, flags, WHOLE text, pos): what lies to the left of pos is visible to the pattern
    # (word boundaries, look-behind; `^` / `\A` match only at the very start of the text) - patterns that can tell, at every start offset
    for cpat, csyms in CONTEXT_PATTERNS:
        if bad:
            break
        if isb:
            cpat, csyms = cpat.encode(), [c.encode() for c in csyms]
        crx = _re.compile(cpat)

        def cref(text, q, crx=crx):
            m = crx.match(text, q)
            return None if m is None else (m.group(0), m.end())
        b2, t2, _ = _leaf_bounded(('b' if isb else '') + '/' + (cpat.decode() if isb else cpat) + '/', isb, cx.cfg['skip'], cx.uses_context, cref, csyms, 3)
        bad, tried = bad + [dict(v, pattern=repr(cpat)) for v in b2], tried + t2
    return bad, tried, bound + f'; plus {len(CONTEXT_PATTERNS)} context-sensitive patterns (word boundary, look-behind, start anchors) on all texts up to length 3'


CONTEXT_PATTERNS = [(r'\bb', ['a', 'b', '-']), (r'(?<=a)c', ['a', 'c']), (r'^a', ['a', 'b']), (r'\Aa|b', ['a', 'b']), (r'\Ba', ['a', '-'])]


def _byte_bounded(self, cx):
    b = cx.cfg['byte']
    other = bytes([0x41 if b != 0x41 else 0x42])
    return _leaf_bounded(f'0x{b:02X}', True, cx.cfg['skip'], cx.uses_context,
                         lambda text, q: (b, q + 1) if q < len(text) and text[q] == b else None, [bytes([b]), other], 4)


StrC.bounded = _str_bounded
RegexC.bounded = _regex_bounded
ByteC.bounded = _byte_bounded
StrC.crosscheck_with_bounded = RegexC.crosscheck_with_bounded = ByteC.crosscheck_with_bounded = True
