"""Small run-time classes: exception constructors (C08/C09), _ParseFunction / literal wrappers (C06)."""
import ast
import z3
from z3 import And, Or, Not, Implies, If, IntVal, BoolVal, Const

from pyvc.rtver import RtContract, Rope, as_rope
from pyvc.symx import Val, I, B, NONE, Tup, Opaque, OutOfSubset, tup_v

mk3, _p3 = tup_v(3)


class _InitC(RtContract):
    """exception constructor: attribute stores recorded on `self`"""
    def hooks(self, cx, ex):
        def c_super(ex, node, st):
            return Opaque('super')
        ex.call_hooks['super'] = c_super

        def m_init(ex, node, recv, st):
            if isinstance(recv, Opaque) and recv.tag == 'super':
                st.ghost['super_init'] = [ex.ev(a, st) for a in node.args]
                return NONE
            return NotImplemented
        ex.method_hooks['__init__'] = m_init

        def c_position(ex, node, st):
            return mk3(*[ex.box(ex.ev(a, st)) for a in node.args])
        ex.call_hooks['_Position'] = c_position

        def setattr_hook(ex, tgt, recv, v, st):
            if isinstance(recv, z3.ExprRef) and recv.eq(cx.entry_env['self']):
                st.ghost.setdefault('attrs', {})[tgt.attr] = v
                return True
            return False
        ex.setattr_hook = setattr_hook

        def attr_any(ex, node, recv, st):
            if isinstance(recv, z3.ExprRef) and recv.sort() == Val:
                return Const(f'{recv}.{node.attr}', Val)
            return NotImplemented
        ex.attr_hooks['*'] = attr_any

        def fstring(ex, e, st):
            parts = []
            for v in e.values:
                if isinstance(v, ast.Constant):
                    parts.append(('lit', v.value))
                else:
                    x = ex.ev(v.value, st)
                    r = as_rope(x)
                    parts.extend(r.pieces if r is not None else [('opaque', 'fmt', x)])
            return Rope(parts)
        ex.fstring_hook = fstring
        cx.rope_slices = True


class ParseErrorInitC(_InitC):
    fn_name = 'ParseError.__init__'

    def setup(self, cx, ex, st):
        for n in ('self', 'message', 'index', 'line', 'column'):
            st.env[n] = Const(n, Val)

    def post(self, cx, ex, st, how):
        e = cx.entry_env
        a = st.ghost.get('attrs', {})
        yield 'returns', BoolVal(how in ('fall', 'return'))
        yield 'position = _Position(index, line, column)', BoolVal('position' in a) if 'position' not in a else ex.box(a['position']) == mk3(e['index'], e['line'], e['column'])
        yield 'message passed to Exception', BoolVal(bool(st.ghost.get('super_init')) and st.ghost['super_init'][0] is e['message'])


class PartialParseErrorInitC(_InitC):
    fn_name = 'PartialParseError.__init__'

    def setup(self, cx, ex, st):
        for n in ('self', 'partial_result', 'last_position', 'excerpt'):
            st.env[n] = Const(n, Val)

    def post(self, cx, ex, st, how):
        e = cx.entry_env
        a = st.ghost.get('attrs', {})
        yield 'returns', BoolVal(how in ('fall', 'return'))
        yield 'partial_result stored as given (same object)', BoolVal('partial_result' in a and a['partial_result'] is e['partial_result'])
        yield 'last_position stored as given', BoolVal('last_position' in a and a['last_position'] is e['last_position'])
        # C09: the excerpt (line + caret line, built by _extract_excerpt) goes into the message UNCHANGED and starts on a fresh line - only
        # then does its caret stand under text[index]
        msg = (st.ghost.get('super_init') or [None])[0]
        r = as_rope(msg) if msg is not None else None
        ok = r is not None and len(r.pieces) >= 2 and r.pieces[-1][0] == 'opaque' and r.pieces[-1][1] == 'fmt' and r.pieces[-1][2] is e['excerpt'] \
            and r.pieces[-2][0] == 'lit' and r.pieces[-2][1].endswith('\n')
        yield 'the message ends with the excerpt as given, on a fresh line', BoolVal(bool(ok))

    def bounded(self, cx):
        """stand-in: real PartialParseErrors of a generated grammar; the caret line of the message points at text[index] - also when the
        line starts with blanks or TABs"""
        from sourcer import Grammar
        g = Grammar('start = /[a-z]+/')
        bad, tried = [], 0
        for prefix in ('', 'ab\n', 'ab\n\n'):
            for indent in ('', ' ', '   ', '\t', ' \t '):
                for word, rest in (('abc', ' ?x'), ('q', '!'), ('abc', '\t;;')):
                    text = prefix + indent + word + rest
                    pos = len(prefix) + len(indent)
                    tried += 1
                    try:
                        g.parse(text, pos=pos)
                        bad.append({'text': text, 'what': 'no PartialParseError'})
                        continue
                    except g.PartialParseError as e_:
                        idx = e_.last_position.index
                        message = str(e_)
                        lines = message.split('\n')
                    except Exception as e_:
                        bad.append({'text': text, 'raised': repr(e_)})
                        continue
                    ci = [i for i, l in enumerate(lines) if l.strip(' ') == '^']
                    if idx != pos + len(word) or not ci or ci[-1] == 0:
                        bad.append({'text': text, 'index': idx, 'message': message[:160], 'what': 'index / no caret line'})
                        continue
                    k = len(lines[ci[-1]]) - 1
                    shown = lines[ci[-1] - 1]
                    if k >= len(shown) or shown[k] != text[idx]:
                        bad.append({'text': text, 'index': idx, 'message': message[:200], 'what': 'caret not under text[index]'})
        return bad[:6], tried, '3 prefixes x 5 indentations (blanks, TABs) x 3 leftovers: caret of the PartialParseError message under text[last_position.index]'


EXC = [ParseErrorInitC(), PartialParseErrorInitC()]
