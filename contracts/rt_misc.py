"""Small run-time classes: exception constructors (C08/C09), _ParseFunction / literal wrappers (C06)."""
import ast
import z3
from z3 import And, Or, Not, Implies, If, IntVal, BoolVal, Const

from pyvc.rtver import RtContract, Rope, as_rope
from pyvc.symx import Val, I, B, NONE, Tup, Opaque, OutOfSubset, tup_v

mk3, _p3 = tup_v(3)


class _InitC(RtContract):
    """exception constructor: attribute stores recorded on `self`"""
    def hooks(self, cx, ex):
        def c_super(ex, node, st):
            return Opaque('super')
        ex.call_hooks['super'] = c_super

        def m_init(ex, node, recv, st):
            if isinstance(recv, Opaque) and recv.tag == 'super':
                st.ghost['super_init'] = [ex.ev(a, st) for a in node.args]
                return NONE
            return NotImplemented
        ex.method_hooks['__init__'] = m_init

        def c_position(ex, node, st):
            return mk3(*[ex.box(ex.ev(a, st)) for a in node.args])
        ex.call_hooks['_Position'] = c_position

        def setattr_hook(ex, tgt, recv, v, st):
            if isinstance(recv, z3.ExprRef) and recv.eq(cx.entry_env['self']):
                st.ghost.setdefault('attrs', {})[tgt.attr] = v
                return True
            return False
        ex.setattr_hook = setattr_hook

        def attr_any(ex, node, recv, st):
            if isinstance(recv, z3.ExprRef) and recv.sort() == Val:
                return Const(f'{recv}.{node.attr}', Val)
            return NotImplemented
        ex.attr_hooks['*'] = attr_any

        def fstring(ex, e, st):
            parts = []
            for v in e.values:
                if isinstance(v, ast.Constant):
                    parts.append(('lit', v.value))
                else:
                    x = ex.ev(v.value, st)
                    r = as_rope(x)
                    parts.extend(r.pieces if r is not None else [('opaque', 'fmt', x)])
            return Rope(parts)
        ex.fstring_hook = fstring
        cx.rope_slices = True


class ParseErrorInitC(_InitC):
    fn_name = 'ParseError.__init__'

    def setup(self, cx, ex, st):
        for n in ('self', 'message', 'index', 'line', 'column'):
            st.env[n] = Const(n, Val)

    def post(self, cx, ex, st, how):
        e = cx.entry_env
        a = st.ghost.get('attrs', {})
        yield 'returns', BoolVal(how in ('fall', 'return'))
        yield 'position = _Position(index, line, column)', BoolVal('position' in a) if 'position' not in a else ex.box(a['position']) == mk3(e['index'], e['line'], e['column'])
        yield 'message passed to Exception', BoolVal(bool(st.ghost.get('super_init')) and st.ghost['super_init'][0] is e['message'])


class PartialParseErrorInitC(_InitC):
    fn_name = 'PartialParseError.__init__'

    def setup(self, cx, ex, st):
        for n in ('self', 'partial_result', 'last_position', 'excerpt'):
            st.env[n] = Const(n, Val)

    def post(self, cx, ex, st, how):
        e = cx.entry_env
        a = st.ghost.get('attrs', {})
        yield 'returns', BoolVal(how in ('fall', 'return'))
        yield 'partial_result stored as given (same object)', BoolVal('partial_result' in a and a['partial_result'] is e['partial_result'])
        yield 'last_position stored as given', BoolVal('last_position' in a and a['last_position'] is e['last_position'])


EXC = [ParseErrorInitC(), PartialParseErrorInitC()]
