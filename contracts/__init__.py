"""Sidecar contracts for jvs/sourcer (nothing here is copied from /repo: specs come from the property
statements and README; shapes and roles are resolved against the emitted text on every run)."""
