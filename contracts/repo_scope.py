"""Contracts on the scope tracker `SymbolCounter` of sourcer/expressions/base.py (the class that decides which references are local and
which names a helper function captures).  The three methods are read from the real source on every run (ast), executed symbolically
by pyvc.symx and discharged by z3 - for ALL nodes, ALL parameter lists (any length) and ALL earlier states.

State (roles bound from __init__ by what is assigned: `defaultdict(int)` -> the counts, `set()` -> the free names):
    C : name -> int      F : name -> bool          (names are integers in the VCs; only their identity matters)
Contracts, stated pointwise at an arbitrary name X:
    is_bound(a)   returns C[a] > 0, changes nothing
    previsit(n)   C'[X] = C[X] + [n.defines_local and n.name = X] + [n.has_params and n.params] * #{j : n.params[j] = X}
                  F'[X] = F[X] or (n.is_reference and n.is_local and n.name = X and not C'[X] > 0)
    postvisit(n)  C'[X] = C[X] - (the same two terms);  F' = F
so postvisit undoes previsit for every name (shadowing: an outer binder of the same name stays counted), and by induction over a
well-nested visit C[X] is the number of open binders of X.  A call of self.is_bound inside previsit is replaced by is_bound's CONTRACT
(modular).  The loop over the parameters carries the invariant C[X] = C_entry[X] +/- MP(i), MP(i) = #{j < i : params[j] = X}, with the
two defining equations of MP instantiated at the loop index.

Python semantics assumed: defaultdict(int) is a total map with default 0; `+= 1` on it is a read followed by a store; attribute reads of
the node have no effect; names are hashable and compared by ==.  What the extraction drops: nothing of the three method bodies."""
import ast
import os
import time

import z3
from z3 import And, Or, Not, If, IntVal, BoolVal, Const, Function, Select, Store, Array, IntSort, BoolSort

from pyvc import paths
from pyvc.symx import Exec, St, VC, I, B, Opaque, OutOfSubset, LoopSpec, NONE
from pyvc.solve import discharge
from pyvc.fragver import RoleError


def _class_source():
    p = os.path.join(paths.REPO, 'sourcer', 'expressions', 'base.py')
    tree = ast.parse(open(p).read())
    for n in tree.body:
        if isinstance(n, ast.ClassDef) and n.name == 'SymbolCounter':
            return n
    raise RoleError('class SymbolCounter not found in sourcer/expressions/base.py')


def _roles(cls):
    init = next((m for m in cls.body if isinstance(m, ast.FunctionDef) and m.name == '__init__'), None)
    if init is None:
        raise RoleError('SymbolCounter.__init__')
    counts = free = None
    for s in init.body:
        if isinstance(s, ast.Assign) and len(s.targets) == 1 and isinstance(s.targets[0], ast.Attribute) and ast.unparse(s.targets[0].value) == init.args.args[0].arg:
            v = ast.unparse(s.value)
            if v == 'defaultdict(int)':
                counts = s.targets[0].attr
            elif v == 'set()':
                free = s.targets[0].attr
    if counts is None or free is None or len(init.args.args) != 1 or init.args.defaults or init.args.kwonlyargs:
        # a constructor that takes the state from outside (default arguments!) does not establish "a new tracker starts empty"
        raise RoleError('SymbolCounter.__init__ does not create its two containers itself (defaultdict(int) and set())')
    return counts, free


def _method(cls, name):
    m = next((m for m in cls.body if isinstance(m, ast.FunctionDef) and m.name == name), None)
    if m is None:
        raise RoleError(f'SymbolCounter.{name}')
    return m


AC, AF = Array('C0', I, I), Array('F0', I, B)
X = Const('X', I)
P = Array('PARAMS', I, I)
NP = Const('n_params', I)
MP = Function('MP', I, I)          # MP(i) = #{j < i : PARAMS[j] = X}
NAME = Const('node_name', I)
DL, HP, IR, IL = Const('defines_local', B), Const('has_params', B), Const('is_reference', B), Const('is_local', B)


def _run_method(cls, roles, mname, params_kind, sign):
    """-> (vcs, axioms, n_paths) for one method under one shape of node.params ('none' | 'list')"""
    counts_attr, free_attr = roles
    fn = _method(cls, mname)
    self_name = fn.args.args[0].arg
    arg_names = [a.arg for a in fn.args.args[1:]]
    mod = ast.Module(body=fn.body, type_ignores=[])

    def inv(ex, st):
        i = st.ghost['i']
        yield ('C[X] = C at loop entry +/- MP(i)', Select(st.env['$C'], X) == Select(st.ghost['C_entry'], X) + sign * MP(i))

    def enter(ex, st):
        st.ghost['C_entry'] = st.env['$C']
        ex.axiom(MP(IntVal(0)) == 0)

    def havoc(ex, st):
        i = st.ghost['i']
        ex.axiom(MP(i + 1) == MP(i) + If(Select(P, i) == X, 1, 0))       # the defining equation of MP at the loop index
    loops = {k: LoopSpec(inv, enter=enter, havoc=havoc) for k in range(1, 4)}
    ex = Exec(mod, loops)
    self_v, node_v = Opaque('self'), Opaque('node')
    params_v = None if params_kind == 'none' else Opaque('params', iter_len=NP, iter_elem=lambda i: Select(P, i), truth=NP > 0)

    def a_self(attr):
        def h(ex_, e, recv, st):
            if recv is self_v:
                return st.env['$C'] if attr == counts_attr else st.env['$F']
            return NotImplemented
        return h
    ex.attr_hooks[counts_attr] = a_self(counts_attr)
    ex.attr_hooks[free_attr] = a_self(free_attr)
    node_attrs = {'defines_local': DL, 'has_params': HP, 'is_reference': IR, 'is_local': IL, 'name': NAME, 'params': params_v}

    def a_node(ex_, e, recv, st):
        if recv is node_v and e.attr in node_attrs:
            return node_attrs[e.attr]
        return NotImplemented
    ex.attr_hooks['*'] = a_node

    def subscript(ex_, e, recv, idx, st):
        if isinstance(recv, z3.ArrayRef) and recv.sort() == AC.sort() and not isinstance(idx, tuple):
            return Select(recv, ex_.as_int(idx))          # defaultdict(int): total, default 0
        return NotImplemented
    ex.subscript_hook = subscript

    def setitem(ex_, tgt, v, st):
        if isinstance(tgt.value, ast.Attribute) and tgt.value.attr == counts_attr and ex_.ev(tgt.value.value, st) is self_v:
            st.env['$C'] = Store(st.env['$C'], ex_.as_int(ex_.ev(tgt.slice, st)), ex_.as_int(v))
            return True
        return False
    ex.setitem_hook = setitem

    def m_add(ex_, e, recv, st):
        if isinstance(recv, z3.ArrayRef) and recv.sort() == AF.sort() and len(e.args) == 1 and isinstance(e.func.value, ast.Attribute) \
                and e.func.value.attr == free_attr:
            st.env['$F'] = Store(st.env['$F'], ex_.as_int(ex_.ev(e.args[0], st)), BoolVal(True))
            return NONE
        return NotImplemented
    ex.method_hooks['add'] = m_add

    def m_is_bound(ex_, e, recv, st):
        # modular: the callee's CONTRACT, not its body
        if recv is self_v and len(e.args) == 1:
            return Select(st.env['$C'], ex_.as_int(ex_.ev(e.args[0], st))) > 0
        return NotImplemented
    ex.method_hooks['is_bound'] = m_is_bound

    def modified(ex_, stmts, st):
        out = set()
        for s in stmts:
            for n in ast.walk(s):
                if isinstance(n, ast.Attribute) and n.attr == counts_attr:
                    out.add('$C')
                if isinstance(n, ast.Attribute) and n.attr == free_attr:
                    out.add('$F')
        return out
    ex.modified_hook = modified

    st = St(pc=[NP >= 0])
    st.env[self_name] = self_v
    st.env['$C'], st.env['$F'] = AC, AF
    if mname == 'is_bound':
        A = Const('a', I)
        st.env[arg_names[0]] = A
    else:
        st.env[arg_names[0]] = node_v
    finals = ex.run(fn.body, st)
    vcs = list(ex.vcs)
    npaths = 0
    hp = And(HP, NP > 0) if params_kind == 'list' else BoolVal(False)
    dl = If(And(DL, NAME == X), 1, 0)
    for k, q in finals:
        if k in ('break', 'continue', 'raise'):
            raise OutOfSubset(f'{mname} leaves by {k}')
        npaths += 1
        C1, F1 = q.env['$C'], q.env['$F']
        path = list(q.trace) + [k]
        if mname == 'is_bound':
            r = q.ret if hasattr(q, 'ret') else None
            rv = ex.truth(r, q) if r is not None else None
            if rv is None:
                raise OutOfSubset('is_bound falls off its end')
            vcs.append(VC('post:is_bound(a) = (C[a] > 0)', q.pc, rv == (Select(AC, Const('a', I)) > 0), 'post', path=path))
            vcs.append(VC('post:is_bound changes nothing', q.pc, And(Select(C1, X) == Select(AC, X), Select(F1, X) == Select(AF, X)), 'post', path=path))
        else:
            want_c = Select(AC, X) + sign * (dl + If(hp, MP(NP), 0))
            vcs.append(VC(f'post:C\'[X] = C[X] {"+" if sign > 0 else "-"} [binder of X] {"+" if sign > 0 else "-"} #(X in params)', q.pc, Select(C1, X) == want_c, 'post', path=path))
            if mname == 'previsit':
                want_f = Or(Select(AF, X), And(IR, IL, NAME == X, Not(Select(C1, X) > 0)))
                vcs.append(VC("post:F'[X] = F[X] or (local reference to X met while X is not bound)", q.pc, Select(F1, X) == want_f, 'post', path=path))
            else:
                vcs.append(VC("post:postvisit leaves the free names alone", q.pc, Select(F1, X) == Select(AF, X), 'post', path=path))
        vcs.append(VC('cover:path-feasible', q.pc, BoolVal(False), 'cover', path=list(q.trace)))
    return vcs, ex.axioms, npaths


def obligations(rep, tier, unit_prefix='repo:SymbolCounter'):
    """adds the obligations to the report; -> True when every method was within the verifier's reach (else the caller keeps the bounded stand-in as
    the only evidence for this class)"""
    from pyvc.report import Obligation
    reached = True
    try:
        cls = _class_source()
        roles = _roles(cls)
    except RoleError as e:
        rep.errors.append((unit_prefix, 'role', str(e)))
        return False
    for mname, sign in (('is_bound', 0), ('previsit', 1), ('postvisit', -1)):
        for pk in (('list', 'none') if mname != 'is_bound' else ('list',)):
            unit = f'{unit_prefix}.{mname}[params={pk}]' if mname != 'is_bound' else f'{unit_prefix}.{mname}'
            t0 = time.time()
            try:
                vcs, axioms, npaths = _run_method(cls, roles, mname, pk, sign)
            except (OutOfSubset, RoleError) as e:
                rep.errors.append((unit, 'out-of-subset' if isinstance(e, OutOfSubset) else 'role', str(e)))
                reached = False
                continue
            feasible = 0
            for vc in vcs:
                v = discharge(vc, axioms)
                if vc.kind == 'cover':
                    feasible += v.status != 'unsat'
                    continue
                verdict = {'unsat': 'proved', 'sat': 'failed'}.get(v.status, 'unknown')
                rep.obls.append(Obligation(unit, vc.name, 'smt', verdict, v.solver, v.time, path=vc.path,
                                           detail={'model': str(v.model)[:1200]} if verdict != 'proved' else None,
                                           replay=None))
            rep.units.setdefault(unit, {'vcs': 0, 'paths': npaths, 'wall': 0})
            rep.units[unit]['vcs'] += sum(1 for vc in vcs if vc.kind != 'cover')
            rep.units[unit]['wall'] = round(time.time() - t0, 3)
            rep.vacuity['feasible_paths'] += feasible
            if feasible == 0:
                rep.errors.append((unit, 'vacuous', 'no feasible path'))
    # lemma over the two contracts: postvisit undoes previsit for every name (pure arithmetic over the posts, stated for the record)
    c, a, b = Const('c', I), Const('a_', I), Const('b_', I)
    v = discharge(VC('lemma:postvisit(previsit(C))[X] = C[X]', [a >= 0, b >= 0], (c + (a + b)) - (a + b) == c, 'post'), [])
    rep.obls.append(Obligation(f'{unit_prefix}.round-trip', 'postvisit undoes previsit at every name (from the two posts)', 'smt',
                               'proved' if v.status == 'unsat' else 'unknown', v.solver, v.time))
    rep.functions.update(['sourcer.expressions.base.SymbolCounter.previsit', 'sourcer.expressions.base.SymbolCounter.postvisit',
                          'sourcer.expressions.base.SymbolCounter.is_bound'])
    return reached
