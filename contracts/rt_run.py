"""Contract of the trampoline ``_run`` (C07 packrat guarantee, C08 three outcomes, C11/C13 context threading).

Generators are ABSTRACT: ``send`` may return any triple obeying the protocol that the emitted rule functions are
proved to follow (a request ``(CALL, f, p)`` or a final ``(status, result, pos)``, fragment contracts G-*).
Ghost state (sidecar, attached by AST pattern): started[K] (generator creations per key), cnt[K] (occurrences on
the stack), answered[K] (final triple of the generator created for K), pending[g] (request generator g waits on),
gfresh[g], allocation clock."""
import ast
import z3
from z3 import And, Or, Not, Implies, If, IntVal, BoolVal, Const, Function, Select, Store, Array, ForAll, K as ConstArray

from pyvc.rtver import RtContract
from pyvc.symx import (Val, I, B, NONE, Tup, TextV, ArrList, DictV, Opaque, OutOfSubset, LoopSpec, VC, Raised,
                       int_v, un_int, bool_v, kind, K_INT, K_BOOL, K_TUPLE, is_err, truthy, tup_v)

is_trip = Function('is_trip', Val, B)
gbirth = Function('gbirth', Val, I)
mk3, (t0, t1, t2) = tup_v(3)
CALL = int_v(IntVal(3))

AI = lambda name: Array(name, Val, I)
AV = lambda name: Array(name, Val, Val)
AB = lambda name: Array(name, Val, B)


def is_request(r):
    return t0(r) == CALL


def final_ok(cx, r):
    """protocol of a final triple (what every emitted rule function yields last: fragment contracts G-ok/G-err/G-range)"""
    return And(kind(t0(r)) == K_BOOL, kind(t2(r)) == K_INT, 0 <= un_int(t2(r)), un_int(t2(r)) <= cx.N,
               Implies(Not(truthy(t0(r))), is_err(t1(r))))


class RunC(RtContract):
    fn_name = '_run'

    def configs(self, tier):
        yield {'ctx': False}
        yield {'ctx': True}

    # ------------------------------------------------------------------ setup
    def setup(self, cx, ex, st):
        fn = cx.fn
        params = [a.arg for a in fn.args.args]
        want = (['_ctx'] if cx.uses_context else []) + ['text', 'pos', 'start', 'fullparse']
        cx.params_ok = params == want
        e = st.env
        if cx.uses_context:
            e['_ctx'] = Const('CTX', Val)
        e['text'] = cx.text
        e['pos'] = Const('pos', I)
        e['start'] = Const('start', Val)
        e['fullparse'] = Const('fullparse', B)
        st.assume(0 <= e['pos'], e['pos'] <= cx.N, Not(is_err(e['start'])))
        ex.axiom(kind(CALL) == K_INT)
        ex.axiom(un_int(CALL) == 3)
        ex.axiom(truthy(CALL))
        g = st.ghost
        g['started'] = ConstArray(Val, IntVal(0))
        g['cnt'] = ConstArray(Val, IntVal(0))
        g['answered'] = AV('answered0')
        g['pending'] = AV('pending0')
        g['gfresh'] = AB('gfresh0')
        g['clock'] = IntVal(0)
        g['key0'] = ex.box(Tup([IntVal(3), e['start'], e['pos']]))
        g['ctx_ok'] = BoolVal(True)
        cx.stack_name = None

    # ------------------------------------------------------------------ hooks
    def hooks(self, cx, ex):
        def before(ex, s, st):
            # the work list `x = [(key, gtor)]` is held positionally (keys / generators arrays + length)
            if isinstance(s, ast.Assign) and isinstance(s.value, ast.List) and len(s.value.elts) == 1 \
                    and isinstance(s.value.elts[0], ast.Tuple) and len(s.value.elts[0].elts) == 2 and isinstance(s.targets[0], ast.Name):
                k, g = [ex.box(ex.ev(x, st)) for x in s.value.elts[0].elts]
                st.env[s.targets[0].id] = ArrList([Store(AV('keys0'), 0, k), Store(AV('gens0'), 0, g)], IntVal(1)) \
                    if False else ArrList([Store(Array('keys0', I, Val), 0, k), Store(Array('gens0', I, Val), 0, g)], IntVal(1))
                cx.stack_name = s.targets[0].id
                st.ghost['cnt'] = Store(st.ghost['cnt'], k, Select(st.ghost['cnt'], k) + 1)
                return [('fall', st)]
            return None
        ex.before_stmt = before

        def new_generator(ex, node, callee, args, st):
            """creation of a generator object for (callee, position): ghost started++ ; fresh object"""
            g = st.ghost
            want_prefix = ([st.env['_ctx']] if cx.uses_context else []) + [cx.text]
            if len(args) != len(want_prefix) + 1:
                raise OutOfSubset('arity of generator creation')
            same = []
            for a, w in zip(args, want_prefix):
                same.append(BoolVal(a is w) if isinstance(w, TextV) or isinstance(a, TextV) else ex.box(a) == ex.box(w))
            ex.vcs.append(VC(f'ghost:creation-passes-ctx-and-text-unchanged@{ex.ordn(node)}', st.pc, And(*same), 'post', path=list(st.trace)))
            key = mk3(CALL, callee, ex.box(args[-1]))
            # requires (A-wf, no left recursion): the requested key is not already being evaluated further down the stack.
            # Everything else - in particular that the key is not memoised - must follow from the branch conditions.
            st.assume(Select(g['cnt'], key) == 0)
            # at most one body evaluation per key: no generator was ever created for this key
            ex.vcs.append(VC(f'ghost:at-most-once(started[key]==0 before creation)@{ex.ordn(node)}', st.pc,
                             Select(g['started'], key) == 0, 'post', path=list(st.trace)))
            gen = ex.fv('gen', Val)
            g['clock'] = g['clock'] + 1
            st.assume(gbirth(gen) == g['clock'], Not(is_err(gen)))
            g['started'] = Store(g['started'], key, Select(g['started'], key) + 1)
            g['gfresh'] = Store(g['gfresh'], gen, BoolVal(True))
            g['last_created_key'] = key
            return gen

        def call_val(ex, node, fv_, st):
            if isinstance(fv_, z3.ExprRef) and fv_.sort() == Val:
                args = [ex.ev(a, st) for a in node.args]
                if ex.decide(st, node, is_err(fv_), 'is-error-function'):
                    # error functions never return (contract RaiseErrorC): ParseError with the given index
                    if len(args) != 2:
                        raise OutOfSubset('error function arity')
                    st.exc = ('ParseError', ex.box(args[1]))
                    raise Raised(st)
                return new_generator(ex, node, fv_, args, st)
            return NotImplemented
        ex.call_hooks['*value'] = call_val

        def call_any(ex, node, st):
            f = node.func
            if isinstance(f, (ast.Subscript, ast.Name)):
                return call_val(ex, node, ex.ev(f, st), st)
            return NotImplemented
        ex.call_hooks['*'] = call_any

        def subscript(ex, node, recv, idx, st):
            if isinstance(recv, z3.ExprRef) and recv.sort() == Val and isinstance(idx, z3.IntNumRef):
                ex.safety(st, 'subscript-of-a-triple', node, is_trip(recv))
                return (t0, t1, t2)[idx.as_long()](recv)
            return NotImplemented
        ex.subscript_hook = subscript

        def m_send(ex, node, recv, st):
            g = st.ghost
            arg = ex.box(ex.ev(node.args[0], st))
            # C07 "same outcome": what is delivered is None to a generator that has not started, otherwise the ONE
            # answer recorded for the request this generator is waiting on
            fresh = Select(g['gfresh'], recv)
            want = Select(g['answered'], Select(g['pending'], recv))
            ex.vcs.append(VC(f'ghost:send-delivers-the-recorded-outcome@{ex.ordn(node)}', st.pc,
                             If(fresh, arg == NONE, arg == want), 'post', path=list(st.trace)))
            r = ex.fv('yielded', Val)
            st.assume(is_trip(r), r == mk3(t0(r), t1(r), t2(r)), kind(r) == K_TUPLE, truthy(r),
                      Or(And(is_request(r), Not(is_err(t1(r)))), And(Not(is_request(r)), final_ok(cx, r))))
            g['gfresh'] = Store(g['gfresh'], recv, BoolVal(False))
            g['pending'] = If(is_request(r), Store(g['pending'], recv, r), g['pending'])
            g['last_sender'] = recv
            g['last_yield'] = r
            return r
        ex.method_hooks['send'] = m_send

        # ghost bookkeeping on the work list
        orig = ex.arrlist_method

        def arrlist_method(e, name, meth, st):
            g = st.ghost
            if meth == 'pop':
                L = st.env[name]
                k = Select(L.arrs[0], L.n - 1)
                r = orig(e, name, meth, st)
                g['cnt'] = Store(g['cnt'], k, Select(g['cnt'], k) - 1)
                return r
            r = orig(e, name, meth, st)
            L = st.env[name]
            k = Select(L.arrs[0], L.n - 1)
            g['cnt'] = Store(g['cnt'], k, Select(g['cnt'], k) + 1)
            # the pushed key must be the key the generator was created for
            ex.vcs.append(VC(f'ghost:pushed-key-is-creation-key@{ex.ordn(e)}', st.pc, k == g.get('last_created_key', NONE), 'post', path=list(st.trace)))
            return r
        ex.arrlist_method = arrlist_method

        def dict_store(ex, name, k, v, st):
            g = st.ghost
            d = st.env[name]
            ex.vcs.append(VC('ghost:memo-write-once', st.pc, Not(Select(d.dom, k)), 'post', path=list(st.trace)))
            ex.vcs.append(VC('ghost:memo-stores-final-of-its-own-key', st.pc,
                             And(v == g.get('last_yield', NONE), Not(is_request(v))), 'post', path=list(st.trace)))
            g['answered'] = Store(g['answered'], k, v)
        ex.dict_store_hook = dict_store

        def finalize(ex, node, st):
            args = [ex.ev(a, st) for a in node.args]
            if len(args) != 4 or args[0] is not cx.text:
                raise OutOfSubset('_finalize_parse_info arguments')
            nodes, pos, full = ex.box(args[1]), args[2], ex.truth(args[3], st)
            posi = un_int(ex.box(pos))
            ex.safety(st, '_finalize_parse_info-pre: 0 <= pos <= len(text)', node, And(kind(ex.box(pos)) == K_INT, 0 <= posi, posi <= cx.N))
            if ex.decide(st, node, And(full, posi < cx.N), 'partial'):
                st.exc = ('PartialParseError', nodes, ex.box(pos))
                raise Raised(st)
            st.ghost['finalized'] = (nodes, ex.box(pos))
            return nodes
        ex.call_hooks['_finalize_parse_info'] = finalize

        def raise_hook(ex, s, st):
            return ('raise-statement', ast.unparse(s.exc) if s.exc else '')
        ex.raise_hook = raise_hook

        def name_hook(ex, ident, st):
            # an unknown module-level constant: some integer (its value is not known to the contract)
            if ident.isupper() or (ident.startswith('_') and ident[1:].replace('_', '').isupper()):
                return Const(f'GLOBAL_{ident}', I)
            return None
        ex.name_hook = name_hook

    # ------------------------------------------------------------------ invariant
    def loops(self, cx):
        i, j = Const('i', I), Const('j', I)
        Kq = Const('Kq', Val)

        def inv(ex, st):
            g = st.ghost
            S = st.env[cx.stack_name]
            memo = [v for v in st.env.values() if isinstance(v, DictV)][0]
            keys, gens, n = S.arrs[0], S.arrs[1], S.n
            cnt, started, answered, pending, gfresh = g['cnt'], g['started'], g['answered'], g['pending'], g['gfresh']
            result = ex.box(self.result_var(cx, st))
            yield 'J0 length', n >= 0
            yield 'J1 stacked keys are counted', ForAll([i], Implies(And(0 <= i, i < n), Select(cnt, keys[i]) >= 1))
            yield 'J2 count in 0..1', ForAll([Kq], And(Select(cnt, Kq) >= 0, Select(cnt, Kq) <= 1))
            yield 'J3 being evaluated => not memoised', ForAll([Kq], Implies(Select(cnt, Kq) >= 1, Not(Select(memo.dom, Kq))))
            yield 'J4 started = memoised + on stack', ForAll([Kq], Select(started, Kq) == If(Select(memo.dom, Kq), 1, 0) + Select(cnt, Kq))
            yield 'J5 memo holds the recorded final answers', ForAll([Kq], Implies(Select(memo.dom, Kq), And(
                Select(memo.map, Kq) == Select(answered, Kq), is_trip(Select(memo.map, Kq)), Not(is_request(Select(memo.map, Kq))),
                final_ok(cx, Select(memo.map, Kq)))))
            yield 'J6 each stacked key is what the generator below waits on', ForAll([i], Implies(And(0 < i, i < n), And(
                keys[i] == Select(pending, gens[i - 1]), Not(Select(gfresh, gens[i - 1])))))
            yield 'J7 stacked generators are distinct (allocation order)', And(
                ForAll([i, j], Implies(And(0 <= i, i < j, j < n), gbirth(gens[i]) < gbirth(gens[j]))),
                ForAll([i], Implies(And(0 <= i, i < n), gbirth(gens[i]) <= g['clock'])))
            top = gens[n - 1]
            yield 'J8 value to deliver to the top generator', Implies(n >= 1, Or(
                And(result == NONE, Select(gfresh, top)),
                And(Not(Select(gfresh, top)), Select(memo.dom, Select(pending, top)), result == Select(memo.map, Select(pending, top)))))
            yield 'J9 bottom of the stack is the start request', And(Implies(n >= 1, keys[0] == g['key0']),
                                                                      Implies(n == 0, And(Select(memo.dom, g['key0']), result == Select(memo.map, g['key0']))))
            yield 'J12 stacked keys are distinct', ForAll([i, j], Implies(And(0 <= i, i < j, j < n), keys[i] != keys[j]))

        def havoc(ex, st):
            g = st.ghost
            g['started'], g['cnt'] = ex.fv('started', z3.ArraySort(Val, I)), ex.fv('cnt', z3.ArraySort(Val, I))
            g['answered'], g['pending'] = ex.fv('answered', z3.ArraySort(Val, Val)), ex.fv('pending', z3.ArraySort(Val, Val))
            g['gfresh'] = ex.fv('gfresh', z3.ArraySort(Val, B))
            g['clock'] = ex.fv('clock', I)
            for k in ('last_created_key', 'last_yield', 'last_sender'):
                g.pop(k, None)

        return {1: LoopSpec(inv, havoc=havoc)}

    def result_var(self, cx, st):
        # the variable that carries the value to send next: the one assigned from .send(...)
        for n in ast.walk(cx.tree):
            if isinstance(n, ast.Assign) and isinstance(n.value, ast.Call) and isinstance(n.value.func, ast.Attribute) \
                    and n.value.func.attr == 'send' and isinstance(n.targets[0], ast.Name):
                return st.env[n.targets[0].id]
        from pyvc.fragver import RoleError
        raise RoleError('result variable (target of gtor.send)')

    # ------------------------------------------------------------------ postcondition
    def post(self, cx, ex, st, how):
        g = st.ghost
        e0 = cx.entry_env
        memo = [v for v in st.env.values() if isinstance(v, DictV)][0]
        FIN = Select(g['answered'], g['key0'])      # the final triple of the generator created for (start, pos)
        ok, val, end = truthy(t0(FIN)), t1(FIN), t2(FIN)
        Kq = Const('Kq', Val)
        yield 'signature ([_ctx,] text, pos, start, fullparse)', BoolVal(cx.params_ok)
        yield 'C07 at most one body evaluation per (rule, position)', ForAll([Kq], Select(g['started'], Kq) <= 1)
        full = e0['fullparse']
        endi = un_int(end)
        if how == 'return':
            yield 'C08 returns only on a match that may stop here', And(ok, Or(Not(full), endi >= cx.N))
            yield 'C08 returned value is the start rule\'s value', ex.box(st.ret) == val
        elif how == 'raise' and st.exc[0] == 'PartialParseError':
            yield 'C08 PartialParseError only for a match with input left under fullparse', And(ok, full, endi < cx.N)
            yield 'C08 partial_result is the start rule\'s value', st.exc[1] == val
            yield 'C08 last_position.index is where the match ended', st.exc[2] == end
        elif how == 'raise' and st.exc[0] == 'ParseError':
            yield 'C08 ParseError only when the start rule does not match', Not(ok)
            yield 'C09 ParseError index is the reported failure position', st.exc[1] == end
        else:
            yield f'no other way out ({how}: {st.exc})', BoolVal(False)


def _bounded_run(self, cx):
    """packrat witness family on the real generated module: evaluations per (rule, position) counted by inline python"""
    from sourcer import Grammar
    from collections import Counter
    import sys
    bad, tried = [], 0
    log = []
    hdr = 'grammar verif_c07_witness\n' if cx.uses_context else ''
    sys.modules.pop('verif_c07_witness', None)
    sys.modules.pop('verif_c07_witness2', None)
    g = Grammar(hdr + '```\nLOG = []\ndef tick(name, pos):\n    LOG.append((name, pos))\n    return None\n```\n'
                'start = (Item* << "x") | (Item* << "y") | [Expect(Item*), Item*, "z"]\n'
                'Item = `tick("Item", _pos)` >> /a/\n'
                'Deep = "(" >> Deep << ")" << "+" | "(" >> Deep << ")" << "-" | "(" >> Deep << ")" | `tick("Deep0", _pos)` >> "0"\n')
    for n in (0, 7, 300, 70000):
        for tail in ('x', 'y', 'z'):
            tried += 1
            del g.LOG[:]
            try:
                g.parse('a' * n + tail)
            except Exception as e:
                bad.append({'input': f"'a'*{n}+{tail!r}", 'raised': repr(e)[:100]})
                continue
            from collections import Counter
            c = Counter(g.LOG)
            worst = max(c.values()) if c else 0
            if worst > 1 or len(g.LOG) > 2 * (n + 2):
                bad.append({'input': f"'a'*{n}+{tail!r}", 'max_evaluations_of_one_rule_at_one_position': worst, 'evaluations': len(g.LOG), 'bound': n + 2})
    for depth in (3, 12, 18):
        tried += 1
        del g.LOG[:]
        text = '(' * depth + '0' + ')' * depth
        try:
            g.Deep.parse(text)
        except Exception as e:
            bad.append({'input': text, 'raised': repr(e)[:100]})
            continue
        from collections import Counter
        c = Counter(g.LOG)
        if c and max(c.values()) > 1:
            bad.append({'input': text, 'max_evaluations_of_one_rule_at_one_position': max(c.values())})
    # every KIND of outcome is memoised: a value of None (an option that matched nothing), a failure, a failure AT THE END of the input
    g2 = Grammar(hdr.replace('witness', 'witness2') + '```\nLOG = []\ndef tick(name, pos):\n    LOG.append((name, pos))\n    if len(LOG) > 20000:\n        raise RuntimeError("more than 20000 rule evaluations")\n    return None\n```\n'
                 'start = [Mark, "a"] | [Mark, "b"] | [Mark, "c"] | [Mark, "d"]\n'
                 'Mark = `tick("Mark", _pos)` >> Opt("m")\n'
                 'Nest = "(" >> Nest << ")" << "+" | "(" >> Nest << ")" << "-" | "(" >> Nest << ")" | Leaf\n'
                 'Leaf = `tick("Leaf", _pos)` >> "x"\n'
                 'Open = `tick("Open", _pos)` >> "("\n')
    for text in ('d', 'md', 'c', 'mb', 'z', ''):
        tried += 1
        del g2.LOG[:]
        try:
            g2.parse(text)
        except (g2.ParseError, g2.PartialParseError):
            pass
        except Exception as e:
            bad.append({'input': text, 'raised': repr(e)[:100]})
            continue
        c = Counter(g2.LOG)
        if c and max(c.values()) > 1:
            bad.append({'input': text, 'rule_with_value_None_evaluated_more_than_once_at_a_position': dict((str(k), v) for k, v in c.items() if v > 1)})
    for depth in (2, 4, 10, 16):
        for text in ('(' * depth + 'x', '(' * depth, '(' * depth + 'x' + ')' * (depth - 1)):        # truncated input: failures at the end of the input
            tried += 1
            del g2.LOG[:]
            try:
                g2.Nest.parse(text)
            except (g2.ParseError, g2.PartialParseError):
                pass
            except Exception as e:
                bad.append({'input': text, 'raised': repr(e)[:100], 'evaluations': len(g2.LOG)})
                if len(bad) >= 4:
                    break
                continue
            c = Counter(g2.LOG)
            if c and max(c.values()) > 1:
                bad.append({'input': text, 'max_evaluations_of_one_rule_at_one_position': max(c.values()), 'evaluations': len(g2.LOG)})
        if len(bad) >= 4:
            break
    return bad[:8], tried, "witness family: 'a'*n + tail for n in {0, 7, 300, 70000}, exponential family '('*d+'0'+')'*d for d in {3, 12, 18}; rules with value None under 4 alternatives; truncated nested input (failures at end of input) of depth 2, 4, 10, 16"


RunC.bounded = _bounded_run
RUN = [RunC()]
