"""Contract of the Call fragment and of argument passing (C06).

T(a1..am, k=a) emits ONE request (CALL, _ParseFunction(callee, (A1..Am), ((k, A),)), _pos); the registers become the
driver's answer.  The argument values Ai are: the callee function for a rule reference, the current value for a local
name / inline python, a wrapped literal (value + parser) for string and byte literals, and for any other expression a
helper function (wrapped with the captured call-site values when it mentions names bound there)."""
import ast
import z3
from z3 import And, Or, Not, Implies, If, IntVal, BoolVal, Const, Function

from pyvc.frag import ex as X, Stub, FLAGS
from pyvc.fragver import FragContract, Outcome, d_ok, d_val, d_end
from pyvc.symx import Val, I, B, NONE, Tup, StrLit, Opaque, OutOfSubset

PF = Function('ParseFunction', Val, Val, Val, Val)        # _ParseFunction(func, args, kwargs)
wrapS = Function('wrap_string_literal', Val, Val, Val)
wrapB = Function('wrap_byte_literal', Val, Val, Val)

ARG_KINDS = ['rule-ref', 'local-ref', 'inline-python', 'str', 'str-empty', 'bytes', 'bytes-empty', 'byte', 'compound', 'compound-1free', 'compound-2free']
STR_ARGS = {'str': 'lit', 'str-empty': '', 'bytes': b'ab\xff', 'bytes-empty': b''}


def _ref(name):
    r = X.Ref(name)
    r._resolved = X.implementation_name(name)
    return r


def _local(name):
    r = X.Ref(name)
    r.is_local = True
    return r


def build_arg(kind):
    if kind == 'rule-ref':
        return _ref('A')
    if kind == 'local-ref':
        return _local('p')
    if kind == 'inline-python':
        return X.PythonExpression('n')
    if kind in STR_ARGS:
        return X.Str(STR_ARGS[kind])
    if kind == 'byte':
        return X.Byte(0x41)
    if kind == 'compound':
        return X.Seq(Stub(1, False, True), Stub(2, False, False))
    if kind == 'compound-1free':
        return X.Seq(Stub(1, False, True), _local('p'))
    if kind == 'compound-2free':
        return X.Seq(_local('q'), Stub(1, False, True), _local('p'))
    raise ValueError(kind)


class CallC(FragContract):
    cls_name = 'Call'

    def configs(self, tier):
        for callee in ('rule', 'local'):
            for ctx in (False, True):
                for kinds in (['rule-ref'], ['local-ref'], ['inline-python'], ['str'], ['str-empty'], ['bytes'], ['bytes-empty'], ['byte'], ['compound'], ['compound-1free'], ['compound-2free'],
                              ['str', 'compound-1free', 'inline-python'], []):
                    for kw in ((False, True) if kinds else (False,)):
                        yield {'callee': callee, 'ctx': ctx, 'args': kinds, 'keyword_last': kw,
                               'user_sorts': {'p': 'val', 'q': 'val', 'n': 'val', 'f': 'val'}}

    def label(self, cfg):
        return f"callee={cfg['callee']},ctx={int(cfg['ctx'])},args={'+'.join(cfg['args']) or 'none'},kw={int(cfg['keyword_last'])}"

    def build(self, cfg):
        func = _ref('T') if cfg['callee'] == 'rule' else _local('f')
        args = [build_arg(k) for k in cfg['args']]
        if cfg['keyword_last'] and args:
            args[-1] = X.KeywordArg('kw', args[-1])
        self._args = args
        return X.Call(func, args), []

    def setup(self, cx, ex, st):
        def def_hook(ex_, s, st_):
            st_.env[s.name] = Const(s.name, Val)
            st_.ghost.setdefault('helpers', {})[s.name] = s
        ex.def_hook = def_hook
        ex.call_hooks['_wrap_string_literal'] = lambda e, n, s: wrapS(e.box(e.ev(n.args[0], s)), e.box(e.ev(n.args[1], s)))
        ex.call_hooks['_wrap_byte_literal'] = lambda e, n, s: wrapB(e.box(e.ev(n.args[0], s)), e.box(e.ev(n.args[1], s)))

        def c_pf(e, n, s):
            if len(n.args) != 3 or n.keywords:
                raise OutOfSubset('_ParseFunction arity')
            a = [e.box(e.ev(x, s)) for x in n.args]
            return PF(*a)
        ex.call_hooks['_ParseFunction'] = c_pf
        cx.cfg.setdefault('frame_extra', [])

    def expected_arg(self, cx, ex, st, node, kind):
        ctx = cx.uses_context
        env = cx.entry_env
        helper = lambda: Const(f'_parse_function_{node.program_id}', Val)
        if kind == 'rule-ref':
            # a rule passed as an argument is the same (late-bound, C13) function object a direct reference requests
            return Const('_ctx._try_A' if ctx else '_try_A', Val)
        if kind == 'local-ref':
            return env['p']
        if kind == 'inline-python':
            return env['n']
        if kind in STR_ARGS:
            # every string / bytes literal - the empty ones too - is passed wrapped: its value, callable as its own parser
            return wrapS(ex.lit(STR_ARGS[kind]), helper())
        if kind == 'byte':
            return wrapB(ex.box(IntVal(0x41)), helper())
        if kind == 'compound':
            return helper()
        if kind == 'compound-1free':
            return PF(helper(), ex.box(Tup([env['p']])), ex.box(Tup([])))
        if kind == 'compound-2free':
            return PF(helper(), ex.box(Tup([env['p'], env['q']])), ex.box(Tup([])))       # captured in sorted name order
        raise ValueError(kind)

    def spec(self, cx, ex, st):
        cfg = cx.cfg
        callee = (Const('_ctx._try_T' if cx.uses_context else '_try_T', Val)) if cfg['callee'] == 'rule' else cx.entry_env['f']
        pos, kws = [], []
        for i, (kind, a) in enumerate(zip(cfg['args'], cx.node.args)):
            is_kw = isinstance(a, X.KeywordArg)
            v = self.expected_arg(cx, ex, st, a.expr if is_kw else a, kind)
            if is_kw:
                kws.append(Tup([StrLit('kw'), v]))
            else:
                pos.append(v)
        f = PF(callee, ex.box(Tup(pos)), ex.box(Tup(kws)))
        p = cx.p0
        reqs = st.ghost.get('requests', [])
        extra = [('exactly one request to the driver', BoolVal(len(reqs) == 1))]
        if len(reqs) == 1:
            extra.append(('the request is (CALL, _ParseFunction(callee, args in order, keyword pairs), entry position)', And(reqs[0][0] == f, reqs[0][1] == p)))
        return Outcome(d_ok(f, p), d_val(f, p), d_end(f, p), extra)


CALL = [CallC()]
