"""Contracts of visit / traverse (C15).

Heap abstraction: nkind(n) in {leaf, list/tuple, dict, parsed object}; children(n) = elements / dict values /
field values in _fields order.  id() is injective on live objects, so a set of ids is a set of nodes.

visit(root) yields PRE([root], {}) where, for a work list w (next node first) and a visited set S,
    PRE([], S)    = []
    PRE(n.w, S)   = PRE(children(n).w, S)                    n list / tuple / dict
                  = PRE(w, S)                                n object in S, or n a leaf
                  = n . PRE(children(n).w, S + {n})          n object not in S
i.e. pre-order, left to right, first occurrence only."""
import ast
import z3
from z3 import And, Or, Not, Implies, If, IntVal, BoolVal, Const, Function, Length, Concat, Unit, Empty, SubSeq, Select, Store, K

from pyvc.rtver import RtContract
from pyvc.symx import Val, I, B, SeqV, NONE, Tup, Opaque, SetV, OutOfSubset, LoopSpec, VC

SetS = z3.ArraySort(Val, B)
nkind = Function('nkind', Val, I)           # 0 leaf, 1 list/tuple, 2 dict, 3 parsed object
children = Function('children', Val, SeqV)
rev = Function('rev', SeqV, SeqV)
PRE = Function('PRE', SeqV, SetS, SeqV)
LEAF, LIST, DICT, OBJ = 0, 1, 2, 3


def unfold_PRE(n, w, S):
    """one definitional unfolding of PRE at the work list n.w"""
    full = Concat(Unit(n), w)
    return PRE(full, S) == If(Or(nkind(n) == LIST, nkind(n) == DICT), PRE(Concat(children(n), w), S),
                              If(nkind(n) == OBJ, If(Select(S, n), PRE(w, S), Concat(Unit(n), PRE(Concat(children(n), w), Store(S, n, BoolVal(True))))),
                                 PRE(w, S)))


def rev_facts(s1, n):
    """instances of the list-reversal lemmas (rev(a.b) = rev(b).rev(a), rev(rev(c)) = c, rev([x]) = [x]) at the terms of one iteration"""
    c = children(n)
    return [rev(Unit(n)) == Unit(n), rev(rev(c)) == c,
            rev(Concat(s1, Unit(n))) == Concat(Unit(n), rev(s1)),
            rev(Concat(s1, rev(c))) == Concat(c, rev(s1))]


class VisitC(RtContract):
    fn_name = 'visit'

    def setup(self, cx, ex, st):
        st.env['node'] = Const('root', Val)
        st.ghost['out'] = Empty(SeqV)
        cx.root = st.env['node']
        cx.GOAL = PRE(Unit(cx.root), K(Val, BoolVal(False)))
        st.assume(rev(Unit(cx.root)) == Unit(cx.root), rev(Empty(SeqV)) == Empty(SeqV),
                  PRE(Empty(SeqV), K(Val, BoolVal(False))) == Empty(SeqV))

    def hooks(self, cx, ex):
        def isinstance_hook(cx_, ex, node, a, cls, st):
            if isinstance(a, z3.ExprRef) and a.sort() == Val:
                if cls in ('(list, tuple)', '(tuple, list)'):
                    return nkind(a) == LIST
                if cls == 'dict':
                    return nkind(a) == DICT
                if cls == 'ParsedObject':
                    return nkind(a) == OBJ
            return NotImplemented
        self.isinstance_hook = isinstance_hook

        def c_reversed(ex, node, st):
            a = ex.ev(node.args[0], st)
            if isinstance(a, z3.ExprRef) and a.sort() == Val:
                # reversed(<list or tuple>): its elements, last first
                ex.safety(st, 'reversed-of-a-sequence', node, nkind(a) == LIST)
                return rev(children(a))
            if isinstance(a, Opaque) and a.tag == 'dict-values':
                return rev(children(a.of))
            if isinstance(a, Opaque) and a.tag == 'fields':
                return Opaque('rev-fields', of=a.of)
            raise OutOfSubset('reversed')
        ex.call_hooks['reversed'] = c_reversed

        def reverse_slice(ex, node, a, st):
            if isinstance(a, z3.ExprRef) and a.sort() == Val:
                # <list or tuple>[::-1]: its elements, last first (anything else - a dict view, an iterator - raises TypeError)
                ex.safety(st, 'reverse-slice-of-a-sequence', node, nkind(a) == LIST)
                return rev(children(a))
            return NotImplemented
        ex.reverse_slice_hook = reverse_slice

        def m_values(ex, node, recv, st):
            if isinstance(recv, z3.ExprRef) and recv.sort() == Val:
                ex.safety(st, 'values-of-a-dict', node, nkind(recv) == DICT)
                return Opaque('dict-values', of=recv)
            return NotImplemented
        ex.method_hooks['values'] = m_values

        def attr_fields(ex, node, recv, st):
            if isinstance(recv, z3.ExprRef) and recv.sort() == Val:
                ex.safety(st, '_fields-of-a-parsed-object', node, nkind(recv) == OBJ)
                return Opaque('fields', of=recv)
            return NotImplemented
        ex.attr_hooks['_fields'] = attr_fields

        def c_hasattr(ex, node, st):
            a = ex.ev(node.args[0], st)
            name = ex.ev(node.args[1], st)
            if getattr(name, 'value', None) == '_fields' and isinstance(a, z3.ExprRef):
                return nkind(a) == OBJ          # ParsedObject defines the class attribute _fields = ()
            raise OutOfSubset('hasattr')
        ex.call_hooks['hasattr'] = c_hasattr

        def c_id(ex, node, st):
            # id() is injective on live objects: the object stands for its id (but remembers that it IS an id)
            v = ex.box(ex.ev(node.args[0], st))
            return Opaque('id', of=v, as_val=v)
        ex.call_hooks['id'] = c_id

        def set_key(ex, raw, st, node):
            # a python set compares keys with ==/hash; only keys that are ids give membership BY IDENTITY, which is what
            # "exactly once" needs when distinct objects are equal
            ex.vcs.append(VC(f'set-membership-is-by-identity (key is an id())@{ex.ordn(node)}', st.pc,
                             BoolVal(isinstance(raw, Opaque) and raw.tag == 'id'), 'post', path=list(st.trace)))
        ex.set_key_hook = set_key

        def comp(ex, e, st):
            # (getattr(N, x) for x in reversed(N._fields))  ->  field values of N, last field first
            if len(e.generators) == 1 and not e.generators[0].ifs and isinstance(e.generators[0].target, ast.Name):
                var = e.generators[0].target.id
                it = ex.ev(e.generators[0].iter, st)
                elt = e.elt
                if isinstance(elt, ast.Call) and ast.unparse(elt.func) == 'getattr' and len(elt.args) == 2 \
                        and isinstance(elt.args[1], ast.Name) and elt.args[1].id == var:
                    obj = ex.ev(elt.args[0], st)
                    if isinstance(it, Opaque) and it.tag == 'rev-fields' and it.of.eq(obj):
                        return rev(children(obj))
                    if isinstance(it, Opaque) and it.tag == 'fields' and it.of.eq(obj):
                        return children(obj)
            return NotImplemented
        ex.comp_hook = comp

        def yield_hook(ex, node, v, st):
            st.ghost['out'] = Concat(st.ghost['out'], Unit(ex.box(v)))
            return NONE
        ex.yield_hook = yield_hook

    def roles(self, cx, st):
        stack = [k for k, v in st.env.items() if isinstance(v, z3.SeqRef)]
        sets = [k for k, v in st.env.items() if isinstance(v, SetV)]
        if len(stack) != 1 or len(sets) != 1:
            from pyvc.fragver import RoleError
            raise RoleError(f'work list / visited set: {stack} {sets}')
        return stack[0], sets[0]

    def loops(self, cx):
        def inv(ex, st):
            sname, vname = self.roles(cx, st)
            yield 'out . PRE(rev(stack), visited) = PRE([root], {})', Concat(st.ghost['out'], PRE(rev(st.env[sname]), st.env[vname].arr)) == cx.GOAL

        def havoc(ex, st):
            sname, vname = self.roles(cx, st)
            st.ghost['out'] = ex.fv('out', SeqV)
            s = st.env[sname]
            n = Length(s)
            s1, top = SubSeq(s, 0, n - 1), s[n - 1]
            st.assume(Implies(n > 0, And(s == Concat(s1, Unit(top)), *rev_facts(s1, top), unfold_PRE(top, rev(s1), st.env[vname].arr))))
            st.assume(rev(Empty(SeqV)) == Empty(SeqV), PRE(Empty(SeqV), st.env[vname].arr) == Empty(SeqV))

        return {1: LoopSpec(inv, havoc=havoc)}

    def post(self, cx, ex, st, how):
        yield 'generator ends normally', BoolVal(how in ('fall', 'return'))
        yield 'yields exactly PRE([root], {}): every reachable object once, parents first, left to right', st.ghost['out'] == cx.GOAL


WALK = [VisitC()]


# ------------------------------------------------------------------------------------------------ traverse
T4 = Function('Traversing', Val, Val, Val, B, Val)      # _Traversing(parent, field, child, is_finished)
t_parent, t_field, t_child = Function('t_parent', Val, Val), Function('t_field', Val, Val), Function('t_child', Val, Val)
t_fin = Function('t_fin', Val, B)
occs = Function('occs', Val, SeqV)     # entering occurrences of the children of a container, in order:
#   list/tuple c: _Traversing(c, i, c[i], False);  dict c: _Traversing(c, key, value, False) in items() order;
#   object c: _Traversing(c, name, getattr(c, name), False) for name in c._fields
EVT = Function('EVT', SeqV, SetS, SeqV)


def mkT(ex, parent, field, child, fin):
    t = T4(parent, field, child, fin)
    ex.axiom(t_parent(t) == parent); ex.axiom(t_field(t) == field); ex.axiom(t_child(t) == child); ex.axiom(t_fin(t) == fin)
    return t


def fin_of(ex, t):
    return mkT(ex, t_parent(t), t_field(t), t_child(t), BoolVal(True))


def unfold_EVT(ex, t, w, S):
    """EVT(t.w, S): a finished marker is emitted; an entering occurrence is emitted, its finished twin is scheduled after
    the occurrences of its children, which are scheduled only if the child is a container met for the first time"""
    c = t_child(t)
    expandable = And(nkind(c) != LEAF, Not(Select(S, c)))
    X = If(expandable, occs(c), Empty(SeqV))
    S2 = If(expandable, Store(S, c, BoolVal(True)), S)
    return EVT(Concat(Unit(t), w), S) == If(t_fin(t), Concat(Unit(t), EVT(w, S)),
                                           Concat(Unit(t), EVT(Concat(X, Unit(fin_of(ex, t)), w), S2)))


class TraverseC(VisitC):
    fn_name = 'traverse'

    def setup(self, cx, ex, st):
        st.env['node'] = Const('root', Val)
        st.ghost['out'] = Empty(SeqV)
        cx.root = st.env['node']
        t0 = mkT(ex, NONE, NONE, cx.root, BoolVal(False))
        cx.GOAL = EVT(Unit(t0), K(Val, BoolVal(False)))
        st.assume(rev(Unit(t0)) == Unit(t0), rev(Empty(SeqV)) == Empty(SeqV))

    def hooks(self, cx, ex):
        VisitC.hooks(self, cx, ex)
        base_isinstance = self.isinstance_hook

        def isinstance_hook(cx_, ex, node, a, cls, st):
            if isinstance(a, z3.ExprRef) and a.sort() == Val:
                names = sorted(x.strip() for x in cls.strip('()').split(','))
                if names == ['ParsedObject', 'dict', 'list', 'tuple']:
                    return nkind(a) != LEAF
            return base_isinstance(cx_, ex, node, a, cls, st)
        self.isinstance_hook = isinstance_hook

        def c_traversing(ex, node, st):
            kw = {k.arg: ex.ev(k.value, st) for k in node.keywords}
            if node.args or set(kw) != {'parent', 'field', 'child', 'is_finished'}:
                raise OutOfSubset('_Traversing arguments')
            return mkT(ex, ex.box(kw['parent']), ex.box(kw['field']), ex.box(kw['child']), ex.truth(kw['is_finished'], st))
        ex.call_hooks['_Traversing'] = c_traversing

        def attr(proj):
            def h(ex, node, recv, st):
                if isinstance(recv, z3.ExprRef) and recv.sort() == Val:
                    return proj(recv)
                return NotImplemented
            return h
        ex.attr_hooks['is_finished'] = attr(t_fin)
        ex.attr_hooks['child'] = attr(t_child)
        ex.attr_hooks['parent'] = attr(t_parent)
        ex.attr_hooks['field'] = attr(t_field)

        def m_replace(ex, node, recv, st):
            if isinstance(recv, z3.ExprRef) and recv.sort() == Val and not node.args:
                kw = {k.arg: ex.ev(k.value, st) for k in node.keywords}
                if set(kw) - {'parent', 'field', 'child', 'is_finished'}:
                    raise OutOfSubset('_replace keywords')
                return mkT(ex, ex.box(kw['parent']) if 'parent' in kw else t_parent(recv),
                           ex.box(kw['field']) if 'field' in kw else t_field(recv),
                           ex.box(kw['child']) if 'child' in kw else t_child(recv),
                           ex.truth(kw['is_finished'], st) if 'is_finished' in kw else t_fin(recv))
            return NotImplemented
        ex.method_hooks['_replace'] = m_replace

        def c_list(ex, node, st):
            a = ex.ev(node.args[0], st)
            if isinstance(a, z3.SeqRef):
                return a
            raise OutOfSubset('list()')
        ex.call_hooks['list'] = c_list
        prev_reversed = ex.call_hooks['reversed']

        def c_reversed(ex, node, st):
            if len(node.args) == 1:
                a = ex.ev(node.args[0], st)
                if isinstance(a, z3.SeqRef):
                    return rev(a)
            return prev_reversed(ex, node, st)
        ex.call_hooks['reversed'] = c_reversed

        def comp(ex, e, st):
            """the three comprehensions that enumerate the child occurrences of a container: recognised syntactically
            against the definition of occs (right parent, right field, right child, entering), else out of subset"""
            if len(e.generators) != 1 or e.generators[0].ifs:
                return NotImplemented
            g = e.generators[0]
            elt = e.elt
            if not (isinstance(elt, ast.Call) and ast.unparse(elt.func) == '_Traversing' and not elt.args):
                return NotImplemented
            kw = {k.arg: ast.unparse(k.value) for k in elt.keywords}
            if set(kw) != {'parent', 'field', 'child', 'is_finished'} or kw['is_finished'] != 'False':
                return NotImplemented
            cname = kw['parent']
            if cname not in st.env:
                return NotImplemented
            c = st.env[cname]
            it, tgt = ast.unparse(g.iter), ast.unparse(g.target)
            guard = None
            if it == f'enumerate({cname})' and isinstance(g.target, ast.Tuple) and len(g.target.elts) == 2:
                i, x = [ast.unparse(t) for t in g.target.elts]
                if kw['field'] == i and kw['child'] == x:
                    guard = nkind(c) == LIST
            elif it == f'{cname}.items()' and isinstance(g.target, ast.Tuple) and len(g.target.elts) == 2:
                k_, v_ = [ast.unparse(t) for t in g.target.elts]
                if kw['field'] == k_ and kw['child'] == v_:
                    guard = nkind(c) == DICT
            elif it == f'{cname}._fields' and isinstance(g.target, ast.Name):
                x = g.target.id
                if kw['field'] == x and kw['child'] == f'getattr({cname}, {x})':
                    guard = nkind(c) == OBJ
            if guard is None:
                return NotImplemented
            ex.safety(st, 'comprehension-enumerates-the-container-of-its-kind', e, guard)
            return occs(c)
        ex.comp_hook = comp

    def loops(self, cx):
        def inv(ex, st):
            sname, vname = self.roles(cx, st)
            yield 'out . EVT(rev(stack), visited) = EVT([root occurrence], {})', Concat(st.ghost['out'], EVT(rev(st.env[sname]), st.env[vname].arr)) == cx.GOAL

        def havoc(ex, st):
            sname, vname = self.roles(cx, st)
            st.ghost['out'] = ex.fv('out', SeqV)
            s = st.env[sname]
            n = Length(s)
            s1, top = SubSeq(s, 0, n - 1), s[n - 1]
            f = fin_of(ex, top)
            oc = occs(t_child(top))
            facts = [s == Concat(s1, Unit(top)), rev(Concat(s1, Unit(top))) == Concat(Unit(top), rev(s1)),
                     rev(Concat(s1, Unit(f))) == Concat(Unit(f), rev(s1)),
                     rev(Concat(s1, Unit(f), rev(oc))) == Concat(oc, Unit(f), rev(s1)),
                     rev(Concat(Concat(s1, Unit(f)), rev(oc))) == Concat(oc, Unit(f), rev(s1)),
                     unfold_EVT(ex, top, rev(s1), st.env[vname].arr),
                     And(nkind(t_child(top)) >= 0, nkind(t_child(top)) <= 3)]
            st.assume(Implies(n > 0, And(*facts)))
            st.assume(rev(Empty(SeqV)) == Empty(SeqV), EVT(Empty(SeqV), st.env[vname].arr) == Empty(SeqV))

        return {1: LoopSpec(inv, havoc=havoc)}

    def post(self, cx, ex, st, how):
        yield 'generator ends normally', BoolVal(how in ('fall', 'return'))
        yield ('emits exactly EVT([root], {}): for every occurrence one entering and later one finished event with its parent, field '
               'and child, depth-first, left to right, a container expanded only the first time it is met'), st.ghost['out'] == cx.GOAL


WALK.append(TraverseC())


# ------------------------------------------------------------------------------------------------ bounded stand-ins
def _small_trees(ns):
    """a fixed family of small heaps with sharing, repeated equal leaves, equal-but-distinct objects, nested containers"""
    PO = ns['ParsedObject']

    def cls(name, fields):
        def init(self, *a):
            PO.__init__(self)
            for f, v in zip(fields, a):
                setattr(self, f, v)
        return type(name, (PO,), {'_fields': tuple(fields), '__init__': init, '__repr__': lambda s: f'{name}({", ".join(repr(getattr(s, f)) for f in fields)})'})
    A, B, E = cls('A', ['x', 'y']), cls('B', ['v']), cls('E', [])
    shared = B(1)
    lst = [B(2), None, None]
    out = [None, 5, 'x', [], {}, E(), B(None), A(None, None), A(1, 1), A('s', 's'),
           A(B(1), B(1)), A(shared, shared), [shared, shared, B(1)], A(lst, lst), {'k': B(3), 'j': [B(4), {'z': B(5)}]},
           (B(6), (B(7),)), A(A(B(8), [B(9), (B(10), None)]), {'a': None, 'b': None}), [[[[B(11)]]], [B(12), [B(13)]]],
           A([A(None, E()), A(None, E())], E()), [1, 1, 1, 'x', 'x'], A({'p': shared}, [shared]),
           [{'a': B(i)} for i in range(6)], {'d%d' % i: {'e': B(20 + i)} for i in range(6)},
           # many dicts holding objects: a walk that keys temporaries by id() meets recycled addresses here
           [{'a': B(100 + i)} for i in range(40)], {'d%d' % i: {'e': B(200 + i)} for i in range(40)},
           [B({'k': B(300 + i), 'j': B(-i)}) for i in range(40)]]
    return out


def _ref_pre(root, PO):
    out, seen = [], set()

    def rec(n):
        if isinstance(n, (list, tuple)):
            for x in n:
                rec(x)
        elif isinstance(n, dict):
            for x in n.values():
                rec(x)
        elif isinstance(n, PO):
            if id(n) in seen:
                return
            seen.add(id(n))
            out.append(n)
            for f in n._fields:
                rec(getattr(n, f))
    rec(root)
    return out


def _ref_evt(root, PO):
    out, seen = [], set()

    def rec(parent, field, child):
        out.append((id(parent) if parent is not None else None, field, id(child), False))
        if isinstance(child, (list, tuple, dict, PO)) and id(child) not in seen:
            seen.add(id(child))
            if isinstance(child, (list, tuple)):
                for i, x in enumerate(child):
                    rec(child, i, x)
            elif isinstance(child, dict):
                for k, v in child.items():
                    rec(child, k, v)
            else:
                for f in child._fields:
                    rec(child, f, getattr(child, f))
        out.append((id(parent) if parent is not None else None, field, id(child), True))
    rec(None, None, root)
    return out


def _bounded_visit(self, cx):
    from pyvc.rtver import native_namespace
    ns = native_namespace()
    bad, tried = [], 0
    for t in _small_trees(ns):
        tried += 1
        try:
            got = list(ns['visit'](t))
        except Exception as e:
            bad.append({'tree': repr(t)[:120], 'raised': repr(e)})
            continue
        want = _ref_pre(t, ns['ParsedObject'])
        if [id(x) for x in got] != [id(x) for x in want]:
            bad.append({'tree': repr(t)[:120], 'got': repr(got)[:160], 'want': repr(want)[:160]})
    return bad, tried, 'fixed family of %d small heaps (sharing, equal-but-distinct objects, repeated leaves, nesting <= 4, several dicts)' % tried


def _bounded_traverse(self, cx):
    from pyvc.rtver import native_namespace
    ns = native_namespace()
    bad, tried = [], 0
    for t in _small_trees(ns):
        tried += 1
        try:
            got = [(id(e.parent) if e.parent is not None else None, e.field, id(e.child), e.is_finished) for e in ns['traverse'](t)]
        except Exception as e:
            bad.append({'tree': repr(t)[:120], 'raised': repr(e)})
            continue
        want = _ref_evt(t, ns['ParsedObject'])
        if got != want:
            bad.append({'tree': repr(t)[:120], 'events_got': len(got), 'events_want': len(want)})
    return bad, tried, 'fixed family of %d small heaps (sharing, equal-but-distinct objects, repeated leaves, nesting <= 4, several dicts)' % tried


VisitC.bounded = _bounded_visit
TraverseC.bounded = _bounded_traverse
