"""The documented MEANING of each operator / constructor spelling, proved on what the real front end builds for it.

For every spelling the expression object comes from the real front end (shipped parser + translator._create_parsing_expression) with the
operands replaced by abstract children; the spec is the one of the class contract (contracts/core, bind) with the options that the
DOCUMENTATION assigns to the spelling (`a >> b` returns b, `a << b` returns a, `a |> f` is f(a), `f <| a` is f(a), `e+` is one or more
...).  So a front end or a sugar constructor that maps a spelling to the wrong class or option fails here, for all child behaviours -
independently of the pairwise comparison of spellings in C19 (which cannot see a mistake that both spellings share)."""
from pyvc import front
from pyvc.frag import Stub
from pyvc.fragver import Child
from .core import DiscardC, OptC, ChoiceC, SeqC, ListC, NAME2FLAGS, flag_products
from .bind import ApplyC, WhereC
from .lists import SepC
import itertools


def _build(src, flags):
    kids = [Child(i + 1, *NAME2FLAGS[f]) for i, f in enumerate(flags)]
    stubs = {f'X{i + 1}': Stub(i + 1, *NAME2FLAGS[f]) for i, f in enumerate(flags)}
    return front.substitute_stubs(front.expr_of(src), stubs), kids


class _Spelled:
    """mixin: build through the front end; `SPELLINGS` = [(source text, extra cfg)]"""
    def configs(self, tier):
        for src, extra in self.SPELLINGS:
            for fl in self.flags_for(extra):
                yield dict(extra, src=src, flags=fl, ctx=False, user_sorts={})

    def flags_for(self, extra):
        return flag_products(self.ARITY)

    def label(self, cfg):
        return f"`{cfg['src']}`,flags={cfg['flags']}"

    def build(self, cfg):
        return _build(cfg['src'], cfg['flags'])


class SpelledDiscardC(_Spelled, DiscardC):
    ARITY = 2
    SPELLINGS = [('X1 >> X2', {'discard_left': True}), ('Right(X1, X2)', {'discard_left': True}),
                 ('X1 << X2', {'discard_left': False}), ('Left(X1, X2)', {'discard_left': False})]


class SpelledApplyC(_Spelled, ApplyC):
    ARITY = 2
    SPELLINGS = [('X1 |> X2', {'apply_left': False}), ('X1 <| X2', {'apply_left': True})]


class SpelledWhereC(_Spelled, WhereC):
    ARITY = 2
    SPELLINGS = [('X1 where X2', {})]


class SpelledOptC(_Spelled, OptC):
    ARITY = 1
    SPELLINGS = [('X1?', {}), ('Opt(X1)', {})]


class SpelledChoiceC(_Spelled, ChoiceC):
    ARITY = 2
    SPELLINGS = [('X1 | X2', {}), ('Choice(X1, X2)', {})]

    def flags_for(self, extra):
        return flag_products(2)


class SpelledSeqC(_Spelled, SeqC):
    ARITY = 2
    SPELLINGS = [('[X1, X2]', {}), ('Seq(X1, X2)', {})]


class SpelledListC(_Spelled, ListC):
    """e* / List(e): zero or more; e+ / Some(e): one or more"""
    ARITY = 1
    SPELLINGS = [('X1*', {'min': None, 'max': None}), ('List(X1)', {'min': None, 'max': None}),
                 ('X1+', {'min': 1, 'max': None}), ('Some(X1)', {'min': 1, 'max': None})]

    def flags_for(self, extra):
        return [[f] for f in ('NP', 'PS')]          # a repetition of something that always succeeds is outside A-wf

    def label(self, cfg):
        return f"`{cfg['src']}`,flags={cfg['flags']}"


_SEP_DEFAULT = dict(discard_separators=True, allow_empty=True, require_separator=False)


class SpelledSepC(_Spelled, SepC):
    """`e // s` and Sep(e, s): elements only, no trailing separator consumed; `e /? s`: a trailing separator is consumed"""
    ARITY = 2
    SPELLINGS = [('X1 // X2', dict(_SEP_DEFAULT, allow_trailer=False)), ('Sep(X1, X2)', dict(_SEP_DEFAULT, allow_trailer=False)),
                 ('X1 /? X2', dict(_SEP_DEFAULT, allow_trailer=True)), ('Sep(X1, X2, allow_trailer=True)', dict(_SEP_DEFAULT, allow_trailer=True)),
                 ('Sep(X1, X2, discard_separators=False)', dict(_SEP_DEFAULT, allow_trailer=False, discard_separators=False)),
                 ('Sep(X1, X2, allow_empty=False)', dict(_SEP_DEFAULT, allow_trailer=False, allow_empty=False))]

    def flags_for(self, extra):
        return [list(fl) for fl in itertools.product(('NP', 'PS'), ('NP', 'PS'))]

    def label(self, cfg):
        return f"`{cfg['src']}`,flags={cfg['flags']}"


SPELLED = [SpelledSepC(), SpelledDiscardC(), SpelledApplyC(), SpelledWhereC(), SpelledOptC(), SpelledChoiceC(), SpelledSeqC(), SpelledListC()]
