"""Contract of ``_finalize_parse_info`` (C08 no stray exception, C10 spans, C18 frame) and of the two exception
constructors.  ``visit`` is a callee known by contract (C15): it yields every reachable parsed object once."""
import ast
import z3
from z3 import And, Or, Not, Implies, If, IntVal, BoolVal, Const, Function, Select, Store, Array, ForAll, Length

from pyvc.rtver import RtContract, Rope
from pyvc.symx import (Val, I, B, SeqV, SeqI, NONE, Tup, TextV, Opaque, OutOfSubset, LoopSpec, VC, Raised,
                       int_v, un_int, kind, K_INT, K_OBJ, K_TUPLE, truthy, tup_v)
from pyvc.fragver import md, md_owner
from .rt_errors import call_map_index, line_of, col_of, line_c, col_c, isnl

mk2, (p20, p21) = tup_v(2)
mk3, (p30, p31, p32) = tup_v(3)

raw_a = Function('raw_a', Val, I)      # raw span (a, b) stored by the class fragment (C-span): start, end positions
raw_b = Function('raw_b', Val, I)
vidx = Function('vidx', Val, I)       # index of a metadata object in the sequence visit() yields
is_conv = Function('is_position_info', Val, B)     # the value is a _PositionInfo: the object was converted by an earlier, finished parse


def position_term(ex, cx, idx):
    """_Position(index, line, column) with the line/column of that index; at an offset that HOLDS a line break the statement
    leaves line and column open: there they are whatever the index->line/column map assigns (line_c / col_c)"""
    return mk3(ex.box(idx), ex.box(line_c(cx, idx)), ex.box(col_c(cx, idx)))


class FinalizeC(RtContract):
    fn_name = '_finalize_parse_info'

    def configs(self, tier):
        yield {'bytes': False}
        yield {'bytes': True}

    def setup(self, cx, ex, st):
        e = st.env
        e['text'] = cx.text
        e['nodes'] = Const('nodes', Val)
        e['pos'] = Const('pos', I)
        e['fullparse'] = Const('fullparse', B)
        st.assume(0 <= e['pos'], e['pos'] <= cx.N)
        VS = Array('VS', I, Val)                    # what visit(nodes) yields (contract of visit, C15): VS[0..VN)
        cx.VS = VS
        cx.VN = Const('VN', I)
        st.assume(cx.VN >= 0)
        H0 = Array('H0_position_info', Val, Val)
        st.heap['position_info'] = H0
        cx.H0 = H0
        i, j = Const('i', I), Const('j', I)
        n = cx.VN
        # contract of visit (C15) and requires on the heap, for every index i < VN:
        #   VS[i] is a parsed object; "each object once": the yielded sequence is injective, i.e. it has an index function
        #   vidx(md(VS[i])) = i;  the instance carries nothing or a raw span in the unit's regime.
        # They are used only at the loop index, where `havoc` spells the instance out (no quantified hypothesis is needed).
        st.assume(Not(truthy(NONE)))

    def is_raw(self, ex, v):
        a, b = raw_a(v), raw_b(v)
        regime = self.regime(a, b)
        return And(v == mk2(int_v(a), int_v(b)), p20(v) == int_v(a), p21(v) == int_v(b), truthy(v), kind(v) == K_TUPLE, regime,
                   un_int(int_v(a)) == a, un_int(int_v(b)) == b, kind(int_v(a)) == K_INT, kind(int_v(b)) == K_INT)

    def regime(self, a, b):
        N = Const('N', I)
        return And(0 <= a, a < b, b <= N)           # the instance consumed input (property C10) inside the text (G-range)

    def converted(self, ex, cx, v):
        a, b = raw_a(v), raw_b(v)
        return mk2(position_term(ex, cx, a), position_term(ex, cx, b - 1))

    def isinstance_hook(self, cx, ex, node, a, cls, st):
        if cls == '_PositionInfo' and isinstance(a, z3.ExprRef) and a.sort() == Val:
            return is_conv(a)
        return NotImplemented

    def hooks(self, cx, ex):
        def map_index(ex, node, st):
            r = call_map_index(cx, ex, node, st)
            st.ghost['tables'] = r.items
            return r
        ex.call_hooks['_map_index_to_line_and_column'] = map_index

        def visit(ex, node, st):
            a = ex.ev(node.args[0], st)
            if not (isinstance(a, z3.ExprRef) and a.eq(cx.entry_env['nodes'])):
                raise OutOfSubset('visit of another value')
            VS = cx.VS
            return Opaque('visit', iter_len=cx.VN, iter_elem=lambda i: VS[i])
        ex.call_hooks['visit'] = visit

        def attr_md(ex, node, recv, st):
            if isinstance(recv, z3.ExprRef) and recv.sort() == Val:
                ex.safety(st, 'has-_metadata (is a parsed object)', node, kind(recv) == K_OBJ)
                return Opaque('metadata', of=recv, ref=md(recv))
            return NotImplemented
        ex.attr_hooks['_metadata'] = attr_md

        def attr_pi(ex, node, recv, st):
            if isinstance(recv, Opaque) and recv.tag == 'metadata':
                return Select(st.heap['position_info'], recv.ref)      # _Metadata.__getattr__: None when absent
            return NotImplemented
        ex.attr_hooks['position_info'] = attr_pi

        def setattr_hook(ex, tgt, recv, v, st):
            if tgt.attr == 'position_info' and isinstance(recv, Opaque) and recv.tag == 'metadata':
                st.heap['position_info'] = Store(st.heap['position_info'], recv.ref, ex.box(v))
                st.ghost.setdefault('writes', []).append(recv.ref)
                return True
            return False
        ex.setattr_hook = setattr_hook

        def unpack(ex, tgt, v, n, st):
            if isinstance(v, z3.ExprRef) and v.sort() == Val and n == 2:
                ex.safety(st, 'unpack: position_info is a pair', tgt, And(kind(v) == K_TUPLE, v == mk2(p20(v), p21(v))))
                # raw spans hold ints
                ex.safety(st, 'unpack: raw span holds ints', tgt, And(kind(p20(v)) == K_INT, kind(p21(v)) == K_INT))
                return [un_int(p20(v)), un_int(p21(v))]
            return NotImplemented
        ex.unpack_hook = unpack

        def subscript(ex, node, recv, idx, st):
            # pos_info[0] / pos_info[1]: components of the raw span
            if isinstance(recv, z3.ExprRef) and recv.sort() == Val and isinstance(idx, z3.IntNumRef) and idx.as_long() in (0, 1):
                ex.safety(st, 'subscript: position_info is a pair', node, And(kind(recv) == K_TUPLE, recv == mk2(p20(recv), p21(recv))))
                ex.safety(st, 'subscript: raw span holds ints', node, And(kind(p20(recv)) == K_INT, kind(p21(recv)) == K_INT))
                return un_int((p20, p21)[idx.as_long()](recv))
            return NotImplemented
        ex.subscript_hook = subscript

        def c_position_at(ex, node, st):
            # callee known by contract (PositionAtC)
            args = [ex.ev(a, st) for a in node.args]
            if len(args) != 3 or node.keywords:
                raise OutOfSubset('_position_at arity')
            idx = ex.as_int(args[0])
            tabs = st.ghost.get('tables')
            ex.safety(st, '_position_at-pre: called with the line and column tables of the text', node,
                      BoolVal(tabs is not None and args[1] is tabs[0] and args[2] is tabs[1]))
            return If(And(0 <= idx, idx < cx.N), position_term(ex, cx, idx), mk3(ex.box(idx), NONE, NONE))
        ex.call_hooks['_position_at'] = c_position_at

        def c_position(ex, node, st):
            args = [ex.ev(a, st) for a in node.args]
            if len(args) != 3 or node.keywords:
                raise OutOfSubset('_Position arity')
            return mk3(*[ex.box(a) for a in args])
        ex.call_hooks['_Position'] = c_position

        def c_posinfo(ex, node, st):
            kw = {k.arg: ex.ev(k.value, st) for k in node.keywords}
            args = [ex.ev(a, st) for a in node.args]
            if len(args) == 2 and not kw:
                s, e_ = args
            elif not args and set(kw) == {'start', 'end'}:
                s, e_ = kw['start'], kw['end']
            else:
                raise OutOfSubset('_PositionInfo arguments')
            return mk2(ex.box(s), ex.box(e_))
        ex.call_hooks['_PositionInfo'] = c_posinfo

        def excerpt(ex, node, st):
            pos = ex.as_int(ex.ev(node.args[1], st))
            col = ex.as_int(ex.ev(node.args[2], st))
            ex.safety(st, '_extract_excerpt-pre', node, And(0 <= pos, pos < cx.N, Implies(Not(isnl(cx, pos)), col == col_of(cx, pos))))
            return Rope([('opaque', 'excerpt', pos)])
        ex.call_hooks['_extract_excerpt'] = excerpt

        def raise_hook(ex, s, st):
            call = s.exc
            if not (isinstance(call, ast.Call) and isinstance(call.func, ast.Name)):
                raise OutOfSubset('raise of a non-call')
            return (call.func.id, [ex.ev(a, st) for a in call.args])
        ex.raise_hook = raise_hook
        # list indexing: the contract relies on the element AT the index (no wrap-around): demand 0 <= i < len
        orig = ex.do_index

        def do_index(e, recv, idx, st):
            if isinstance(recv, z3.SeqRef) and recv.sort() == SeqI:
                idx = ex.as_int(idx)
                ex.safety(st, 'index-in-range (IndexError / silent wrap-around otherwise)', e, And(0 <= idx, idx < Length(recv)))
                return recv[idx]
            return orig(e, recv, idx, st)
        ex.do_index = do_index

    def closed_form(self, ex, cx, H, upto):
        """pointwise description of the heap after the first `upto` visited instances were handled:
        H[m] = converted(H0[m]) if m is the metadata of one of them and held a RAW span, else H0[m] (nothing, or the _PositionInfo an
        earlier, finished parse left there: an object of a nested parse that inline Python put into this result)"""
        m = Const('m', Val)
        H0 = cx.H0
        k = vidx(m)
        inimg = And(0 <= k, k < cx.VN, md(cx.VS[k]) == m)
        return ForAll([m], Select(H, m) == If(And(inimg, k < upto, Select(H0, m) != NONE, Not(is_conv(Select(H0, m)))), self.converted(ex, cx, Select(H0, m)), Select(H0, m)))

    def loops(self, cx):
        def inv(ex, st):
            yield 'heap = closed form over the instances handled so far', self.closed_form(ex, cx, st.heap['position_info'], st.ghost['i'])

        def havoc(ex, st):
            st.heap['position_info'] = ex.fv('H', z3.ArraySort(Val, Val))
            # ground instances (at the loop index) of the quantified hypotheses: what the solver needs, spelled out
            i = st.ghost['i']
            VS, H0, H = cx.VS, cx.H0, st.heap['position_info']
            cur = md(VS[i])
            st.assume(Implies(i < cx.VN, And(kind(VS[i]) == K_OBJ, md_owner(cur) == VS[i], vidx(cur) == i,
                                             Or(Select(H0, cur) == NONE, And(self.is_raw(ex, Select(H0, cur)), Not(is_conv(Select(H0, cur)))),
                                                And(is_conv(Select(H0, cur)), truthy(Select(H0, cur)))))))

        return {1: LoopSpec(inv, havoc=havoc)}

    def post(self, cx, ex, st, how):
        e0 = cx.entry_env
        VS, H0, H = cx.VS, cx.H0, st.heap['position_info']
        n = cx.VN
        j = Const('j', I)
        m = Const('m', Val)
        old = lambda k: Select(H0, md(VS[k]))
        yield ('C10 every visited instance with a raw span gets (start, end) = positions of the first and last offset consumed; '
               'C18 nothing else is written'), self.closed_form(ex, cx, H, cx.VN)
        partial = And(e0['fullparse'], e0['pos'] < cx.N)
        if how == 'return':
            yield 'C08 returns the nodes unless input is left under fullparse', And(Not(partial), ex.box(st.ret) == e0['nodes'])
        elif how == 'raise':
            cls, args = st.exc
            ok = cls == 'PartialParseError' and len(args) == 3
            yield 'C08 only PartialParseError(partial_result, last_position, excerpt) is raised', BoolVal(ok)
            if ok:
                yield 'C08 raised exactly when input is left under fullparse', partial
                yield 'C08 partial_result is the value', ex.box(args[0]) == e0['nodes']
                yield 'C08/C09 last_position = (pos, line, column of pos)', ex.box(args[1]) == position_term(ex, cx, e0['pos'])
        else:
            yield 'returns or raises', BoolVal(False)


class FinalizeAnySpanC(FinalizeC):
    """same function, weaker requires: ANY raw span inside the text (zero-width instances, instances at the end of the
    input, empty input) - only the absence of exceptions is demanded (C08 "no other exception")"""
    def label(self, cfg):
        return 'any-span,' + super().label(cfg)

    def regime(self, a, b):
        N = Const('N', I)
        return And(0 <= a, a <= N, 0 <= b, b <= N)

    def loops(self, cx):
        def inv(ex, st):
            yield 'true', BoolVal(True)

        def havoc(ex, st):
            st.heap['position_info'] = ex.fv('H', z3.ArraySort(Val, Val))
            # heap contents are not tracked in this unit; every visited instance still holds None or a raw span
            i = st.ghost['i']
            st.assume(Implies(i < cx.VN, And(kind(cx.VS[i]) == K_OBJ, md_owner(md(cx.VS[i])) == cx.VS[i])))
            st.assume(Or(Select(st.heap['position_info'], md(cx.VS[i])) == NONE, self.is_raw(ex, Select(st.heap['position_info'], md(cx.VS[i])))))
        return {1: LoopSpec(inv, havoc=havoc)}

    def post(self, cx, ex, st, how):
        yield 'terminates by return or PartialParseError', BoolVal(how == 'return' or (how == 'raise' and st.exc[0] == 'PartialParseError'))


class PositionAtC(RtContract):
    """_position_at(index, L, C): _Position(index, L[index], C[index]) for an offset of the text, (index, None, None) otherwise;
    never raises"""
    fn_name = '_position_at'

    def setup(self, cx, ex, st):
        e = st.env
        e['index'] = Const('index', I)
        e['line_numbers'], e['column_numbers'] = Const('Ltab', SeqI), Const('Ctab', SeqI)
        st.assume(Length(e['line_numbers']) == cx.N, Length(e['column_numbers']) == cx.N)

    def hooks(self, cx, ex):
        def c_position(ex, node, st):
            return mk3(*[ex.box(ex.ev(a, st)) for a in node.args])
        ex.call_hooks['_Position'] = c_position
        orig = ex.do_index

        def do_index(e, recv, idx, st):
            if isinstance(recv, z3.SeqRef) and recv.sort() == SeqI:
                idx = ex.as_int(idx)
                ex.safety(st, 'index-in-range (IndexError / silent wrap-around otherwise)', e, And(0 <= idx, idx < Length(recv)))
                return recv[idx]
            return orig(e, recv, idx, st)
        ex.do_index = do_index

    def post(self, cx, ex, st, how):
        e = cx.entry_env
        idx = e['index']
        yield 'returns', BoolVal(how == 'return')
        if how == 'return':
            inr = And(0 <= idx, idx < cx.N)
            yield 'position of an offset / (index, None, None) otherwise', ex.box(st.ret) == If(
                inr, mk3(ex.box(idx), ex.box(e['line_numbers'][idx]), ex.box(e['column_numbers'][idx])), mk3(ex.box(idx), NONE, NONE))


FINAL = [FinalizeC(), FinalizeAnySpanC(), PositionAtC()]


def _bounded_spans(self, cx):
    """bounded native stand-in: real grammars, real parses; spans compared with offsets known by construction"""
    from sourcer import Grammar
    g = Grammar('class Word {\n text: /[a-z]+/\n}\n'
                'class Pair {\n peek: Expect(Word)\n a: Word\n b: /[ \\n]+/ >> Word\n ahead: Expect(/[ \\n]+/ >> Word)?\n}\n'
                'class Empty {\n x: "q"?\n}\n'
                'start = [Pair, Empty]')
    bad, tried = [], 0

    def pos_of(text, i):
        if not (0 <= i < len(text)):
            return (i, None, None)
        line = 1 + text.count('\n', 0, i) + (1 if text[i] == '\n' else 0)
        col = 0 if text[i] == '\n' else i - text.rfind('\n', 0, i)
        return (i, line, col)

    for prefix in ('', 'zz\n', '\n\nx '):
        for w1, sep, w2, tail in [('ab', ' ', 'cd', ''), ('a', '\n', 'bcd', ' ef'), ('abc', ' \n ', 'd', '\nxyz 1'), ('q', ' ', 'r', ' s t'), ('ab', ' ', 'cd', ' '), ('ab', ' ', 'cd', '\n\n')]:
            text = prefix + w1 + sep + w2 + tail
            k = len(prefix)
            for full in (False, True):
                tried += 1
                try:
                    a0, a1 = k, k + len(w1) - 1
                    b0 = k + len(w1) + len(sep)
                    b1 = b0 + len(w2) - 1
                    partial = None
                    try:
                        r = g.parse(text, pos=k, fullparse=full)
                    except g.PartialParseError as e:
                        r = e.partial_result
                        partial = e
                    # the three outcomes: input left over and fullparse -> PartialParseError exactly where the match ended; otherwise the value
                    if full and tail:
                        if partial is None:
                            bad.append({'text': text, 'pos': k, 'what': 'input left over, fullparse: no PartialParseError'})
                        elif tuple(partial.last_position) != pos_of(text, b1 + 1):
                            bad.append({'text': text, 'pos': k, 'what': 'last_position is not where the match ended', 'got': tuple(partial.last_position), 'want': pos_of(text, b1 + 1)})
                    elif partial is not None:
                        bad.append({'text': text, 'pos': k, 'fullparse': full, 'what': 'PartialParseError although nothing is left over / fullparse is off'})
                    pair = r[0]
                    want = {'pair': (pos_of(text, a0), pos_of(text, b1)), 'a': (pos_of(text, a0), pos_of(text, a1)),
                            'b': (pos_of(text, b0), pos_of(text, b1))}
                    got = {'pair': pair._metadata.position_info, 'a': pair.a._metadata.position_info, 'b': pair.b._metadata.position_info}
                    for key in want:
                        gi = got[key]
                        flat = (tuple(gi.start), tuple(gi.end)) if gi is not None and hasattr(gi, 'start') else gi
                        if flat != want[key]:
                            bad.append({'text': text, 'pos': k, 'fullparse': full, 'instance': key, 'got': repr(gi), 'want': want[key]})
                    if pair.peek is not pair.a:
                        bad.append({'text': text, 'what': 'memoised instance not reused'})
                    if pair.ahead is not None:
                        ah = pair.ahead._metadata.position_info
                        c0 = b1 + 1 + (len(tail) - len(tail.lstrip(' \n')))
                        wlen = len(tail.strip(' \n').split(' ')[0].split('\n')[0])
                        wa = (pos_of(text, c0), pos_of(text, c0 + wlen - 1))
                        flat = (tuple(ah.start), tuple(ah.end)) if ah is not None and hasattr(ah, 'start') else ah
                        if flat != wa:
                            bad.append({'text': text, 'pos': k, 'fullparse': full, 'instance': 'ahead (lookahead past the final position)', 'got': repr(ah), 'want': wa})
                except Exception as e:
                    bad.append({'text': text, 'pos': k, 'fullparse': full, 'raised': repr(e)})
    return bad, tried, '3 prefixes x 6 token layouts x fullparse in {False, True}: the three outcomes of parse (value / PartialParseError exactly where the match ended), nested / memoised / lookahead / zero-width instances, multi-line, non-zero pos'


FinalizeC.bounded = _bounded_spans
