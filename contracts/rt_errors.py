"""Contracts for the error-location run-time functions (C09, used by C08/C10):
_map_index_to_line_and_column, _get_line_and_column, _caret_at, _extract_excerpt, _raise_errorN."""
import ast
import z3
from z3 import And, Or, Not, Implies, If, IntVal, BoolVal, Const, Function, Length, Select, ForAll, Empty

from pyvc.rtver import RtContract, Rope, as_rope, native_namespace, model_text
from pyvc.symx import Val, I, B, SeqI, NONE, Tup, StrLit, TextV, Opaque, OutOfSubset, LoopSpec, VC, ArrList
from pyvc import runtime

nl = Function('nl', I, I)            # nl(i): number of line breaks in text[0:i)
lastnl = Function('lastnl', I, I)    # lastnl(i): index of the last line break in text[0:i), -1 if none


def isnl(cx, i):
    return BoolVal(False) if cx.text.is_bytes else Select(cx.text.arr, i) == 10


def defs(cx, i):
    """defining equations of nl / lastnl, instantiated at i"""
    return [nl(0) == 0, lastnl(0) == -1,
            Implies(i >= 0, And(nl(i + 1) == nl(i) + If(isnl(cx, i), 1, 0),
                                lastnl(i + 1) == If(isnl(cx, i), i, lastnl(i))))]


def line_of(cx, i):
    return 1 + nl(i + 1)          # for an index that is not a line break: 1 + number of line breaks before it


def col_of(cx, i):
    return If(isnl(cx, i), 0, i - lastnl(i))   # 1 + offset from the start of its line


any_line = Function('line_on_a_line_break', I, I)      # the statement leaves line/column of an index that HOLDS a line break open
any_col = Function('column_on_a_line_break', I, I)


def line_c(cx, i):
    """what a caller may rely on: the line of i unless i holds a line break (then: some integer)"""
    return line_of(cx, i) if cx.text.is_bytes else If(isnl(cx, i), any_line(i), line_of(cx, i))


def col_c(cx, i):
    return col_of(cx, i) if cx.text.is_bytes else If(isnl(cx, i), any_col(i), i - lastnl(i))


nlb = Function('lf_bytes', I, I)            # bytes input: number of 0x0A bytes in text[0:i)  (NOT line breaks: bytes input is one line)
lastnlb = Function('last_lf_byte', I, I)


def defs_b(cx, i):
    is10 = Select(cx.text.arr, i) == 10
    return [nlb(0) == 0, lastnlb(0) == -1, nlb(i) >= 0, lastnlb(i) >= -1, lastnlb(i) < If(i > 0, i, 0),
            Implies(i >= 0, And(nlb(i + 1) == nlb(i) + If(is10, 1, 0), lastnlb(i + 1) == If(is10, i, lastnlb(i))))]


def install_text_scans(cx, ex):
    """text.count(LF, a, b) / text.rfind(LF, a, b) / text.find... on the input text, by the spec functions nl / lastnl
    (python clamps the bounds; negative bounds count from the end)"""
    def clamp(x):
        return If(x < 0, If(x + cx.N < 0, 0, x + cx.N), If(x > cx.N, cx.N, x))

    def args_of(node, st, recv):
        if not (isinstance(recv, TextV) and recv is cx.text) or node.keywords or not (1 <= len(node.args) <= 3):
            return None
        sub = ex.ev(node.args[0], st)
        if not isinstance(sub, StrLit):
            return None
        if isinstance(sub.value, bytes) != cx.text.is_bytes:
            raise OutOfSubset('scan of the text for a value of the other text type (TypeError)')
        if sub.value not in ('\n', b'\n'):
            raise OutOfSubset(f'scan of the text for {sub.value!r}')
        a = clamp(ex.as_int(ex.ev(node.args[1], st))) if len(node.args) > 1 else IntVal(0)
        b = clamp(ex.as_int(ex.ev(node.args[2], st))) if len(node.args) > 2 else cx.N
        cnt, lst, d = (nlb, lastnlb, defs_b) if cx.text.is_bytes else (nl, lastnl, defs)
        st.assume(*d(cx, a), *d(cx, b), *d(cx, b - 1))
        if not cx.text.is_bytes:
            st.assume(nl(a) >= 0, nl(b) >= 0, lastnl(b) >= -1, lastnl(b) < If(b > 0, b, 0))
        return a, b, cnt, lst

    def m_count(ex, node, recv, st):
        r = args_of(node, st, recv)
        if r is None:
            return NotImplemented
        a, b, cnt, lst = r
        return If(a <= b, cnt(b) - cnt(a), 0)
    ex.method_hooks['count'] = m_count

    def m_rfind(ex, node, recv, st):
        r = args_of(node, st, recv)
        if r is None:
            return NotImplemented
        a, b, cnt, lst = r
        return If(And(a <= b, lst(b) >= a), lst(b), -1)
    ex.method_hooks['rfind'] = m_rfind


def lastnl_props(cx, i):
    k = Const('k', I)
    return And(-1 <= lastnl(i), lastnl(i) < i, Implies(lastnl(i) >= 0, isnl(cx, lastnl(i))),
               ForAll([k], Implies(And(lastnl(i) < k, k < i), Not(isnl(cx, k)))))


class MapIndexC(RtContract):
    fn_name = '_map_index_to_line_and_column'

    def configs(self, tier):
        yield {'bytes': False}
        yield {'bytes': True}

    def setup(self, cx, ex, st):
        st.env['text'] = cx.text

    def hooks(self, cx, ex):
        # the two result lists hold ints only: typed as Seq(Int) right after their initialisation to []
        def after(ex, s, st):
            if isinstance(s, ast.Assign) and isinstance(s.value, ast.List) and not s.value.elts and isinstance(s.targets[0], ast.Name):
                # held positionally (array Int -> Int + length): index-quantified invariants are stable on arrays
                st.env[s.targets[0].id] = ArrList([z3.Array(f'{s.targets[0].id}_0', I, I)], IntVal(0))
        ex.after_stmt = after

    def roles(self, cx):
        ret = [n for n in ast.walk(cx.tree) if isinstance(n, ast.Return)][0].value
        return ret.elts[0].id, ret.elts[1].id

    def loops(self, cx):
        Ln, Cn = self.roles(cx)
        j = Const('j', I)
        # counters: the int variables initialised before the loop (line counter starts at 1, column counter at 0)
        inits = {}
        for s in cx.tree.body:
            if isinstance(s, ast.Assign) and isinstance(s.value, ast.Constant) and isinstance(s.value.value, int):
                inits[s.targets[0].id] = s.value.value
        line_v = [k for k, v in inits.items() if v == 1]
        col_v = [k for k, v in inits.items() if v == 0]
        if len(line_v) != 1 or len(col_v) != 1:
            from pyvc.fragver import RoleError
            raise RoleError(f'line/column counters: {inits}')
        lv, cv = line_v[0], col_v[0]

        def inv(ex, st):
            i = st.ghost['i']
            L, C = st.env[Ln], st.env[Cn]
            yield 'lengths', And(L.n == i, C.n == i)
            yield 'line-counter', st.env[lv] == 1 + nl(i)
            yield 'column-counter', st.env[cv] == i - 1 - lastnl(i)
            yield 'lines', ForAll([j], Implies(And(0 <= j, j < i, Not(isnl(cx, j))), Select(L.arrs[0], j) == line_of(cx, j)))
            yield 'columns', ForAll([j], Implies(And(0 <= j, j < i, Not(isnl(cx, j))), Select(C.arrs[0], j) == col_of(cx, j)))
            yield 'lastnl-bound', lastnl(i) < i

        def havoc(ex, st):
            st.assume(*defs(cx, st.ghost['i']))

        def enter(ex, st):
            st.assume(*defs(cx, IntVal(0)))

        return {1: LoopSpec(inv, enter=enter, havoc=havoc)}

    def post(self, cx, ex, st, how):
        if how != 'return' or not isinstance(st.ret, Tup) or len(st.ret.items) != 2:
            yield 'returns-pair', BoolVal(False)
            return
        L, C = st.ret.items
        j = Const('j', I)
        if not (isinstance(L, ArrList) and isinstance(C, ArrList)):
            yield 'returns the two lists it built', BoolVal(False)
            return
        yield 'lengths', And(L.n == cx.N, C.n == cx.N)
        yield 'line = 1 + line breaks before (unless the index holds a line break)', ForAll([j], Implies(And(0 <= j, j < cx.N, Not(isnl(cx, j))), Select(L.arrs[0], j) == line_of(cx, j)))
        yield 'column = 1 + offset in line (unless the index holds a line break)', ForAll([j], Implies(And(0 <= j, j < cx.N, Not(isnl(cx, j))), Select(C.arrs[0], j) == col_of(cx, j)))

    def replay(self, cx, ex, m):
        text, N = model_text(cx, m)
        if text is None:
            return {'reproduced': None, 'reason': f'N={N} too large'}
        f = native_namespace()['_map_index_to_line_and_column']
        L, C = f(text)
        bad = []
        for i in range(N):
            isn = (not cx.text.is_bytes) and text[i] == '\n'
            before = 0 if cx.text.is_bytes else text[:i].count('\n')
            last = -1 if cx.text.is_bytes else text.rfind('\n', 0, i)
            if not isn and (L[i] != 1 + before or C[i] != i - last):
                bad.append((i, L[i], C[i], 1 + before, i - last))
        if len(L) != N or len(C) != N:
            bad.append(('len', len(L), len(C), N))
        return {'reproduced': bool(bad), 'text': repr(text), 'violated': bad[:5]}


def small_texts(is_bytes, maxlen=4):
    import itertools
    alpha = [b'a', b' ', b'\n', b'\t'] if is_bytes else ['a', ' ', '\n', '\r', '\t']
    out = [b'' if is_bytes else '']
    for n in range(1, maxlen + 1):
        for t in itertools.product(alpha, repeat=n):
            out.append((b'' if is_bytes else '').join(t))
    return out


def _bounded_map_index(self, cx):
    f = native_namespace()['_map_index_to_line_and_column']
    bad, tried = [], 0
    for text in small_texts(cx.text.is_bytes, 5):
        tried += 1
        try:
            L, C = f(text)
        except Exception as e:
            bad.append({'text': repr(text), 'raised': repr(e)})
            continue
        if len(L) != len(text) or len(C) != len(text):
            bad.append({'text': repr(text), 'lengths': (len(L), len(C))})
            continue
        for i in range(len(text)):
            isn = (not cx.text.is_bytes) and text[i] == '\n'
            before = 0 if cx.text.is_bytes else text[:i].count('\n')
            last = -1 if cx.text.is_bytes else text.rfind('\n', 0, i)
            if not isn and (L[i] != 1 + before or C[i] != i - last):
                bad.append({'text': repr(text), 'index': i, 'got': (L[i], C[i]), 'want': (1 + before, i - last)})
    return bad, tried, 'all texts over {a, space, LF, CR, TAB} up to length 5'


MapIndexC.bounded = _bounded_map_index


def lemma_vcs(cx):
    """lemma lastnl-props by induction on i (base, step) - used as a hypothesis by the excerpt contract"""
    i = Const('i_lem', I)
    base = VC('lemma:lastnl-props:base', [lastnl(0) == -1], lastnl_props(cx, IntVal(0)), 'lemma')
    step = VC('lemma:lastnl-props:step', [i >= 0, lastnl_props(cx, i)] + defs(cx, i), lastnl_props(cx, i + 1), 'lemma')
    return [base, step]


class GetLineColC(RtContract):
    fn_name = '_get_line_and_column'

    def configs(self, tier):
        yield {'bytes': False}
        yield {'bytes': True}

    def setup(self, cx, ex, st):
        st.env['text'] = cx.text
        st.env['pos'] = Const('pos', I)
        st.assume(0 <= st.env['pos'], st.env['pos'] < cx.N)    # requires: an index of the text

    def hooks(self, cx, ex):
        ex.call_hooks['_map_index_to_line_and_column'] = lambda ex, node, st: call_map_index(cx, ex, node, st)
        install_text_scans(cx, ex)

    def post(self, cx, ex, st, how):
        pos = cx.entry_env['pos']
        ok = how == 'return' and isinstance(st.ret, Tup) and len(st.ret.items) == 2
        yield 'returns-pair', BoolVal(ok)
        if ok:
            notnl = Not(isnl(cx, pos))
            yield 'line (unless the index holds a line break)', Implies(notnl, ex.as_int(st.ret.items[0]) == line_of(cx, pos))
            yield 'column (unless the index holds a line break)', Implies(notnl, ex.as_int(st.ret.items[1]) == col_of(cx, pos))

    def bounded(self, cx):
        f = native_namespace()['_get_line_and_column']
        bad, tried = [], 0
        for text in small_texts(cx.text.is_bytes, 5):
            for pos in range(len(text)):
                if not cx.text.is_bytes and text[pos] == '\n':
                    continue
                tried += 1
                want = (1, pos + 1) if cx.text.is_bytes else (1 + text.count('\n', 0, pos), pos - text.rfind('\n', 0, pos))
                try:
                    got = f(text, pos)
                except Exception as e:
                    bad.append({'text': repr(text), 'pos': pos, 'raised': repr(e)})
                    continue
                if tuple(got) != want:
                    bad.append({'text': repr(text), 'pos': pos, 'got': repr(got), 'want': want})
        return bad[:8], tried, 'all texts over {a, space, LF, CR, TAB} up to length 5 x every index that holds no line break'

    def replay(self, cx, ex, m):
        text, N = model_text(cx, m)
        if text is None:
            return {'reproduced': None, 'reason': f'N={N} too large'}
        pos = m.eval(cx.entry_env['pos'], model_completion=True).as_long()
        if not (0 <= pos < len(text)) or (not cx.text.is_bytes and text[pos] == '\n'):
            return {'reproduced': False, 'reason': 'model outside the precondition'}
        got = native_namespace()['_get_line_and_column'](text, pos)
        want = (1, pos + 1) if cx.text.is_bytes else (1 + text.count('\n', 0, pos), pos - text.rfind('\n', 0, pos))
        return {'reproduced': tuple(got) != want, 'text': repr(text), 'pos': pos, 'got': repr(got), 'want': want}


class Table(Opaque):
    """a list known by contract to hold f(i) at every index 0 <= i < n (no quantifier needed: lookups are answered by f)"""
    def __init__(self, name, n, f):
        Opaque.__init__(self, 'table', name=name, n=n, f=f)


def call_map_index(cx, ex, node, st):
    """callee known by contract (MapIndexC): the two tables hold line_of(i) / col_of(i) for every index of the text"""
    t = ex.ev(node.args[0], st)
    if t is not cx.text:
        raise OutOfSubset('_map_index_to_line_and_column on another value')
    install_table_lookup(ex)
    return Tup([Table('line_numbers', cx.N, lambda i: line_c(cx, i)), Table('column_numbers', cx.N, lambda i: col_c(cx, i))])


def install_table_lookup(ex):
    if getattr(ex, '_tables_installed', False):
        return
    ex._tables_installed = True
    orig = ex.do_index

    def do_index(e, recv, idx, st):
        if isinstance(recv, Table):
            idx = ex.as_int(idx)
            # the contract relies on the element AT the index (no wrap-around): demand 0 <= i < len
            ex.safety(st, 'index-in-range (IndexError / silent wrap-around otherwise)', e, And(0 <= idx, idx < recv.n))
            return recv.f(idx)
        return orig(e, recv, idx, st)
    ex.do_index = do_index
    prev_len = getattr(ex, 'len_hook', None)

    def len_hook(ex_, e, v, st):
        if isinstance(v, Table):
            return v.n
        return prev_len(ex_, e, v, st) if prev_len else NotImplemented
    ex.len_hook = len_hook


class CaretC(RtContract):
    fn_name = '_caret_at'

    def setup(self, cx, ex, st):
        st.env['index'] = Const('index', I)

    def post(self, cx, ex, st, how):
        r = as_rope(st.ret) if how == 'return' else None
        ok = r is not None and len(r.pieces) == 3 and r.pieces[0] == ('lit', '\n') and r.pieces[2] == ('lit', '^') and r.pieces[1][0] == 'spaces'
        yield 'shape: newline, spaces, caret', BoolVal(ok)
        if ok:
            yield 'spaces == index', r.pieces[1][1] == cx.entry_env['index']


def _bounded_caret(self, cx):
    f = native_namespace()['_caret_at']
    bad = [{'index': i, 'got': repr(f(i))[:60]} for i in list(range(0, 130)) + [200, 400, 1000] if f(i) != '\n' + ' ' * i + '^']
    return bad[:5], 133, 'index 0..129, 200, 400, 1000: newline, index blanks, caret'


CaretC.bounded = _bounded_caret


class ExcerptC(RtContract):
    """_extract_excerpt(text, pos, col): requires 0 <= pos < len(text), col = column of pos.
    str: result = <one line> \\n <k spaces> ^ ; every text slice shown lies inside pos's line (window) and the character
    text[pos] stands at offset k of the first line (caret).  bytes: repr of a window of at most 3 bytes around pos, no caret."""
    fn_name = '_extract_excerpt'

    def configs(self, tier):
        yield {'bytes': False}
        yield {'bytes': True}

    def setup(self, cx, ex, st):
        cx.rope_slices = True
        pos = Const('pos', I)
        st.env['text'], st.env['pos'] = cx.text, pos
        st.env['col'] = Const('col', I)
        st.assume(0 <= pos, pos < cx.N, Not(isnl(cx, pos)), st.env['col'] == col_of(cx, pos))   # requires: pos holds no line break (the statement's quantifier)
        st.assume(lastnl_props(cx, pos))         # lemma (proved by induction: lemma:lastnl-props)

    def hooks(self, cx, ex):
        def compile_re(ex, node, st):
            pat = ex.ev(node.args[0], st)
            if not (isinstance(pat, StrLit) and pat.value in ('\n', b'\n')):
                raise OutOfSubset('search pattern other than the line break')
            return Opaque('re-nl', is_bytes=isinstance(pat.value, bytes))
        ex.call_hooks['_compile_re'] = compile_re

        def m_search(ex, node, recv, st):
            if not (isinstance(recv, Opaque) and recv.tag == 're-nl'):
                return NotImplemented
            t = ex.ev(node.args[0], st)
            # re: a str pattern cannot be used on bytes (TypeError) and vice versa
            ex.safety(st, 'search: pattern and text are of the same kind (str / bytes), else re raises TypeError', node,
                      BoolVal(isinstance(t, TextV) and t.is_bytes == getattr(recv, 'is_bytes', False)))
            frm = ex.as_int(ex.ev(node.args[1], st))
            ex.safety(st, 'search-from-nonneg', node, frm >= 0)
            found, ms = ex.fv('found', B), ex.fv('ms', I)
            k = Const('k', I)
            st.assume(Implies(found, And(frm <= ms, ms < cx.N, isnl(cx, ms), ForAll([k], Implies(And(frm <= k, k < ms), Not(isnl(cx, k)))))),
                      Implies(Not(found), ForAll([k], Implies(And(frm <= k, k < cx.N), Not(isnl(cx, k))))))
            st.ghost['le'] = If(found, ms, cx.N)
            st.ghost['search_from'] = frm
            return Opaque('nlmatch', is_none=Not(found), found=found, ms=ms)
        ex.method_hooks['search'] = m_search

        def m_start(ex, node, recv, st):
            if isinstance(recv, Opaque) and recv.tag == 'nlmatch':
                ex.safety(st, 'match-not-none', node, recv.found)
                return recv.ms
            return NotImplemented
        ex.method_hooks['start'] = m_start

        def caret(ex, node, st):
            idx = ex.as_int(ex.ev(node.args[0], st))
            return Rope([('lit', '\n'), ('spaces', idx), ('lit', '^')])      # CaretC
        ex.call_hooks['_caret_at'] = caret

    def post(self, cx, ex, st, how):
        pos = cx.entry_env['pos']
        r = as_rope(st.ret) if how == 'return' else None
        yield 'returns-text', BoolVal(r is not None)
        if r is None:
            return
        if cx.text.is_bytes:
            ok = len(r.pieces) == 1 and r.pieces[0][0] == 'opaque' and r.pieces[0][1] == 'repr' \
                and len(r.pieces[0][2].pieces) == 1 and r.pieces[0][2].pieces[0][0] == 'slice'
            yield 'bytes: repr of one window, no caret', BoolVal(ok)
            if ok:
                _, a, b = r.pieces[0][2].pieces[0]
                yield 'bytes: window holds pos and at most 3 bytes', And(a <= pos, pos < b, b - a <= 3)
            return
        ps = r.pieces
        shape = len(ps) >= 3 and ps[-3] == ('lit', '\n') and ps[-2][0] == 'spaces' and ps[-1] == ('lit', '^')
        yield 'shape: line, newline, spaces, caret', BoolVal(shape)
        if not shape:
            return
        line, k = ps[:-3], ps[-2][1]
        notnl = Not(isnl(cx, pos))
        ls = lastnl(pos) + 1
        le = st.ghost.get('le')
        yield 'excerpt-is-one-line (literal pieces hold no line break)', BoolVal(all(p[0] != 'lit' or '\n' not in p[1] for p in line) and all(p[0] in ('lit', 'slice') for p in line))
        if le is None:
            yield 'line end was determined', BoolVal(False)
            return
        yield 'search starts right after pos', st.ghost['search_from'] == pos + 1
        acc = IntVal(0)
        holds = []
        for p in line:
            if p[0] == 'lit':
                acc = acc + len(p[1])
            elif p[0] == 'slice':
                _, a, b = p
                yield f'window: slice inside the line of pos', Implies(notnl, And(ls <= a, b <= le))
                holds.append(And(a <= pos, pos < b, acc + (pos - a) == k))
                acc = acc + (b - a)
        yield 'caret: text[pos] stands at the caret offset', Implies(notnl, Or(*holds) if holds else BoolVal(False))

    def replay(self, cx, ex, m):
        text, N = model_text(cx, m)
        if text is None:
            return {'reproduced': None, 'reason': f'N={N} too large'}
        pos = m.eval(cx.entry_env['pos'], model_completion=True).as_long()
        return native_excerpt_check(text, pos, cx.text.is_bytes)


def native_excerpt_check(text, pos, is_bytes):
    ns = native_namespace()
    L, C = ns['_map_index_to_line_and_column'](text)
    col = C[pos]
    try:
        out = ns['_extract_excerpt'](text, pos, col)
    except Exception as e:
        return {'reproduced': True, 'text': repr(text), 'pos': pos, 'violated': [f'raised {type(e).__name__}: {e}']}
    bad = []
    if is_bytes:
        if '^' in out and not out.startswith("b'"):
            bad.append('caret in bytes mode')
    elif text[pos] != '\n':
        lines = out.split('\n')
        if len(lines) != 2:
            bad.append(f'excerpt spills over a line break: {out!r}')
        else:
            k = len(lines[1]) - 1
            if lines[1] != ' ' * k + '^' or k >= len(lines[0]) or lines[0][k] != text[pos]:
                bad.append(f'caret not under text[pos]: {out!r}')
            else:
                # the shown neighbourhood is the real neighbourhood of pos
                core = lines[0][4:] if lines[0].startswith('... ') else lines[0]
                core = core[:-4] if core.endswith(' ...') else core
                if core not in text:
                    bad.append('excerpt is not a slice of the text')
    return {'reproduced': bool(bad), 'text': repr(text), 'pos': pos, 'excerpt': out, 'violated': bad}


class RaiseErrorC(RtContract):
    """_raise_errorN(text, pos) as emitted by translator.maybe_compile_error_message: never returns; raises ParseError with
    position (pos, None, None) iff pos >= len(text), else (pos, line(pos), col(pos)) and a message that carries the excerpt"""
    fn_name = '_raise_errorN'

    def configs(self, tier):
        yield {'bytes': False}
        yield {'bytes': True}

    def function(self, cx):
        src = runtime.generated_module_source('start = "a" | Fail("boo")')
        tree = ast.parse(src)
        fns = [n for n in tree.body if isinstance(n, ast.FunctionDef) and n.name.startswith('_raise_error')]
        if not fns:
            raise OutOfSubset('no _raise_error function emitted')
        # all emitted error functions must have the same shape: verify the first, compare the others modulo message text
        cx.others = fns[1:]
        return fns[0]

    def setup(self, cx, ex, st):
        pos = Const('pos', I)
        st.env['_text'], st.env['_pos'] = cx.text, pos
        st.assume(pos >= 0)

    def hooks(self, cx, ex):
        def get_lc(ex, node, st):
            pos = ex.as_int(ex.ev(node.args[1], st))
            ex.safety(st, '_get_line_and_column-pre: index of the text', node, And(0 <= pos, pos < cx.N))
            return Tup([line_c(cx, pos), col_c(cx, pos)])
        ex.call_hooks['_get_line_and_column'] = get_lc

        def excerpt(ex, node, st):
            pos = ex.as_int(ex.ev(node.args[1], st))
            col = ex.as_int(ex.ev(node.args[2], st))
            ex.safety(st, '_extract_excerpt-pre', node, And(0 <= pos, pos < cx.N, Implies(Not(isnl(cx, pos)), col == col_of(cx, pos))))
            st.ghost['excerpt_for'] = pos
            return Rope([('opaque', 'excerpt', pos)])
        ex.call_hooks['_extract_excerpt'] = excerpt

        def fstring(ex, e, st):
            parts = []
            for v in e.values:
                if isinstance(v, ast.Constant):
                    parts.append(('lit', v.value))
                else:
                    x = ex.ev(v.value, st)
                    r = as_rope(x)
                    parts.extend(r.pieces if r is not None else [('opaque', 'fmt', x)])
            return Rope(parts)
        ex.fstring_hook = fstring

        def raise_hook(ex, s, st):
            call = s.exc
            if not (isinstance(call, ast.Call) and isinstance(call.func, ast.Name)):
                raise OutOfSubset('raise of a non-call')
            args = [ex.ev(a, st) for a in call.args]
            return (call.func.id, args)
        ex.raise_hook = raise_hook

    def post(self, cx, ex, st, how):
        pos = cx.entry_env['_pos']
        yield 'never returns normally', BoolVal(how == 'raise')
        if how != 'raise':
            return
        cls, args = st.exc
        yield 'raises ParseError(message, index, line, column)', BoolVal(cls == 'ParseError' and len(args) == 4)
        if not (cls == 'ParseError' and len(args) == 4):
            return
        msg, idx, line, col = args
        yield 'index is the failure position', idx == pos
        at_end = pos >= cx.N
        line_v, col_v = ex.box(line), ex.box(col)
        yield 'line/column None exactly at end of input', And(Implies(at_end, And(line_v == NONE, col_v == NONE)),
                                                             Implies(And(Not(at_end), Not(isnl(cx, pos))), And(line_v == ex.box(line_of(cx, pos)), col_v == ex.box(col_of(cx, pos)))))
        r = as_rope(msg)
        has_exc = r is not None and any(p[0] == 'opaque' and p[1] == 'excerpt' for p in r.pieces)
        yield 'message carries the excerpt unless at end of input', Or(at_end, BoolVal(has_exc))
        if has_exc:
            # the caret of the excerpt stands under text[index] only if the excerpt starts at the beginning of a line of the
            # message and its caret line is not continued: the neighbours of the excerpt are line breaks
            k = [i for i, p in enumerate(r.pieces) if p[0] == 'opaque' and p[1] == 'excerpt'][0]
            before = r.pieces[k - 1] if k > 0 else None
            after = r.pieces[k + 1] if k + 1 < len(r.pieces) else None
            yield 'excerpt starts on a fresh line of the message', BoolVal(before is not None and before[0] == 'lit' and before[1].endswith('\n'))
            yield 'nothing follows the caret on its line', BoolVal(after is None or (after[0] == 'lit' and after[1].startswith('\n')))
            yield 'the excerpt shown is the one of the failure position', st.ghost.get('excerpt_for') == pos if st.ghost.get('excerpt_for') is not None else BoolVal(False)
def _bounded_excerpt(self, cx):
    bad, tried = [], 0
    import itertools
    for linelen in list(range(0, 12)) + list(range(88, 140)) + [200, 400]:
        for tail, tabs in (('', False), ('\nnext', False), ('\nnext', True)):
            # with tabs: a TAB at the start and every 7th character of the line (the caret must still stand under text[pos])
            text = ('ab\n' + ''.join('\t' if tabs and i % 7 == 0 else chr(48 + (i % 70)) for i in range(linelen)) + tail)
            if cx.text.is_bytes:
                text = text.encode()
            for pos in range(len(text)):
                tried += 1
                r = native_excerpt_check(text, pos, cx.text.is_bytes)
                if r['reproduced']:
                    bad.append({'text': r['text'][:60] + '...', 'len': len(text), 'pos': pos, 'violated': r['violated']})
                    if len(bad) > 5:
                        return bad, tried, 'lines of length 0..11, 88..139, 200, 400 x every offset'
    return bad, tried, 'lines of length 0..11, 88..139, 200, 400 (plain / followed by another line / with TABs) x every offset'


ExcerptC.bounded = _bounded_excerpt


def _bounded_raise_error(self, cx):
    """the error functions of a freshly generated module, called natively on all small texts and positions"""
    from sourcer import Grammar
    g = Grammar('start = "a" | Fail("boo")')
    fns = [v for k, v in vars(g).items() if k.startswith('_raise_error') and callable(v)]
    mapf = g._map_index_to_line_and_column
    bad, tried = [], 0
    for text in small_texts(cx.text.is_bytes, 4):
        L, C = mapf(text)
        for pos in range(len(text) + 2):
            for f in fns[:1]:
                tried += 1
                try:
                    f(text, pos)
                    bad.append({'text': repr(text), 'pos': pos, 'what': 'returned normally'})
                except g.ParseError as e:
                    p = e.position
                    want = (pos, None, None) if pos >= len(text) else (pos, L[pos], C[pos])
                    on_break = pos < len(text) and not cx.text.is_bytes and text[pos] == '\n'
                    if tuple(p) != want and not (on_break and p.index == pos):
                        bad.append({'text': repr(text), 'pos': pos, 'position': tuple(p), 'want': want})
                    elif pos < len(text) and not on_break and not cx.text.is_bytes:
                        # message: "...:\n<excerpt line>\n<k spaces>^\n<details>": the caret stands under text[pos]
                        ls = str(e).split('\n')
                        ci = [i for i, l in enumerate(ls) if l.strip(' ') == '^']
                        if not ci or ci[0] == 0:
                            bad.append({'text': repr(text), 'pos': pos, 'message': str(e)[:200], 'what': 'no caret line'})
                        else:
                            kk = len(ls[ci[0]]) - 1
                            shown = ls[ci[0] - 1]
                            if kk >= len(shown) or shown[kk] != text[pos]:
                                bad.append({'text': repr(text), 'pos': pos, 'message': str(e)[:200], 'what': 'caret not under text[pos]'})
                except Exception as e:
                    bad.append({'text': repr(text), 'pos': pos, 'raised': repr(e)})
    return bad, tried, 'all texts over {a, space, LF, CR, TAB} up to length 4 x every position 0..len+1'


RaiseErrorC.bounded = _bounded_raise_error


RT = [MapIndexC(), GetLineColC(), CaretC(), ExcerptC(), RaiseErrorC()]
