"""Contracts for bounded repetition and separated lists (C03)."""
import ast
import itertools
import z3
from z3 import And, Or, Not, Implies, If, IntVal, BoolVal, Const, Function, Length, Empty, Unit, Concat

from pyvc.frag import ex as X
from pyvc.fragver import FragContract, Outcome, LoopSpec, RHO0, reach, is_empty_list, is_name
from pyvc.symx import Val, I, B, SeqV, NONE
from .core import ListC, mk_children


class BoundedListC(ListC):
    """e{m,n} with literal, numeric-string and NAME bounds (a name bound is a free integer of the VC:
    a value parsed earlier can be anything, including 0 and max < min)"""
    cls_name = 'List'
    BOUNDS = [
        (0, None), (2, None), (3, None), ('0', None), ('1', None), ('2', None),
        (None, 0), (None, 1), (None, 3), (None, '0'), (None, '1'), (None, '4'),
        (0, 0), (1, 1), (2, 2), (1, 3), (2, 5), ('2', '5'), (0, 3), ('0', '3'),
        ('n', 'n'), (None, 'n'), ('m', None), ('m', 'n'), (2, 'n'), ('m', 3), (1, 'n'), (0, 'n'),
    ]

    def configs(self, tier):
        for mn, mx in self.BOUNDS:
            for f in ('AS', 'NP', 'PS'):
                if f == 'AS' and mx is None:
                    continue
                us = {b: 'int' for b in (mn, mx) if isinstance(b, str) and not b.lstrip('-').isdigit()}
                cfg = {'min': mn, 'max': mx, 'flags': [f], 'ctx': False, 'user_sorts': us}
                if us and mn not in (None, 0, '0') and mx is not None and mn != mx:
                    # known finding (known_findings.json): a run-time max below the min is not turned into a failure;
                    # everything is proved under max >= min, the complement is a separate unit
                    yield dict(cfg, regime='max>=min')
                    yield dict(cfg, regime='max<min')
                else:
                    yield cfg


# spec functions of Sep (recursive; unfolded at the ghost count on demand)
E = Function('sepE', I, I)        # E(j): position where element j is attempted
S = Function('sepS', I, I)        # S(j): position where the separator after element j is attempted
IL = Function('sepIL', I, SeqV)   # IL(c): staging after c complete (element, separator) rounds
ALLOK = Function('sepALLOK', I, B)

OPTIONS = [dict(discard_separators=d, allow_trailer=t, allow_empty=e, require_separator=r)
           for d in (True, False) for t in (True, False) for e in (True, False) for r in (True, False)]


class SepC(FragContract):
    """Sep(e, s; discard_separators, allow_trailer, allow_empty, require_separator)"""
    cls_name = 'Sep'

    def configs(self, tier):
        for o in OPTIONS:
            if o['require_separator'] and not o['allow_trailer']:
                continue         # rejected by the constructor (checked as a ground obligation in C03)
            for fl in itertools.product(('NP', 'PS'), ('AS', 'NP', 'PS')):
                # an element that always succeeds makes the list non well-formed (never ends)
                for ctx in ((False, True) if o == OPTIONS[0] else (False,)):
                    yield dict(o, flags=list(fl), ctx=ctx)

    def build(self, cfg):
        nodes, kids = mk_children(cfg['flags'])
        o = {k: cfg[k] for k in ('discard_separators', 'allow_trailer', 'allow_empty', 'require_separator')}
        return X.Sep(nodes[0], nodes[1], **o), kids

    def label(self, cfg):
        o = ''.join('DdTtEeRr'[2 * i + (0 if cfg[k] else 1)] for i, k in enumerate(('discard_separators', 'allow_trailer', 'allow_empty', 'require_separator')))
        return f"opts={o},flags={cfg['flags']},ctx={cfg['ctx']}"

    # --- spec function unfoldings (definitions, instantiated at c)
    def unfold(self, cx, c):
        e, s = cx.kids[1], cx.kids[2]
        keep = not cx.cfg['discard_separators']
        v1 = e.val(E(c), RHO0)
        v2 = s.val(S(c), RHO0)
        nxt = Concat(IL(c), Unit(v1), Unit(v2)) if keep else Concat(IL(c), Unit(v1))
        return [Implies(c >= 0, And(S(c) == e.end(E(c), RHO0), E(c + 1) == s.end(S(c), RHO0), IL(c + 1) == nxt,
                                    ALLOK(c + 1) == And(ALLOK(c), e.ok(E(c), RHO0), s.ok(S(c), RHO0))))]

    def setup(self, cx, ex, st):
        st.assume(E(0) == cx.p0, IL(0) == Empty(SeqV), ALLOK(0))

    def roles(self, cx):
        staging = cx.one(cx.names_initialised(is_empty_list), 'staging')
        cps = cx.names_initialised(lambda v: is_name(v, '_pos'))
        checkpoint = cx.one(cps, 'checkpoint')
        saw = cx.names_initialised(lambda v: isinstance(v, ast.Constant) and v.value is False)
        return staging, checkpoint, (saw[0] if saw else None)

    def loops(self, cx):
        staging, checkpoint, saw = self.roles(cx)
        cfg = cx.cfg
        trailer = cfg['allow_trailer']

        def inv(ex, st):
            c = st.ghost['c']
            pos = st.env['_pos']
            yield 'count', c >= 0
            yield 'pos', pos == E(c)
            yield 'range', And(0 <= pos, pos <= cx.N, reach(pos))
            yield 'allok', ALLOK(c)
            yield 'staging', st.env[staging] == IL(c)
            cp = st.env[checkpoint]
            yield 'checkpoint', cp == If(c == 0, cx.p0, E(c) if trailer else S(c - 1))
            yield 'checkpoint-range', And(0 <= cp, cp <= cx.N, reach(cp))
            if saw is not None:
                yield 'saw', st.env[saw] == (c > 0)

        def enter(ex, st):
            st.ghost['c'] = IntVal(0)

        def havoc(ex, st):
            c = ex.fv('c', I)
            st.ghost['c'] = c
            st.assume(*self.unfold(cx, c))
            st.assume(*[Implies(c > 0, f) for f in self.unfold(cx, c - 1)])

        def step(ex, st):
            st.ghost['c'] = st.ghost['c'] + 1     # one more complete (element, separator) round

        return {1: LoopSpec(inv, enter=enter, havoc=havoc, step=step)}

    def spec(self, cx, ex, st):
        cfg = cx.cfg
        e, s = cx.kids[1], cx.kids[2]
        keep, trailer, empty, req = (not cfg['discard_separators'], cfg['allow_trailer'], cfg['allow_empty'], cfg['require_separator'])
        c = st.ghost['c']
        el_fail = Not(e.ok(E(c), RHO0))                       # (a) element c could not be parsed
        sep_fail = And(e.ok(E(c), RHO0), Not(s.ok(S(c), RHO0)))  # (b) element c parsed, no separator after it
        nel = If(el_fail, c, c + 1)
        v1 = e.val(E(c), RHO0)
        if keep:
            a_val = IL(c) if trailer else If(c > 0, Concat(IL(c - 1), Unit(e.val(E(c - 1), RHO0))), Empty(SeqV))
            b_val = Concat(IL(c), Unit(v1))
        else:
            a_val = IL(c)
            b_val = Concat(IL(c), Unit(v1))
        val = If(el_fail, a_val, b_val)
        a_end = If(c == 0, cx.p0, E(c) if trailer else S(c - 1))
        end = If(el_fail, a_end, S(c))
        ok = And(Or(nel > 0, BoolVal(empty)), Or(Not(BoolVal(req)), nel == 0, c > 0))
        extra = [('spec-exit-reason', Or(el_fail, sep_fail)), ('spec-all-earlier-ok', ALLOK(c))]
        return Outcome(ok, ex.box(val), end, extra)

    def ref(self, cx, W, user):
        cfg = cx.cfg
        keep, trailer, empty, req = (not cfg['discard_separators'], cfg['allow_trailer'], cfg['allow_empty'], cfg['require_separator'])
        q, out, nel, nsep = W.p0, [], 0, 0
        end = W.p0
        while True:
            ok, v, q2 = W.child(1, q)
            if not ok:
                # a separator consumed just before is a trailing one
                if nsep and not trailer and keep:
                    out.pop()
                break
            out.append(v); nel += 1; end = q2
            ok, sv, q3 = W.child(2, q2)
            if not ok:
                break
            nsep += 1
            if keep:
                out.append(sv)
            if trailer:
                end = q3
            q = q3
        good = (nel > 0 or empty) and (not req or nel == 0 or nsep > 0)
        return (True, out, end) if good else (False, None, W.p0)


LISTS = [BoundedListC(), SepC()]
