"""Contracts of ParsedObject / _hash / _Metadata (C14)."""
import ast
import z3
from z3 import And, Or, Not, Implies, If, IntVal, BoolVal, Const, Function, Length, Select, Store, Array, ForAll

from pyvc.rtver import RtContract, native_namespace
from pyvc.symx import (Val, I, B, SeqV, NONE, Tup, StrLit, Opaque, DictV, OutOfSubset, LoopSpec, VC, Raised, py_eq, int_v, un_int, kind, K_INT)
from pyvc import runtime
from .rt_transform import nf, fname, fidx, fval, class_of, mdc, birth

xor = Function('xor', I, I, I)               # python ^ on ints (only its algebra matters: see lemma eq=>hash)
H = Function('H', Val, I)                    # _hash(value): the contract of _hash, used where it is a callee
XF = Function('XF', Val, I, I)               # XF(o, i): xor of H over the first i fields of o
EQF = Function('EQF', Val, Val, I, B)        # EQF(a, b, i): the first i fields of a and b are pairwise identical-or-equal
pyhash = Function('pyhash', Val, I)
hashable = Function('hashable', Val, B)
okind = Function('okind', Val, I)            # 1 tuple/list, 2 dict, else other  (for _hash)
items = Function('items', Val, SeqV)         # elements of a list/tuple, (key, value) pairs of a dict
XS = Function('XS', SeqV, I, I)              # XS(s, i): xor of H over the first i elements of s


def field_eq(a, b, name):
    l, r = fval(a, name), fval(b, name)
    return Or(l == r, py_eq(l, r))


class _ObjBase(RtContract):
    def base_setup(self, cx, ex, st, names=('self',)):
        ex.structural_eq = True
        for n in names:
            st.env[n] = Const(n, Val)
            o = st.env[n]
            j = Const('j', I)
            st.assume(nf(o) >= 0, ForAll([j], Implies(And(0 <= j, j < nf(o)), fidx(o, fname(o, j)) == j)))

    def base_hooks(self, cx, ex):
        def attr_fields(ex, node, recv, st):
            if isinstance(recv, z3.ExprRef) and recv.sort() == Val:
                return Opaque('fields', of=recv, iter_len=nf(recv), iter_elem=lambda i: fname(recv, i))
            return NotImplemented
        ex.attr_hooks['_fields'] = attr_fields

        def c_getattr(ex, node, st):
            if len(node.args) != 2:
                raise OutOfSubset('getattr default')
            o, name = ex.ev(node.args[0], st), ex.ev(node.args[1], st)
            return fval(ex.box(o), ex.box(name))
        ex.call_hooks['getattr'] = c_getattr

        def attr_class(ex, node, recv, st):
            if isinstance(recv, z3.ExprRef) and recv.sort() == Val:
                return Opaque('class', of=recv, as_val=class_of(recv))
            return NotImplemented
        ex.attr_hooks['__class__'] = attr_class


class EqC(_ObjBase):
    """__eq__: same class and pairwise identical-or-equal fields; metadata and identity are never read"""
    fn_name = 'ParsedObject.__eq__'

    def setup(self, cx, ex, st):
        self.base_setup(cx, ex, st, ('self',))
        st.env['other'] = Const('other', Val)
        a, b = st.env['self'], st.env['other']
        st.assume(EQF(a, b, 0))
        st.ghost['reads'] = []

    def hooks(self, cx, ex):
        self.base_hooks(cx, ex)

        def c_isinstance(ex, node, st):
            a = ex.ev(node.args[0], st)
            c = ex.ev(node.args[1], st)
            if isinstance(c, Opaque) and c.tag == 'class':
                # generated classes derive directly from ParsedObject and are never subclassed (wiring obligation):
                # isinstance(x, C) is class identity
                return class_of(ex.box(a)) == c.as_val
            raise OutOfSubset('isinstance against something else than self.__class__')
        ex.call_hooks['isinstance'] = c_isinstance

    def loops(self, cx):
        def inv(ex, st):
            a, b = cx.entry_env['self'], cx.entry_env['other']
            yield 'all earlier fields are pairwise identical-or-equal', EQF(a, b, st.ghost['i'])

        def havoc(ex, st):
            a, b = cx.entry_env['self'], cx.entry_env['other']
            i = st.ghost['i']
            st.assume(Implies(i < nf(a), EQF(a, b, i + 1) == And(EQF(a, b, i), field_eq(a, b, fname(a, i)))))
        return {1: LoopSpec(inv, havoc=havoc)}

    def post(self, cx, ex, st, how):
        a, b = cx.entry_env['self'], cx.entry_env['other']
        yield 'returns a bool', BoolVal(how == 'return')
        if how != 'return':
            return
        r = ex.truth(st.ret, st)
        # spec: equal iff same class and all fields pairwise identical-or-equal (identical objects trivially so)
        if any(t.startswith('loop1:exhausted') for t in st.trace):
            yield 'True only when same class and every field pair is identical-or-equal', And(r, class_of(a) == class_of(b), EQF(a, b, nf(a)))
        else:
            i = st.ghost.get('i')
            if i is not None and any(t.startswith('loop1:head') for t in st.trace):
                yield 'False inside the loop only at a field pair that differs', And(Not(r), class_of(a) == class_of(b), Not(field_eq(a, b, fname(a, i))))
            else:
                yield 'before the loop: True for the identical object, False for another class', Or(And(r, a == b), And(Not(r), class_of(a) != class_of(b)))


class HashC(_ObjBase):
    """__hash__: xor of _hash over the fields (order-insensitive combination), cached"""
    fn_name = 'ParsedObject.__hash__'

    def setup(self, cx, ex, st):
        self.base_setup(cx, ex, st, ('self',))
        o = st.env['self']
        st.heap['_hash'] = Array('HASHCACHE', Val, Val)
        cache = Select(st.heap['_hash'], o)
        # representation invariant of the cache (objects are not mutated after hashing): None or the hash
        st.assume(Or(cache == NONE, And(kind(cache) == K_INT, un_int(cache) == XF(o, nf(o)))))
        st.assume(XF(o, 0) == 0)

    def hooks(self, cx, ex):
        self.base_hooks(cx, ex)

        def attr_hash(ex, node, recv, st):
            if isinstance(recv, z3.ExprRef) and recv.sort() == Val:
                return Select(st.heap['_hash'], recv)
            return NotImplemented
        ex.attr_hooks['_hash'] = attr_hash

        def setattr_hook(ex, tgt, recv, v, st):
            if tgt.attr == '_hash' and isinstance(recv, z3.ExprRef) and recv.eq(cx.entry_env['self']):
                st.heap['_hash'] = Store(st.heap['_hash'], recv, ex.box(v))
                return True
            return False
        ex.setattr_hook = setattr_hook
        ex.call_hooks['_hash'] = lambda ex, node, st: H(ex.box(ex.ev(node.args[0], st)))

        def aug(ex, s, cur, v, st):
            if isinstance(s.op, ast.BitXor) and isinstance(cur, z3.ArithRef) and isinstance(v, z3.ArithRef):
                return xor(cur, v)
            return NotImplemented
        ex.augassign_hook = aug

        def binop(ex, e, a, b, st):          # `acc = acc ^ h` is the same operation as `acc ^= h`
            if isinstance(e.op, ast.BitXor) and isinstance(a, z3.ArithRef) and isinstance(b, z3.ArithRef):
                return xor(a, b)
            return NotImplemented
        ex.binop_hook = binop

    def loops(self, cx):
        def inv(ex, st):
            o = cx.entry_env['self']
            acc = [v for k, v in st.env.items() if isinstance(v, z3.ArithRef)]
            yield 'accumulator = xor of _hash over the fields so far', And(len(acc) == 1, acc[0] == XF(o, st.ghost['i'])) if acc else BoolVal(False)

        def havoc(ex, st):
            o = cx.entry_env['self']
            i = st.ghost['i']
            st.assume(Implies(i < nf(o), XF(o, i + 1) == xor(XF(o, i), H(fval(o, fname(o, i))))))
        return {1: LoopSpec(inv, havoc=havoc)}

    def post(self, cx, ex, st, how):
        o = cx.entry_env['self']
        yield 'returns', BoolVal(how == 'return')
        if how == 'return':
            r = st.ret if isinstance(st.ret, z3.ArithRef) else un_int(ex.box(st.ret))
            yield 'hash = xor of _hash(field) over the fields', r == XF(o, nf(o))
            cache = Select(st.heap['_hash'], o)
            yield 'cache holds the hash afterwards', And(kind(cache) == K_INT, un_int(cache) == XF(o, nf(o)))


class ReplaceC(_ObjBase):
    """_replace(**kw): new object of the same class, given fields replaced, the others and the metadata contents kept, original untouched"""
    fn_name = 'ParsedObject._replace'

    def setup(self, cx, ex, st):
        self.base_setup(cx, ex, st, ('self',))
        o = st.env['self']
        kw = DictV(Array('kw_dom0', Val, B), Array('kw_map0', Val, Val), Const('kw_nonempty0', B))
        st.env['kw'] = kw
        cx.kw0 = kw
        nm = Const('nm', Val)
        # requires: only fields of the object are given (anything else is a TypeError of the class constructor)
        st.assume(ForAll([nm], Implies(Select(kw.dom, nm), And(0 <= fidx(o, nm), fidx(o, nm) < nf(o), fname(o, fidx(o, nm)) == nm))))
        st.ghost['self_writes'] = 0

    def hooks(self, cx, ex):
        self.base_hooks(cx, ex)

        def call_any(ex, node, st):
            f = node.func
            if isinstance(f, ast.Attribute) and f.attr == '__class__':
                recv = ex.ev(f.value, st)
                if node.args or len(node.keywords) != 1 or node.keywords[0].arg is not None:
                    raise OutOfSubset('constructor call shape')
                kw = ex.ev(node.keywords[0].value, st)
                o = cx.entry_env['self']
                nm = Const('nm', Val)
                j = Const('j', I)
                # emitted __init__(self, f1..fk) stores each argument under its own name (wiring: Class._compile): requires exactly the fields
                ex.safety(st, 'constructor receives exactly the fields of the class', node, And(
                    ForAll([j], Implies(And(0 <= j, j < nf(o)), Select(kw.dom, fname(o, j)))),
                    ForAll([nm], Implies(Select(kw.dom, nm), And(0 <= fidx(o, nm), fidx(o, nm) < nf(o), fname(o, fidx(o, nm)) == nm)))))
                r = ex.fv('new', Val)
                st.assume(r != o, birth(r) > birth(o), class_of(r) == class_of(recv), nf(r) == nf(o),
                          ForAll([j], fname(r, j) == fname(o, j)),
                          ForAll([j], Implies(And(0 <= j, j < nf(o)), fval(r, fname(o, j)) == Select(kw.map, fname(o, j)))))
                st.ghost['new'] = r
                st.ghost['new_mdc'] = Const('EMPTY_METADATA', Val)
                return r
            return NotImplemented
        ex.call_hooks['*'] = call_any

        def attr_md(ex, node, recv, st):
            if isinstance(recv, z3.ExprRef) and recv.sort() == Val:
                return Opaque('metadata', of=recv)
            return NotImplemented
        ex.attr_hooks['_metadata'] = attr_md

        def m_update(ex, node, recv, st):
            if isinstance(recv, Opaque) and recv.tag == 'metadata':
                src = ex.ev(node.args[0], st)
                if not (isinstance(src, Opaque) and src.tag == 'metadata'):
                    raise OutOfSubset('update(non-metadata)')
                if recv.of.eq(cx.entry_env['self']):
                    st.ghost['self_writes'] += 1
                # updating an EMPTY metadata with m gives the contents of m
                if 'new' in st.ghost and recv.of.eq(st.ghost['new']):
                    st.ghost['new_mdc'] = mdc(src.of)
                return NONE
            return NotImplemented
        ex.method_hooks['update'] = m_update

    def loops(self, cx):
        def inv(ex, st):
            o = cx.entry_env['self']
            kw, kw0 = st.env['kw'], cx.kw0
            i = st.ghost['i']
            nm = Const('nm', Val)
            k = fidx(o, nm)
            isf = And(0 <= k, k < i, fname(o, k) == nm)
            yield 'kw = the given fields plus the object\'s own value for each earlier field not given', ForAll([nm], And(
                Select(kw.dom, nm) == Or(Select(kw0.dom, nm), isf),
                Implies(Select(kw.dom, nm), Select(kw.map, nm) == If(Select(kw0.dom, nm), Select(kw0.map, nm), fval(o, nm)))))

        def havoc(ex, st):
            o = cx.entry_env['self']
            i = st.ghost['i']
            st.assume(Implies(i < nf(o), fidx(o, fname(o, i)) == i))
        return {1: LoopSpec(inv, havoc=havoc)}

    def post(self, cx, ex, st, how):
        o = cx.entry_env['self']
        kw0 = cx.kw0
        yield 'returns', BoolVal(how == 'return')
        if how != 'return':
            return
        r = ex.box(st.ret)
        j = Const('j', I)
        yield 'a new object of the same class', And(r != o, class_of(r) == class_of(o), BoolVal('new' in st.ghost and st.ret is st.ghost['new']))
        yield 'each field = the given value, else the original\'s', ForAll([j], Implies(And(0 <= j, j < nf(o)), fval(r, fname(o, j)) == If(
            Select(kw0.dom, fname(o, j)), Select(kw0.map, fname(o, j)), fval(o, fname(o, j)))))
        yield 'position metadata kept', st.ghost.get('new_mdc', NONE) == mdc(o)
        yield 'original untouched', BoolVal(st.ghost['self_writes'] == 0)


class MetadataGetattrC(RtContract):
    """_Metadata.__getattr__ is total: also on an instance whose __dict__ is still empty (what copy / pickle create before
    restoring the state) it terminates - by raising AttributeError - instead of re-entering itself without bound"""
    fn_name = '_Metadata.__getattr__'

    def configs(self, tier):
        yield {'name': 'position_info', 'has_fields': True}
        yield {'name': 'position_info', 'has_fields': False}
        yield {'name': '__setstate__', 'has_fields': False}
        yield {'name': '__setstate__', 'has_fields': True}
        yield {'name': '__deepcopy__', 'has_fields': False}
        yield {'name': '__reduce_ex__', 'has_fields': False}
        yield {'name': '_fields', 'has_fields': False}
        yield {'name': None, 'has_fields': False}
        yield {'name': None, 'has_fields': True}

    def setup(self, cx, ex, st):
        st.env['self'] = Const('self', Val)
        n = cx.cfg['name']
        st.env['name'] = StrLit(n) if n is not None else Opaque('anystr', as_val=Const('name', Val))
        cx.depth = 0

    def hooks(self, cx, ex):
        contract = self

        def attr_fields(ex, node, recv, st):
            if isinstance(recv, z3.ExprRef) and recv.eq(cx.entry_env['self']):
                if cx.cfg['has_fields']:
                    return Opaque('fielddict')
                # not in the instance __dict__: python calls __getattr__(self, '_fields') - re-entry, executed here
                cx.depth += 1
                if cx.depth > 3:
                    ex.vcs.append(VC('terminates: no unbounded re-entry of __getattr__', st.pc, BoolVal(False), 'post'))
                    st.exc = ('RecursionError',)
                    raise Raised(st)
                sub = st.fork()
                sub.env = {'self': recv, 'name': StrLit('_fields')}
                res = ex.block(cx.fn.body, sub)
                if len(res) != 1:
                    raise OutOfSubset('re-entrant call branches')
                k, q = res[0]
                if k == 'raise':
                    st.exc = q.exc
                    raise Raised(st)
                return q.ret
            return NotImplemented
        ex.attr_hooks['_fields'] = attr_fields

        def m_get(ex, node, recv, st):
            if isinstance(recv, Opaque) and recv.tag == 'fielddict':
                st.ghost['looked_up'] = ex.ev(node.args[0], st)
                return Const('FIELD_OR_NONE', Val)
            return NotImplemented
        ex.method_hooks['get'] = m_get

        def m_str(tag):
            def h(ex, node, recv, st):
                if isinstance(recv, StrLit) and isinstance(node.args[0], ast.Constant):
                    return BoolVal(getattr(recv.value, tag)(node.args[0].value))
                if isinstance(recv, Opaque) and recv.tag == 'anystr':
                    # arbitrary name: the answer of startswith/endswith is unknown -> both ways
                    return Const(f'{tag}_{ast.unparse(node.args[0])}', B)
                return NotImplemented
            return h
        ex.method_hooks['startswith'] = m_str('startswith')
        ex.method_hooks['endswith'] = m_str('endswith')

        def raise_hook(ex, s, st):
            return (ast.unparse(s.exc.func) if isinstance(s.exc, ast.Call) else ast.unparse(s.exc),)
        ex.raise_hook = raise_hook
        orig_equal = ex.equal

        def equal(a, b, st, identity=False):
            for x, y in ((a, b), (b, a)):
                if isinstance(x, Opaque) and x.tag == 'anystr' and isinstance(y, StrLit):
                    return Const(f'name_is_{y.value}', B)
            return orig_equal(a, b, st, identity)
        ex.equal = equal

    def post(self, cx, ex, st, how):
        n = cx.cfg['name']
        if how == 'raise':
            yield 'only AttributeError is raised', BoolVal(st.exc[0] == 'AttributeError')
            if cx.cfg['has_fields'] and n is not None and not (n.startswith('__') and n.endswith('__')) and n != '_fields':
                yield 'an ordinary name on a complete instance is answered from the field dict', BoolVal(False)
        elif how == 'return':
            yield 'a value is returned only from the field dict of a complete instance', BoolVal(cx.cfg['has_fields'] and 'looked_up' in st.ghost)
            if n is not None:
                yield 'special-method names are never answered from the field dict', BoolVal(not (n.startswith('__') and n.endswith('__')))
        else:
            yield 'returns or raises', BoolVal(False)


OBJECTS = [EqC(), HashC(), ReplaceC(), MetadataGetattrC()]


class HashFnC(RtContract):
    """_hash(value): hash(value) when hashable; for tuples/lists the xor of _hash over the elements, for dicts the xor of
    _hash over the (key, value) pairs (order-insensitive); TypeError otherwise.  Recursive calls enter by contract (H)."""
    fn_name = '_hash'

    def setup(self, cx, ex, st):
        st.env['value'] = Const('value', Val)
        v = st.env['value']
        st.assume(XS(items(v), 0) == 0)

    def hooks(self, cx, ex):
        def try_hook(ex, s, st):
            # try: return hash(value)  except TypeError: <fallback>
            if len(s.handlers) != 1 or s.orelse or s.finalbody or ast.unparse(s.handlers[0].type) != 'TypeError':
                raise OutOfSubset('try shape')
            v = cx.entry_env['value']
            a, b = st.fork(), st.fork()
            a.assume(hashable(v)); a.trace.append('hashable')
            b.assume(Not(hashable(v))); b.trace.append('unhashable')
            out = ex.block(s.body, a)
            b.ghost['in_handler'] = True
            out += ex.block(s.handlers[0].body, b)
            return out
        ex.try_hook = try_hook

        def c_hash(ex, node, st):
            v = ex.box(ex.ev(node.args[0], st))
            if st.ghost.get('in_handler'):
                raise OutOfSubset('hash() inside the handler')
            # on the path where the value is unhashable this call raises TypeError (handled by try_hook's split)
            return pyhash(v)
        ex.call_hooks['hash'] = c_hash
        ex.call_hooks['_hash'] = lambda ex, node, st: H(ex.box(ex.ev(node.args[0], st)))

        def c_isinstance(ex, node, st):
            a = ex.box(ex.ev(node.args[0], st))
            cls = ast.unparse(node.args[1])
            if sorted(x.strip() for x in cls.strip('()').split(',')) == ['list', 'tuple']:
                return okind(a) == 1
            if cls == 'dict':
                return okind(a) == 2
            raise OutOfSubset(f'isinstance {cls}')
        ex.call_hooks['isinstance'] = c_isinstance

        def m_items(ex, node, recv, st):
            if isinstance(recv, z3.ExprRef) and recv.sort() == Val:
                return Opaque('dict-items', of=recv, iter_len=Length(items(recv)), iter_elem=lambda i: items(recv)[i])
            return NotImplemented
        ex.method_hooks['items'] = m_items

        def for_hook(ex, s, st):
            it = ex.ev(s.iter, st)
            if isinstance(it, z3.ExprRef) and it.sort() == Val:
                sq = items(it)
                return ex.run_for(s, st, Length(sq), lambda i: sq[i])
            return NotImplemented
        ex.for_hook = for_hook

        def aug(ex, s, cur, v, st):
            if isinstance(s.op, ast.BitXor) and isinstance(cur, z3.ArithRef) and isinstance(v, z3.ArithRef):
                return xor(cur, v)
            return NotImplemented
        ex.augassign_hook = aug

        def binop(ex, e, a, b, st):          # `acc = acc ^ h` is the same operation as `acc ^= h`
            if isinstance(e.op, ast.BitXor) and isinstance(a, z3.ArithRef) and isinstance(b, z3.ArithRef):
                return xor(a, b)
            return NotImplemented
        ex.binop_hook = binop

        def raise_hook(ex, s, st):
            return ('reraise' if s.exc is None else ast.unparse(s.exc),)
        ex.raise_hook = raise_hook

    def loops(self, cx):
        def mk():
            def inv(ex, st):
                v = cx.entry_env['value']
                acc = [x for k, x in st.env.items() if isinstance(x, z3.ArithRef)]
                yield 'accumulator = xor of _hash over the items so far', And(acc[0] == XS(items(v), st.ghost['i'])) if len(acc) == 1 else BoolVal(False)

            def havoc(ex, st):
                v = cx.entry_env['value']
                i = st.ghost['i']
                st.assume(Implies(i < Length(items(v)), XS(items(v), i + 1) == xor(XS(items(v), i), H(items(v)[i]))))
            return LoopSpec(inv, havoc=havoc)
        return {1: mk(), 2: mk()}

    def post(self, cx, ex, st, how):
        v = cx.entry_env['value']
        if how == 'return':
            r = st.ret if isinstance(st.ret, z3.ArithRef) else un_int(ex.box(st.ret))
            yield 'hashable: hash(value); list/tuple/dict: xor of _hash over the items', r == If(hashable(v), pyhash(v), XS(items(v), Length(items(v))))
            yield 'fallback only for unhashable tuples, lists and dicts', Or(hashable(v), okind(v) == 1, okind(v) == 2)
        elif how == 'raise':
            yield 'TypeError re-raised only for an unhashable value that is neither tuple, list nor dict', And(
                BoolVal(st.exc[0] == 'reraise'), Not(hashable(v)), okind(v) != 1, okind(v) != 2)
        else:
            yield 'returns or raises', BoolVal(False)


class AsdictC(_ObjBase):
    """_asdict(): {field: value} in _fields order (a dict comprehension over self._fields keeps declaration order)"""
    fn_name = 'ParsedObject._asdict'

    def setup(self, cx, ex, st):
        self.base_setup(cx, ex, st, ('self',))

    def hooks(self, cx, ex):
        self.base_hooks(cx, ex)

        def comp(ex, e, st):
            if isinstance(e, ast.DictComp) and len(e.generators) == 1 and not e.generators[0].ifs and isinstance(e.generators[0].target, ast.Name):
                var = e.generators[0].target.id
                it = ex.ev(e.generators[0].iter, st)
                if isinstance(it, Opaque) and it.tag == 'fields' and it.of.eq(cx.entry_env['self']) \
                        and ast.unparse(e.key) == var and ast.unparse(e.value) == f'getattr(self, {var})':
                    return Opaque('fields-dict', of=it.of)
            return NotImplemented
        ex.comp_hook = comp

    def post(self, cx, ex, st, how):
        yield 'returns {field: getattr(self, field)} built in _fields order', BoolVal(how == 'return' and isinstance(st.ret, Opaque) and st.ret.tag == 'fields-dict')


MORE = [HashFnC(), AsdictC()]


# ------------------------------------------------------------------------------------------------ bounded stand-in
def bounded_values():
    """value laws on a fixed family of real parsed trees (thorough tier; labelled bounded)"""
    import copy
    import pickle
    import itertools
    from sourcer import Grammar
    import sys
    for m in ('verif_c14_values', 'verif_c14_values2'):
        sys.modules.pop(m, None)
    g = Grammar('grammar verif_c14_values\n'
                'class Pair {\n k: Name\n v: Value\n}\nclass Unit {\n}\n'
                'Name = /[a-z]+/\nValue = Num | Lst | Dct | Name | Box2 | Expr\nNum = /[0-9]+/ |> `int`\n'
                'Lst = "[" >> (Value // ",") << "]"\nDct = "{" >> ((Name << ":") // ",") << "}" |> `lambda ks: {k: len(k) for k in ks}`\n'
                'class Box2 {\n inner: "<" >> Value << ">"\n}\nExpr = "(" >> (Num between { left: "+" \n prefix: "-" \n postfix: "!" }) << ")"\n'
                'start = Pair')
    texts = ['a1', 'a[1,2]', 'a[1,[2,3]]', 'a{x:,yy:}', 'a{yy:,x:}', 'a[{x:,yy:,z:}]', 'a[{z:,yy:,x:}]', 'a<1>', 'a<<1>>', 'a(1+2)', 'a(-1+2!)', 'a[]', 'a[<1>,<1>]']
    trees = [g.Pair.parse(t) for t in texts] + [g.Pair.parse(t) for t in texts[:4]]
    PO = g.ParsedObject

    def deep_eq(x, y):
        if isinstance(x, PO) or isinstance(y, PO):
            return type(x) is type(y) and all(deep_eq(getattr(x, f), getattr(y, f)) for f in x._fields)
        if isinstance(x, (list, tuple)) and type(x) is type(y):
            return len(x) == len(y) and all(deep_eq(p, q) for p, q in zip(x, y))
        if isinstance(x, dict) and isinstance(y, dict):
            return set(x) == set(y) and all(deep_eq(x[k], y[k]) for k in x)
        return x == y
    bad, tried = [], 0
    for a, b in itertools.product(trees, repeat=2):
        tried += 1
        if (a == b) != (b == a):
            bad.append(('symmetry', repr(a), repr(b)))
        if a == b and hash(a) != hash(b):
            bad.append(('eq=>hash', repr(a), repr(b)))
        if (a == b) != deep_eq(a, b):
            bad.append(('eq iff same class and pairwise equal fields', repr(a), repr(b)))
    # a class of the same name and shape in ANOTHER grammar is a different class
    g2 = Grammar('grammar verif_c14_values2\nclass Pair {\n k: Name\n v: Num\n}\nName = /[a-z]+/\nNum = /[0-9]+/ |> `int`\nstart = Pair')
    o1, o2 = g.Pair.parse('a1'), g2.Pair.parse('a1')
    tried += 1
    if o1 == o2 or o2 == o1:
        bad.append(('different classes compare equal', repr(o1), repr(o2)))
    # objects whose xor-of-field-hashes collide (both 0) are still different values - also after both were hashed
    c1, c2 = g.Pair('x', 'x'), g.Pair('y', 'y')
    hash(c1), hash(c2)
    tried += 1
    if c1 == c2 or hash(c1) != 0 or hash(c2) != 0:
        bad.append(('objects with colliding hashes compare equal', repr(c1), repr(c2)))
    ns = vars(g)
    for t in trees:
        tried += 1
        if not (t == t):
            bad.append(('reflexive', repr(t)))
        d = t._asdict()
        if list(d) != list(t._fields) or any(d[f] is not getattr(t, f) for f in t._fields):
            bad.append(('_asdict', repr(t)))
        # a copy made by _replace is a NEW value: it must not inherit the hash cached on the original
        h0 = hash(t)
        r2 = t._replace(k='zz')
        fresh = type(t)('zz', t.v)
        if r2 != fresh or hash(r2) != hash(fresh) or hash(t) != h0:
            bad.append(('_replace after hash(): the copy carries a stale cached hash', repr(t), hash(r2), hash(fresh)))
        # the fields are what the CLASS declares: an attribute a user put on the instance is no field, a field is one whatever its value
        t2 = t._replace(v=t.v)
        t2.note, t2.k = 'mine', None
        d2 = t2._asdict()
        if list(d2) != list(t._fields) or d2['k'] is not None or t2 != t._replace(k=None) or hash(t2) != hash(t._replace(k=None)):
            bad.append(('_asdict / == / hash look at instance attributes instead of the declared fields', repr(t), repr(d2)))
        r = t._replace(v=None)
        if r is t or r.v is not None or r.k is not t.k or t.v is None or dict(r._metadata._fields) != dict(t._metadata._fields):
            bad.append(('_replace', repr(t)))
        for cp in (copy.deepcopy(t), pickle.loads(pickle.dumps(t))):
            if cp != t or cp is t or dict(cp._metadata._fields) != dict(t._metadata._fields):
                bad.append(('copy', repr(t)))
            if isinstance(t.v, g.ParsedObject) and cp.v is t.v:
                bad.append(('copy-independent', repr(t)))
        try:
            back = eval(repr(t), dict(ns))
            if back != t:
                bad.append(('repr-eval', repr(t)))
        except Exception as e:
            bad.append(('repr-eval raised', repr(t), repr(e)))
    return bad, tried, 'all pairs of 15 parsed trees (scalars, None, lists, dicts, nested objects, Infix/Prefix/Postfix) of one named grammar'


def _bv(self, cx):
    return bounded_values()


for _c in (EqC, HashC, ReplaceC, HashFnC, AsdictC, MetadataGetattrC):
    _c.bounded = _bv
