"""Contracts of transform / _transform (C16), by modular recursion: at its recursive calls _transform is known
only by contract.  Ghost: ``trace`` = sequence of events  rec(x) (recursive call on x)  and  cb(x) (callback chain
applied to x); heap abstraction for parsed objects: fname(o,j) / fval(o,name) / class_of / metadata contents."""
import ast
import z3
from z3 import And, Or, Not, Implies, If, IntVal, BoolVal, Const, Function, Length, Concat, Unit, Empty, Select, Store, Array, ForAll

from pyvc.rtver import RtContract, native_namespace
from pyvc.symx import Val, I, B, SeqV, NONE, Tup, Opaque, DictV, OutOfSubset, LoopSpec, VC, py_eq
from pyvc import runtime

tkind = Function('tkind', Val, I)           # 1 list, 3 parsed object, anything else: passes through (tuples and dicts too)
LISTK, OBJK = 1, 3
elems = Function('elems', Val, SeqV)
nf = Function('nf', Val, I)                 # number of fields of a parsed object
fname = Function('fname', Val, I, Val)      # j-th field name
fidx = Function('fidx', Val, Val, I)        # index of a field name (field names are distinct)
fval = Function('fval', Val, Val, Val)      # getattr(o, name)
class_of = Function('class_of', Val, Val)
mdc = Function('mdc', Val, Val)             # contents of o._metadata (abstract value)
birth = Function('birth', Val, I)
rec_item = Function('rec_item', Val, Val)   # trace event: recursive _transform call on x
cb_item = Function('cb_item', Val, Val)     # trace event: callback chain applied to x
maprec = Function('maprec', SeqV, SeqV)     # pointwise rec_item
TRC = Function('TRC', Val, I, SeqV)         # TRC(o, i): events of the recursive calls on the first i fields of o


class TransformInnerC(RtContract):
    """_transform(node, callback)"""
    fn_name = '_transform'

    def setup(self, cx, ex, st):
        ex.structural_eq = True
        e = st.env
        e['node'] = Const('node', Val)
        e['callback'] = Const('callback', Val)
        st.ghost['trace'] = Empty(SeqV)
        st.ghost['clock'] = IntVal(0)
        node = e['node']
        j = Const('j', I)
        st.assume(nf(node) >= 0, birth(node) <= 0)
        st.assume(ForAll([j], Implies(And(0 <= j, j < nf(node)), fidx(node, fname(node, j)) == j)))     # distinct field names
        st.assume(TRC(node, 0) == Empty(SeqV))

    def hooks(self, cx, ex):
        def isinstance_hook(cx_, ex, node, a, cls, st):
            if isinstance(a, z3.ExprRef) and a.sort() == Val:
                if cls == 'list':
                    return tkind(a) == LISTK
                if cls == 'ParsedObject':
                    return tkind(a) == OBJK
            return NotImplemented
        self.isinstance_hook = isinstance_hook

        def rec_call(ex, node, st):
            """recursive call, by contract: returns some value, records rec(x), allocates only fresh objects"""
            args = [ex.ev(a, st) for a in node.args]
            if len(args) != 2 or not args[1].eq(cx.entry_env['callback']):
                ex.vcs.append(VC(f'recursive call passes the same callback@{ex.ordn(node)}', st.pc, BoolVal(False), 'post'))
            x = ex.box(args[0])
            st.ghost['trace'] = Concat(st.ghost['trace'], Unit(rec_item(x)))
            r = ex.fv('rec_result', Val)
            st.ghost['last_rec'] = (x, r)
            return r
        ex.call_hooks['_transform'] = rec_call

        def comp(ex, e, st):
            # [_transform(x, callback) for x in node]  -> results of the recursive calls on the elements, in order
            if isinstance(e, ast.ListComp) and len(e.generators) == 1 and not e.generators[0].ifs and isinstance(e.generators[0].target, ast.Name):
                var = e.generators[0].target.id
                it = ex.ev(e.generators[0].iter, st)
                elt = e.elt
                if isinstance(elt, ast.Call) and ast.unparse(elt.func) == '_transform' and len(elt.args) == 2 \
                        and ast.unparse(elt.args[0]) == var and isinstance(it, z3.ExprRef) and it.sort() == Val:
                    cb = ex.ev(elt.args[1], st)
                    if not cb.eq(cx.entry_env['callback']):
                        return NotImplemented
                    ex.safety(st, 'iteration-over-a-list', e, tkind(it) == LISTK)
                    rs = ex.fv('results', SeqV)
                    st.assume(Length(rs) == Length(elems(it)))
                    st.ghost['trace'] = Concat(st.ghost['trace'], maprec(elems(it)))
                    st.ghost['list_results'] = (it, rs)
                    return rs
            return NotImplemented
        ex.comp_hook = comp

        def attr_fields(ex, node, recv, st):
            if isinstance(recv, z3.ExprRef) and recv.sort() == Val:
                ex.safety(st, '_fields-of-a-parsed-object', node, tkind(recv) == OBJK)
                return Opaque('fields', of=recv, iter_len=nf(recv), iter_elem=lambda i: fname(recv, i))
            return NotImplemented
        ex.attr_hooks['_fields'] = attr_fields

        def c_getattr(ex, node, st):
            o, name = ex.ev(node.args[0], st), ex.ev(node.args[1], st)
            if len(node.args) != 2:
                raise OutOfSubset('getattr default')
            return fval(ex.box(o), ex.box(name))
        ex.call_hooks['getattr'] = c_getattr

        def m_replace(ex, node, recv, st):
            # ParsedObject._replace(**kw), callee known by contract (C14): fresh object of the same class, field f = kw[f] if given
            # else the receiver's, metadata contents copied, receiver untouched
            if not (isinstance(recv, z3.ExprRef) and recv.sort() == Val):
                return NotImplemented
            if node.args or len(node.keywords) != 1 or node.keywords[0].arg is not None:
                raise OutOfSubset('_replace call shape')
            kw = ex.ev(node.keywords[0].value, st)
            if not isinstance(kw, DictV):
                raise OutOfSubset('_replace(**non-dict)')
            o = ex.fv('copy', Val)
            g = st.ghost
            g['clock'] = g['clock'] + 1
            nm = Const('nm', Val)
            j = Const('j', I)
            st.assume(birth(o) == g['clock'], tkind(o) == OBJK, class_of(o) == class_of(recv), nf(o) == nf(recv), mdc(o) == mdc(recv),
                      ForAll([j], fname(o, j) == fname(recv, j)),
                      ForAll([nm], fval(o, nm) == If(Select(kw.dom, nm), Select(kw.map, nm), fval(recv, nm))))
            g['replaced'] = (recv, o, kw)
            return o
        ex.method_hooks['_replace'] = m_replace

        def call_value(ex, node, fv_, st):
            if isinstance(fv_, z3.ExprRef) and fv_.eq(cx.entry_env['callback']):
                if len(node.args) != 1:
                    raise OutOfSubset('callback arity')
                x = ex.box(ex.ev(node.args[0], st))
                st.ghost['trace'] = Concat(st.ghost['trace'], Unit(cb_item(x)))
                r = ex.fv('cb_result', Val)
                st.ghost['cb_call'] = (x, r)
                return r
            return NotImplemented
        ex.call_hooks['*value'] = call_value

    def loops(self, cx):
        def inv(ex, st):
            node = cx.entry_env['node']
            i = st.ghost['i']
            g = st.ghost
            upd = [v for v in st.env.values() if isinstance(v, DictV)][0]
            nows = g['nows']
            nm = Const('nm', Val)
            j = Const('j', I)
            k = fidx(node, nm)
            isfield = And(0 <= k, k < i, fname(node, k) == nm)
            yield 'trace = recursive calls on the first i fields, in order', g['trace'] == TRC(node, i)
            yield 'updates holds exactly the fields whose transformed value is another object', ForAll([nm], And(
                Select(upd.dom, nm) == And(isfield, Select(nows, k) != fval(node, nm)),
                Implies(Select(upd.dom, nm), Select(upd.map, nm) == Select(nows, k))))
            yield 'updates is non-empty iff some field changed', upd.nonempty == g['chg']
            yield 'no change so far => every transformed field is the old object', Implies(Not(g['chg']), ForAll([j], Implies(And(0 <= j, j < i), Select(nows, j) == fval(node, fname(node, j)))))

        def enter(ex, st):
            st.ghost['nows'] = Array('nows0', I, Val)
            st.ghost['chg'] = BoolVal(False)

        def havoc(ex, st):
            g = st.ghost
            node = cx.entry_env['node']
            i = g['i']
            g['trace'] = ex.fv('trace', SeqV)
            g['nows'] = ex.fv('nows', z3.ArraySort(I, Val))
            g['chg'] = ex.fv('chg', B)
            g.pop('last_rec', None)
            st.assume(Implies(i < nf(node), And(fidx(node, fname(node, i)) == i,
                                                TRC(node, i + 1) == Concat(TRC(node, i), Unit(rec_item(fval(node, fname(node, i))))))))

        def step(ex, st):
            g = st.ghost
            node = cx.entry_env['node']
            i = g['i'] - 1                    # index of the iteration just finished
            lr = g.get('last_rec')
            if lr is None:
                ex.vcs.append(VC('each field is transformed by exactly one recursive call', st.pc, BoolVal(False), 'post'))
                return
            x, r = lr
            ex.vcs.append(VC('recursive call is made on the value of the current field', st.pc, x == fval(node, fname(node, i)), 'post', path=list(st.trace)))
            g['nows'] = Store(g['nows'], i, r)
            g['chg'] = Or(g['chg'], r != x)

        return {1: LoopSpec(inv, enter=enter, havoc=havoc, step=step)}

    def post(self, cx, ex, st, how):
        node = cx.entry_env['node']
        g = st.ghost
        yield 'returns', BoolVal(how == 'return')
        if how != 'return':
            return
        ret = ex.box(st.ret) if not isinstance(st.ret, z3.SeqRef) else None
        j = Const('j', I)
        if 'list_results' in g:
            it, rs = g['list_results']
            yield 'list: a new list of the recursively transformed elements, in order', And(tkind(node) == LISTK, it == node, BoolVal(st.ret is rs))
            yield 'list: events are the recursive calls on the elements, in order', g['trace'] == maprec(elems(node))
            return
        if 'cb_call' not in g:
            yield 'leaf: passes through unchanged, no event', And(tkind(node) != LISTK, tkind(node) != OBJK, ret == node, g['trace'] == Empty(SeqV))
            return
        x, r = g['cb_call']
        nows = g['nows']
        yield 'object: recursive calls on every field in order, then ONE callback application, on the rebuilt node',\
            And(tkind(node) == OBJK, g['trace'] == Concat(TRC(node, nf(node)), Unit(cb_item(x))))
        yield 'object: result is what the callback chain returns', ret == r
        unchanged = ForAll([j], Implies(And(0 <= j, j < nf(node)), Select(nows, j) == fval(node, fname(node, j))))
        yield 'object: passed on as is when no field changed', Implies(Not(g['chg']), And(x == node, unchanged))
        yield 'object: otherwise a fresh copy of the same class holding the transformed fields, with the metadata contents of the node it stands for', Implies(
            g['chg'], And(x != node, birth(x) > 0, class_of(x) == class_of(node), mdc(x) == mdc(node), nf(x) == nf(node),
                          ForAll([j], Implies(And(0 <= j, j < nf(node)), fval(x, fname(node, j)) == Select(nows, j)))))


cbs = Const('callbacks', SeqV)
has_md = Function('has_md', Val, B)         # bool(o._metadata): the object carries metadata of its own
FOLD = Function('FOLD', Val, I, Val)        # FOLD(x, i): value after the first i callbacks were applied to x
from pyvc.symx import app


class CallbackChainC(RtContract):
    """the inner ``callback(node)`` of transform: applies f1..fm in order; a replacement object without metadata of its own
    receives the metadata of the node it replaces; nothing else is written"""
    fn_name = 'transform.callback'

    def function(self, cx):
        outer = runtime.function('transform', cx.uses_context)
        inner = [n for n in outer.body if isinstance(n, ast.FunctionDef)]
        if len(inner) != 1:
            raise OutOfSubset('transform has no single inner callback function')
        cx.inner_name = inner[0].name
        return inner[0]

    def setup(self, cx, ex, st):
        ex.structural_eq = True
        st.env['node'] = Const('node', Val)
        st.env['callbacks'] = cbs
        node = st.env['node']
        st.ghost['writes'] = []
        st.assume(FOLD(node, 0) == node)

    def hooks(self, cx, ex):
        def isinstance_hook(cx_, ex, node, a, cls, st):
            if isinstance(a, z3.ExprRef) and a.sort() == Val and cls == 'ParsedObject':
                return tkind(a) == OBJK
            return NotImplemented
        self.isinstance_hook = isinstance_hook

        def call_value(ex, node, fv_, st):
            if isinstance(fv_, z3.ExprRef) and fv_.sort() == Val and len(node.args) == 1:
                return app(fv_, ex.box(ex.ev(node.args[0], st)))      # user callback: pure function of its argument
            return NotImplemented
        ex.call_hooks['*value'] = call_value

        def attr_md(ex, node, recv, st):
            if isinstance(recv, z3.ExprRef) and recv.sort() == Val:
                ex.safety(st, 'has-_metadata (is a parsed object)', node, tkind(recv) == OBJK)
                return Opaque('metadata', of=recv, truth=self.cur_has_md(st, recv))
            return NotImplemented
        ex.attr_hooks['_metadata'] = attr_md

        def m_update(ex, node, recv, st):
            if isinstance(recv, Opaque) and recv.tag == 'metadata':
                src = ex.ev(node.args[0], st)
                if not (isinstance(src, Opaque) and src.tag == 'metadata'):
                    raise OutOfSubset('metadata.update(non-metadata)')
                st.ghost['writes'] = st.ghost['writes'] + [(recv.of, src.of, st.ghost['i'])]
                st.ghost['mdsrc'] = Store(st.ghost['mdsrc'], recv.of, src.of)
                st.ghost['written'] = Store(st.ghost['written'], recv.of, BoolVal(True))
                return NONE
            return NotImplemented
        ex.method_hooks['update'] = m_update

    def cur_has_md(self, st, o):
        # after update(prev._metadata) the target has metadata iff it had some or the source has some
        return has_md(o)

    def loops(self, cx):
        def inv(ex, st):
            node = cx.entry_env['node']
            i = st.ghost['i']
            cur = self.cur_node(cx, st)
            yield 'value so far = the first i callbacks applied in order', cur == FOLD(node, i)

        def enter(ex, st):
            st.ghost['mdsrc'] = Array('mdsrc0', Val, Val)
            st.ghost['written'] = z3.K(Val, BoolVal(False))

        def havoc(ex, st):
            node = cx.entry_env['node']
            i = st.ghost['i']
            st.ghost['writes'] = []
            st.assume(Implies(i < Length(cbs), FOLD(node, i + 1) == app(cbs[i], FOLD(node, i))))

        def step(ex, st):
            # per-iteration frame obligation: the only heap write is `new._metadata.update(prev._metadata)` and it happens exactly
            # when the callback returned ANOTHER object, both are parsed objects and the new one has no metadata of its own
            node = cx.entry_env['node']
            i = st.ghost['i'] - 1
            prev, new = FOLD(node, i), FOLD(node, i + 1)
            should = And(new != prev, tkind(prev) == OBJK, tkind(new) == OBJK, Not(has_md(new)))
            w = st.ghost['writes']
            did = BoolVal(len(w) == 1)
            ex.vcs.append(VC('metadata is copied exactly when a metadata-less object replaces another object', st.pc, did == should, 'post', path=list(st.trace)))
            if len(w) == 1:
                ex.vcs.append(VC('metadata is copied from the replaced node into its replacement', st.pc, And(w[0][0] == new, w[0][1] == prev), 'post', path=list(st.trace)))
                # "the input tree is never modified": the object written to must have been created during this transform
                ex.vcs.append(VC('input tree untouched: the object that receives metadata was allocated during the transform', st.pc,
                                 birth(new) > 0, 'post', path=list(st.trace)))
            elif len(w) > 1:
                ex.vcs.append(VC('at most one metadata write per callback', st.pc, BoolVal(False), 'post', path=list(st.trace)))

        return {1: LoopSpec(inv, enter=enter, havoc=havoc, step=step)}

    def cur_node(self, cx, st):
        return st.env['node']

    def post(self, cx, ex, st, how):
        node = cx.entry_env['node']
        yield 'returns', BoolVal(how == 'return')
        if how == 'return':
            yield 'result = all callbacks applied in the order given', ex.box(st.ret) == FOLD(node, Length(cbs))


class TransformOuterC(RtContract):
    """transform(node, *callbacks): without callbacks the node itself; otherwise _transform(node, <inner callback>)"""
    fn_name = 'transform'

    def setup(self, cx, ex, st):
        st.env['node'] = Const('node', Val)
        st.env['callbacks'] = cbs
        fn = cx.fn
        cx.sig_ok = [a.arg for a in fn.args.args] == ['node'] and fn.args.vararg is not None and fn.args.vararg.arg == 'callbacks'

    def hooks(self, cx, ex):
        def def_hook(ex, s, st):
            st.env[s.name] = Opaque('inner-callback', name=s.name, as_val=Const('INNER_CALLBACK', Val))
        ex.def_hook = def_hook

        def c_transform(ex, node, st):
            args = [ex.ev(a, st) for a in node.args]
            st.ghost['delegated'] = args
            return Const('TRANSFORMED', Val)
        ex.call_hooks['_transform'] = c_transform

    def post(self, cx, ex, st, how):
        node = cx.entry_env['node']
        yield 'signature (node, *callbacks)', BoolVal(cx.sig_ok)
        yield 'returns', BoolVal(how == 'return')
        if how != 'return':
            return
        d = st.ghost.get('delegated')
        if d is None:
            yield 'no callbacks: the node itself', And(Length(cbs) == 0, ex.box(st.ret) == node)
        else:
            ok = len(d) == 2 and isinstance(d[0], z3.ExprRef) and d[0].eq(node) and isinstance(d[1], Opaque) and d[1].tag == 'inner-callback'
            yield 'with callbacks: _transform(node, <the inner callback chain>)', And(Length(cbs) > 0, BoolVal(ok))


# ------------------------------------------------------------------------------------------------ bounded stand-in
def _ref_transform(node, callbacks, PO):
    def cb(n):
        for f in callbacks:
            prev = n
            n = f(prev)
            if n is not prev and isinstance(prev, PO) and isinstance(n, PO) and not n._metadata:
                n._metadata.update(prev._metadata)
        return n

    def tr(n):
        if isinstance(n, list):
            return [tr(x) for x in n]
        if not isinstance(n, PO):
            return n
        new = {}
        for f in n._fields:
            was = getattr(n, f)
            now = tr(was)
            if now is not was:
                new[f] = now
        if new:
            n = n._replace(**new)
        return cb(n)
    return tr(node) if callbacks else node


def _bounded_transform(self, cx):
    import copy
    ns = native_namespace()
    PO = ns['ParsedObject']

    def cls(name, fields):
        def init(self, *a, **k):
            PO.__init__(self)
            for f, v in zip(fields, a):
                setattr(self, f, v)
            for f, v in k.items():
                setattr(self, f, v)
        return type(name, (PO,), {'_fields': tuple(fields), '__init__': init,
                                  '__repr__': lambda s: f'{name}({", ".join(repr(getattr(s, f)) for f in fields)})'})
    Num, Pair, Box = cls('Num', ['v']), cls('Pair', ['l', 'r']), cls('Box', ['x'])

    def mk():
        n1, n2 = Num(1), Num(2)
        n1._metadata.position_info = ('n1',); n2._metadata.position_info = ('n2',)
        p = Pair(n1, [n2, Num(3), [Num(4), (Num(5),)], {'k': Num(6)}])
        p._metadata.position_info = ('p',)
        b = Box(p); b._metadata.position_info = ('b',)
        inner = Num(7)                      # no metadata of its own
        w = Box(inner); w._metadata.position_info = ('w',)
        return [b, [b, Num(9)], Pair(w, Box(Box(Num(8)))), Num(0), [[Num(1)], [[Num(2)]]], 5, None, (Num(1),), Pair(None, None)]

    log = []
    chains = [
        [lambda n: n],
        [lambda n: (log.append(('f', id(n))), n)[1]],
        [lambda n: Num(n.v + 1) if isinstance(n, Num) and isinstance(n.v, int) else n],
        [lambda n: Num(float(n.v)) if isinstance(n, Num) and isinstance(n.v, int) else n],
        [lambda n: n.x if isinstance(n, Box) else n],
        [lambda n: n.v if isinstance(n, Num) else n, lambda n: n],
        [lambda n: [n] if isinstance(n, Num) else n],
        [lambda n: Num(n.v) if isinstance(n, Num) else n, lambda n: Box(n) if isinstance(n, Num) else n],
        # the first callback looks at what the SECOND one makes of the children: every rebuilt node must go through ALL callbacks before its parent is rebuilt
        [lambda n: n.x if isinstance(n, Box) and isinstance(n.x, int) else n, lambda n: n.v if isinstance(n, Num) else n],
        [lambda n: n.v if isinstance(n, Num) else n, lambda n: n.x if isinstance(n, Box) and isinstance(n.x, int) else n, lambda n: n],
        [lambda n: type(n)(*[getattr(n, f) for f in n._fields])],      # clones every node: equal to, but never identical with, the input
    ]

    def snap(t):
        out = []

        def rec(n, d=0):
            if isinstance(n, PO):
                out.append((d, type(n).__name__, id(n), dict(n._metadata._fields), tuple(id(getattr(n, f)) for f in n._fields)))
                for f in n._fields:
                    rec(getattr(n, f), d + 1)
            elif isinstance(n, (list, tuple)):
                out.append((d, type(n).__name__, id(n), len(n)))
                for x in n:
                    rec(x, d + 1)
            elif isinstance(n, dict):
                for x in n.values():
                    rec(x, d + 1)
        rec(t)
        return out

    def reach_ids(t):
        # parsed objects reachable through fields and lists (what transform is specified to visit)
        out = set()

        def rec(n):
            if isinstance(n, PO):
                out.add(id(n))
                for f in n._fields:
                    rec(getattr(n, f))
            elif isinstance(n, list):
                for x in n:
                    rec(x)
        rec(t)
        return out

    def shape(t):
        if isinstance(t, PO):
            return (type(t).__name__, dict(t._metadata._fields), tuple(shape(getattr(t, f)) for f in t._fields))
        if isinstance(t, list):
            return ['list'] + [shape(x) for x in t]
        if isinstance(t, tuple):
            return ('tuple',) + tuple(shape(x) for x in t)
        if isinstance(t, dict):
            return {k: shape(v) for k, v in t.items()}
        return t
    bad, tried = [], 0
    for ci, chain in enumerate(chains):
        trees_a, trees_b = mk(), mk()
        for ta, tb in zip(trees_a, trees_b):
            tried += 1
            log.clear()
            try:
                got = ns['transform'](ta, *chain)
            except Exception as e:
                bad.append({'tree': repr(ta)[:100], 'chain': ci, 'raised': repr(e)})
                continue
            glog = list(log)
            log.clear()
            want = _ref_transform(tb, chain, PO)
            if shape(got) != shape(want) or len(glog) != len(log):
                bad.append({'tree': repr(tb)[:100], 'chain': ci, 'got': repr(shape(got))[:200], 'want': repr(shape(want))[:200],
                            'callback_calls': (len(glog), len(log))})
            elif ci == len(chains) - 1 and reach_ids(got) & reach_ids(ta):
                bad.append({'tree': repr(tb)[:100], 'chain': ci, 'what': 'a callback replaced every node by a clone, but the result still contains nodes of the input tree (parent not rebuilt around an equal replacement)'})
            elif ci != 4 and shape(ta) != shape(tb):
                # chain 4 returns an existing child: the reference (== the documented algorithm) writes metadata into it as well
                bad.append({'tree': repr(tb)[:100], 'chain': ci, 'what': 'input tree differs after transform'})
            elif ci != 4:
                # the metadata a replacement inherits is a COPY: tagging the new nodes afterwards must not show in the input tree
                before = reach_ids(ta)

                def tag(n):
                    if isinstance(n, PO):
                        if id(n) not in before:
                            n._metadata.probe = 'tagged'
                        for f in n._fields:
                            tag(getattr(n, f))
                    elif isinstance(n, list):
                        for x in n:
                            tag(x)
                tag(got)
                if shape(ta) != shape(tb):
                    bad.append({'tree': repr(tb)[:100], 'chain': ci, 'what': 'tagging the metadata of a NEW node of the result changed the input tree (metadata object shared, not copied)'})
    return bad, tried, 'fixed family: 9 trees (nested lists, tuples, dicts, shared nodes, metadata-less nodes) x 11 callback chains, against a reference implementation of the documented algorithm'


TransformInnerC.bounded = _bounded_transform
CallbackChainC.bounded = _bounded_transform
TransformOuterC.bounded = _bounded_transform
TRANSFORM = [TransformInnerC(), CallbackChainC(), TransformOuterC()]
