"""Arbitrary arity for Choice (and closure checks for Seq / class bodies): segment induction.

The text emitted for Choice(e1..en) is  HEAD ; SEG(e1) ; ... ; SEG(en) ; TAIL  inside one breakable block.  Obligations:
  head      HEAD establishes the cut-point invariant J
  middle    {J} SEG(e) {leaves the block with the success post of e  |  J and e failed at p0}      for every segment shape
  last      {J} SEG(e_last) ; TAIL {success post of e_last | the failure post of the whole choice}
  closure   every segment of every choice of arity 5 (all flag combinations) is, up to the numbering of children, one of the
            proved shapes, and HEAD / TAIL are the proved ones
J does not mention the number of earlier options, only a ghost summary: all earlier options failed at p0 (so the option that
succeeds now IS the first match), `_pos = p0`, the error bookkeeping variables are well-formed, and farthest_pos = p0 unless an
earlier option can partially succeed.  By induction over the segments the C01 contract of Choice holds for EVERY arity."""
import ast
import itertools
import re
import z3
from z3 import And, Or, Not, Implies, If, IntVal, BoolVal, Const

from pyvc import frag
from pyvc.frag import ex as X, Stub, FLAGS
from pyvc.fragver import Child, Cx, install_hooks, reach, RHO0
from pyvc.symx import Exec, St, VC, Val, I, B, is_err, OutOfSubset
from pyvc.solve import discharge
from .core import NAME2FLAGS

KINDS = ('AS', 'NP', 'PS', 'FAIL')


def mk(kind, k):
    return X.Fail() if kind == 'FAIL' else Stub(k, *NAME2FLAGS[kind])


def split_choice(src):
    """-> (head stmts, [segment stmts per emitted option], tail stmts) of an emitted Choice fragment"""
    tree = ast.parse(src)
    loop_ix = next(i for i, s in enumerate(tree.body) if isinstance(s, ast.While))
    head = tree.body[:loop_ix]
    body = tree.body[loop_ix].body
    starts = [i for i, s in enumerate(body) if _is_option_start(s)]
    segs = []
    for a, b in zip(starts, starts[1:] + [None]):
        segs.append(body[a:b])
    # the tail belongs to the last chunk: [_pos = <farthest>; _result = <err>]; break
    last = segs[-1]
    cut = len(last)
    while cut > 0 and _is_tail_stmt(last[cut - 1]):
        cut -= 1
    # a segment always starts with its attempt and may end with `break` of its own (always-succeeding option); keep at least the attempt
    cut = max(cut, 1)
    if len(last) > cut and isinstance(last[cut - 1], ast.Assign) is False:
        pass
    tail = last[cut:]
    segs[-1] = last[:cut]
    return tree, head, segs, tail


def _is_option_start(s):
    t = ast.unparse(s)
    # an abstract option starts with its marker; the real Fail() option starts with `_result = _raise_errorN`
    return isinstance(s, ast.Assign) and ('_CHILD_' in t or re.fullmatch(r'_result = _raise_error\d+', t) is not None)


def _is_tail_stmt(s):
    t = ast.unparse(s)
    return isinstance(s, ast.Break) or re.fullmatch(r'_pos = farthest_pos\d+', t) is not None or re.fullmatch(r'_result = farthest_err\d+', t) is not None


def norm(stmts):
    """segment text up to the numbering of children, temporaries and error functions"""
    t = '\n'.join(ast.unparse(s) for s in stmts)
    t = re.sub(r'_CHILD_\d+', '_CHILD_k', t)
    t = re.sub(r'_raise_error\d+', '_raise_errorN', t)
    return t


class ChoiceSegments:
    """runs the obligations; results are plain (name, ok, detail) triples + SMT verdict dicts"""

    def roles(self, head):
        names = {}
        for s in head:
            if isinstance(s, ast.Assign):
                t = ast.unparse(s)
                for tg in s.targets:
                    if isinstance(tg, ast.Name):
                        if tg.id.startswith('farthest_err') or '_raise_error' in ast.unparse(s.value) and 'err' not in names:
                            if '_raise_error' in ast.unparse(s.value):
                                names['err'] = tg.id
                # chained `backtrack = farthest_pos = _pos`
                if ast.unparse(s.value) == '_pos':
                    tgs = [tg.id for tg in s.targets if isinstance(tg, ast.Name)]
                    for nm in tgs:
                        names['backtrack' if nm.startswith('backtrack') else 'fpos'] = nm
        return names

    def build(self, kinds):
        nodes = [mk(k, i + 1) for i, k in enumerate(kinds)]
        node = X.Choice(*nodes)
        return node, frag.emit(node, False)

    def run(self, rep, tier, unit='segments:Choice'):
        proved_mid, proved_last = {}, {}
        shapes = 0
        # environments of a segment: does an earlier / later option partially succeed (controls needs_backtrack), does the choice need errors
        for cur in KINDS:
            for prev in ('NP', 'PS'):                      # an earlier option exists and failed (AS earlier options end the emission)
                for nxt in KINDS:                           # middle segment: followed by another option
                    kinds = [prev, cur, nxt]
                    ok, key, detail = self.segment(kinds, 1, last=False)
                    if key is not None:
                        proved_mid.setdefault(key, []).append((kinds, ok))
                    rep.add(unit, f'middle segment {cur} (after {prev}, before {nxt}): leaves with its success post or re-establishes J', 'smt', ok, detail=detail)
                    shapes += 1
                kinds = [prev, cur]
                ok, key, detail = self.segment(kinds, 1, last=True)
                if key is not None:
                    proved_last.setdefault(key, []).append((kinds, ok))
                rep.add(unit, f'last segment {cur} (after {prev}) + tail: success post of the option or the failure post of the whole choice', 'smt', ok, detail=detail)
            # first segment (J established by HEAD) in first position, for both later kinds
            for nxt in ('NP', 'PS', 'AS'):
                kinds = [cur, nxt]
                ok, key, detail = self.segment(kinds, 0, last=False)
                if key is not None:
                    proved_mid.setdefault(key, []).append((kinds, ok))
                rep.add(unit, f'first segment {cur} (before {nxt}): as a middle segment from the state HEAD establishes', 'smt', ok, detail=detail)
        # closure at arity 5 (quick: sampled; thorough: all 4^5) and at arity 7 (sampled)
        good_mid = {k for k, v in proved_mid.items() if all(o for _, o in v)}
        good_last = {k for k, v in proved_last.items() if all(o for _, o in v)}
        combos = list(itertools.product(KINDS, repeat=5))
        if tier == 'quick':
            combos = combos[::7]
        # longer choices: options that can fail everywhere (an always-succeeding option ends the emission), any kind last
        long7 = list(itertools.product(('NP', 'PS', 'FAIL'), repeat=6))
        combos += [t + (KINDS[i % 4],) for i, t in enumerate(long7[::(23 if tier == 'quick' else 3)])]
        combos += [tuple(('NP', 'PS', 'FAIL')[(i * j + i // 3) % 3] for i in range(12)) + (KINDS[j % 4],) for j in range(1, 9)]        # arity 13
        bad = []
        for kinds in combos:
            node, src = self.build(list(kinds))
            tree, head, segs, tail = split_choice(src)
            for i, sg in enumerate(segs):
                is_last = i == len(segs) - 1
                nb = any(k == 'PS' or k == 'FAIL' for k in kinds)          # needs_backtrack is global: part of the shape key through the restore statement
                key = (kinds[i], norm(sg), norm(tail) if is_last else None)
                if (is_last and key not in good_last) or (not is_last and (kinds[i], norm(sg), None) not in good_mid):
                    bad.append({'kinds': kinds, 'segment': i, 'text': norm(sg), 'last': is_last})
                    break
        rep.add(unit, f'closure: every segment of {len(combos)} choices of arity 5 and 7 is one of the proved shapes (up to numbering)'.replace('arity 5 and 7', 'arity 5, 7 and 13'), 'case_complete', not bad, detail={'unmatched': bad[:3]})

    def segment(self, kinds, idx, last):
        """the Hoare triple of segment `idx` of Choice(kinds), started from an ARBITRARY state satisfying J"""
        node, src = self.build(kinds)
        try:
            tree, head, segs, tail = split_choice(src)
        except Exception as e:
            return False, None, {'error': repr(e), 'src': src}
        if idx >= len(segs):
            # an earlier always-succeeding option ended the emission: this position does not exist (dead), nothing to prove
            return True, None, {'note': 'not emitted (an earlier option always succeeds)'}
        seg = segs[idx]
        stmts = seg + (tail if last or idx == len(segs) - 1 else [])
        is_last = last or idx == len(segs) - 1
        roles = self.roles(head)
        kids = [Child(i + 1, *NAME2FLAGS[k]) for i, k in enumerate(kinds) if k != 'FAIL']
        cx = Cx(None, {}, node, kids, False)
        cx.src, cx.tree = src, tree
        ex = Exec(ast.Module(body=stmts, type_ignores=[]))
        cx.ex = ex
        install_hooks(ex, cx)
        p0, N = cx.p0, cx.N
        needs_err = 'err' in roles
        FP, FE = Const('FP', I), Const('FE', Val)
        seen_cps = Const('seen_cps', B)            # ghost: some earlier option can partially succeed
        env = {'_pos': p0, '_text': cx.text, '_status': Const('status_in', B), '_result': Const('result_in', Val)}
        pc = [N >= 0, 0 <= p0, p0 <= N, reach(p0)]
        if 'backtrack' in roles:
            env[roles['backtrack']] = p0
        if needs_err:
            env[roles['fpos']] = FP
            env[roles['err']] = FE
            pc += [0 <= FP, FP <= N, reach(FP), is_err(FE), Implies(Not(seen_cps), FP == p0)]
        if idx == 0:
            # J as established by HEAD: checked separately by executing HEAD
            hv = self.head_ok(head, cx, roles, needs_err)
            if not hv:
                return False, None, {'error': 'HEAD does not establish J', 'src': src}
            pc += [Not(seen_cps)] + ([FP == p0] if needs_err else [])
        st = St(env=env, pc=pc)
        cur_kind = kinds[idx]
        c = cx.kids.get(idx + 1)
        okc = c.ok(p0, RHO0) if c is not None else BoolVal(False)
        try:
            outs = ex.block(stmts, st)
        except OutOfSubset as e:
            return False, None, {'error': f'out of subset: {e}', 'src': src}
        vcs = list(ex.vcs)
        cps_now = Or(seen_cps, BoolVal(cur_kind in ('PS', 'FAIL')))
        for kind_, q in outs:
            e_ = q.env
            status, result, pos = ex.truth(e_['_status'], q), ex.box(e_['_result']), e_['_pos']
            if kind_ == 'break':
                succ = And(okc, status, result == (c.val(p0, RHO0) if c is not None else result), pos == (c.end(p0, RHO0) if c is not None else pos))
                if is_last:
                    fail = And(Not(okc), Not(status), is_err(result), reach(pos), 0 <= pos, pos <= N, Implies(Not(cps_now), pos == p0)) if needs_err else BoolVal(False)
                    vcs.append(VC('last: success post of the option, or failure post of the choice', q.pc, Or(succ, fail), 'post', path=list(q.trace)))
                else:
                    vcs.append(VC('middle: leaving the block means this option matched at p0 (first match, by J)', q.pc, succ, 'post', path=list(q.trace)))
            elif kind_ == 'fall':
                if is_last:
                    vcs.append(VC('last: the block is always left by break', q.pc, BoolVal(False), 'post', path=list(q.trace)))
                    continue
                j2 = [Not(okc), Not(status), pos == p0]
                if 'backtrack' in roles:
                    j2.append(e_[roles['backtrack']] == p0)
                if needs_err:
                    fp2, fe2 = e_[roles['fpos']], e_[roles['err']]
                    j2 += [0 <= fp2, fp2 <= N, reach(fp2), is_err(ex.box(fe2)), Implies(Not(cps_now), fp2 == p0)]
                vcs.append(VC('middle: falling through re-establishes J with this option failed at p0', q.pc, And(*j2), 'post', path=list(q.trace)))
            else:
                vcs.append(VC(f'segment leaves by {kind_}', q.pc, BoolVal(False), 'post'))
        ok = True
        detail = None
        for vc in vcs:
            v = discharge(vc, ex.axioms)
            if v.status != 'unsat':
                ok = False
                detail = {'vc': vc.name, 'verdict': v.status, 'kinds': kinds, 'src': src, 'model': str(v.model)[:600]}
                break
        key = (kinds[idx], norm(seg), norm(tail) if is_last else None)      # a shape is proved FOR a kind of child (its flags)
        return ok, key, detail

    def head_ok(self, head, cx, roles, needs_err):
        ex = Exec(ast.Module(body=head, type_ignores=[]))
        install_hooks(ex, cx)
        st = St(env={'_pos': cx.p0, '_text': cx.text}, pc=[cx.N >= 0, 0 <= cx.p0, cx.p0 <= cx.N, reach(cx.p0)])
        outs = ex.block(head, st)
        if len(outs) != 1 or outs[0][0] != 'fall':
            return False
        e_ = outs[0][1].env
        goal = [e_['_pos'] == cx.p0]
        if 'backtrack' in roles:
            goal.append(e_[roles['backtrack']] == cx.p0)
        if needs_err:
            goal += [e_[roles['fpos']] == cx.p0, is_err(ex.box(e_[roles['err']]))]
        v = discharge(VC('head', outs[0][1].pc, And(*goal), 'post'), ex.axioms)
        return v.status == 'unsat'


def _seq_segs(src):
    tree = ast.parse(src)
    loop = next(s for s in tree.body if isinstance(s, ast.While))
    body = loop.body
    starts = [i for i, s in enumerate(body) if '_CHILD_' in ast.unparse(s) and isinstance(s, ast.Assign)]
    out = []
    for a, b in zip(starts, starts[1:] + [None]):
        out.append(body[a:b])
    return tree, body, out


def _seq_segment_triple(kinds, idx):
    """{J} SEG(e) {break: e failed at P, the registers hold ITS failure (status false, its error, its failure position)  |
                   fall : e succeeded at P, item_k = its value, _pos = its end, status true}
    from an ARBITRARY state with _pos = P (J: all earlier items succeeded in a chain that ends at P; their item variables are not
    touched - frame, checked syntactically by the closure)"""
    node = X.Seq(*[Stub(i + 1, *NAME2FLAGS[k]) for i, k in enumerate(kinds)])
    src = frag.emit(node, False)
    tree, body, segs = _seq_segs(src)
    seg = segs[idx]
    last = idx == len(segs) - 1
    stmts = [x for x in seg if not (last and (isinstance(x, ast.Break) or ast.unparse(x).startswith('_result = [')))]
    kids = [Child(i + 1, *NAME2FLAGS[k]) for i, k in enumerate(kinds)]
    cx = Cx(None, {}, node, kids, False)
    cx.src, cx.tree = src, tree
    ex = Exec(ast.Module(body=stmts, type_ignores=[]))
    cx.ex = ex
    install_hooks(ex, cx)
    P, N = Const('P', I), cx.N
    st = St(env={'_pos': P, '_text': cx.text, '_status': Const('status_in', B), '_result': Const('result_in', Val)},
            pc=[N >= 0, 0 <= P, P <= N, reach(P)])
    c = cx.kids[idx + 1]
    key = (kinds[idx], re.sub(r'item\d+', 'itemK', norm(stmts)))
    m = re.search(r'(item\d+) = _result', norm(stmts))
    if m is None:
        return False, key, {'error': 'segment does not store its item', 'src': src}
    item = m.group(1)
    try:
        outs = ex.block(stmts, st)
    except OutOfSubset as e:
        return False, key, {'error': f'out of subset: {e}', 'src': src}
    vcs = list(ex.vcs)
    ok = c.ok(P, RHO0)
    for kind_, q in outs:
        e_ = q.env
        status, result, pos = ex.truth(e_['_status'], q), ex.box(e_['_result']), e_['_pos']
        if kind_ == 'break':
            vcs.append(VC('break: the item failed at P and the registers hold its failure', q.pc,
                          And(Not(ok), Not(status), result == c.err(P, RHO0), pos == c.fpos(P, RHO0)), 'post', path=list(q.trace)))
        elif kind_ == 'fall':
            vcs.append(VC('fall through: the item succeeded at P, its value is stored, _pos is its end, status is true', q.pc,
                          And(ok, status, ex.box(e_[item]) == c.val(P, RHO0), pos == c.end(P, RHO0), 0 <= pos, pos <= N, reach(pos)), 'post', path=list(q.trace)))
        else:
            vcs.append(VC(f'segment leaves by {kind_}', q.pc, BoolVal(False), 'post'))
    if not outs:
        return False, key, {'error': 'no path', 'src': src}
    for vc in vcs:
        v = discharge(vc, ex.axioms)
        if v.status != 'unsat':
            return False, key, {'vc': vc.name, 'verdict': v.status, 'kinds': kinds, 'src': src, 'model': str(v.model)[:500]}
    return True, key, None


def seq_closure(rep, tier, unit='segments:Seq'):
    """Seq for EVERY arity: (a) every segment shape is a Hoare triple from an arbitrary chain position P, keyed by the kind of its child;
    (b) closure at arity 5, 6, 8: every segment is (kind, text) one of the proved shapes, each item variable is assigned exactly once
    (in its own segment - the frame of the earlier items) and the final display lists the item variables of the segments in order -
    so by induction over the segments the registers hold the first failure, or [v1..vn] at the end of the chain with status true"""
    good = set()
    for cur in ('AS', 'NP', 'PS'):
        for prev in ('AS', 'NP'):
            for kinds, idx in (([prev, cur, 'NP'], 1), ([prev, cur], 1), ([cur, 'NP'], 0), ([cur], 0)):
                okk, key, detail = _seq_segment_triple(kinds, idx)
                rep.add(unit, f'segment {cur} at position {idx} of {"/".join(kinds)}: the item\'s failure, or its value stored and the chain extended', 'smt', okk, detail=detail)
                if okk:
                    good.add(key)
    bad = []
    checked = 0
    kind_of = {f: k for k, f in NAME2FLAGS.items()}
    for n in (5, 6, 8):
        combos = list(itertools.product(FLAGS, repeat=n))
        step = max(1, len(combos) // (40 if tier == 'quick' else 400))
        for fl in combos[::step]:
            checked += 1
            src = frag.emit(X.Seq(*[Stub(i + 1, *f) for i, f in enumerate(fl)]), False)
            tree, body, sg = _seq_segs(src)
            items = []
            if len(sg) != n:
                bad.append({'flags': fl, 'error': 'one segment per item expected'})
                continue
            for i, s_ in enumerate(sg):
                text = norm(s_ if i < len(sg) - 1 else [x for x in s_ if not isinstance(x, ast.Break) and not ast.unparse(x).startswith('_result = [')])
                if (kind_of[tuple(fl[i])], re.sub(r'item\d+', 'itemK', text)) not in good:
                    bad.append({'flags': fl, 'segment': i, 'text': text})
                m = re.search(r'(item\d+) = _result', text)
                items.append(m.group(1) if m else None)
            disp = next((ast.unparse(x.value) for x in sg[-1] if ast.unparse(x).startswith('_result = [')), None)
            stores = [t.id for x in ast.walk(tree) if isinstance(x, ast.Assign) for t in x.targets if isinstance(t, ast.Name) and t.id.startswith('item')]
            if disp != '[' + ', '.join(map(str, items)) + ']' or len(set(items)) != n or sorted(stores) != sorted(items) or not isinstance(sg[-1][-1], ast.Break):
                bad.append({'flags': fl, 'display': disp, 'items': items})
    rep.add(unit, f'closure: {checked} sequences of arity 5, 6, 8: segments are proved (kind, shape) pairs, item variables are assigned once, distinct, and listed in order by the final display',
            'case_complete', not bad, detail={'unmatched': bad[:3]})


# ------------------------------------------------------------------------------------------------ Longest
def split_longest(src):
    tree = ast.parse(src)
    body = tree.body
    marks = [i for i, s in enumerate(body) if _is_option_start(s)]
    # option i > 0 starts at the `_pos = backtrackN` right before its attempt
    starts = []
    for n, i in enumerate(marks):
        if n > 0 and i > 0 and re.fullmatch(r'_pos = backtrack\d+', ast.unparse(body[i - 1])):
            starts.append(i - 1)
        else:
            starts.append(i)
    tail_ix = max(i for i, s in enumerate(body) if isinstance(s, ast.If) and ast.unparse(s.test).startswith('has_result'))
    head = body[:starts[0]]
    segs = [body[a:b] for a, b in zip(starts, starts[1:] + [tail_ix])]
    return tree, head, segs, body[tail_ix:]


class LongestSegments(ChoiceSegments):
    """Longest(e1..en), n >= 2: same scheme as Choice.  Ghost W = (W_ok, W_val, W_end): the winner among the earlier options
    (largest end, first on ties).  J: backtrack = p0, has_result = W_ok, (W_ok => farthest_result = W_val and farthest_position = W_end),
    error bookkeeping well-formed, not W_ok after at least one option => status is false."""

    def build(self, kinds):
        nodes = [mk(k, i + 1) for i, k in enumerate(kinds)]
        node = X.Longest(*nodes)
        return node, frag.emit(node, False)

    def lroles(self, head, tree=None):
        r = {}
        nodes = list(head) + ([tree] if tree is not None else [])
        for s in nodes:
            for tg in ast.walk(s):
                if isinstance(tg, ast.Name) and isinstance(tg.ctx, ast.Store):
                    for key in ('has_result', 'farthest_error_result', 'farthest_error_position', 'farthest_result', 'farthest_position', 'backtrack'):
                        if re.fullmatch(key + r'\d+', tg.id):
                            r[key] = tg.id
        return r

    def run(self, rep, tier, unit='segments:Longest'):
        proved = {}
        for cur in KINDS:
            for prev in ('AS', 'NP', 'PS'):
                for nxt in ('NP', None):
                    kinds = [prev, cur] + ([nxt] if nxt else [])
                    ok, key, detail = self.lsegment(kinds, 1)
                    if key is not None:
                        proved.setdefault(key, []).append(ok)
                    rep.add(unit, f'segment {cur} (after {prev}{", last" if nxt is None else ""}): re-establishes J with the winner updated', 'smt', ok, detail=detail)
            for nxt in ('NP', 'PS', 'AS'):
                ok, key, detail = self.lsegment([cur, nxt], 0)
                if key is not None:
                    proved.setdefault(('first',) + key, []).append(ok)
                rep.add(unit, f'first segment {cur} (before {nxt}): establishes J from the state HEAD establishes', 'smt', ok, detail=detail)
        for needs_err in (False, True):
            ok, detail = self.ltail(['NP', 'NP'] if needs_err else ['AS', 'NP'])
            rep.add(unit, f'tail ({"can fail" if needs_err else "cannot fail"}): J gives the outcome of the winner, or the failure post', 'smt', ok, detail=detail)
        good = {k for k, v in proved.items() if all(v)}
        combos = list(itertools.product(KINDS, repeat=5))[::(9 if tier == 'quick' else 1)]
        combos += [tuple(KINDS[(i * j + i // 2) % 4] for i in range(9)) for j in range(1, 12)]
        bad = []
        for kinds in combos:
            if kinds[0] == 'FAIL' and False:
                continue
            node, src = self.build(list(kinds))
            tree, head, segs, tail = split_longest(src)
            ne = 'farthest_error_result' in self.lroles(head, tree)
            for i, sg in enumerate(segs):
                key = (kinds[i], norm(sg), ne)
                if (i == 0 and ('first',) + key not in good) or (i > 0 and key not in good):
                    bad.append({'kinds': kinds, 'segment': i, 'text': norm(sg)})
                    break
        rep.add(unit, f'closure: every segment of {len(combos)} Longest expressions of arity 5 and 9 is one of the proved shapes', 'case_complete', not bad, detail={'unmatched': bad[:3]})

    def jstate(self, cx, roles, needs_err, first):
        p0, N = cx.p0, cx.N
        W_ok, W_val, W_end = Const('W_ok', B), Const('W_val', Val), Const('W_end', I)
        seen_cps = Const('seen_cps', B)
        env = {'_pos': Const('pos_in', I), '_text': cx.text, '_status': Const('status_in', B), '_result': Const('result_in', Val),
               roles['backtrack']: p0, roles['has_result']: W_ok, roles['farthest_result']: If(W_ok, W_val, Const('stale_result', Val)),
               roles['farthest_position']: If(W_ok, W_end, Const('stale_position', I))}
        pc = [N >= 0, 0 <= p0, p0 <= N, reach(p0), Implies(W_ok, And(0 <= W_end, W_end <= N)), 0 <= env['_pos'], env['_pos'] <= N]
        if needs_err:
            FEP, FER = Const('FEP', I), Const('FER', Val)
            env[roles['farthest_error_position']] = FEP
            env[roles['farthest_error_result']] = FER
            pc += [0 <= FEP, FEP <= N, reach(FEP), is_err(FER), Implies(Not(seen_cps), FEP == p0)]
        if not first:
            pc += [Implies(Not(W_ok), Not(env['_status']))]
        return env, pc, (W_ok, W_val, W_end, seen_cps)

    def jcheck(self, ex, cx, roles, needs_err, e_, W2, seen2, status):
        p0, N = cx.p0, cx.N
        W_ok2, W_val2, W_end2 = W2
        goal = [e_[roles['backtrack']] == p0, ex.truth(e_[roles['has_result']], None) == W_ok2,
                Implies(W_ok2, And(ex.box(e_.get(roles['farthest_result'], Const('unbound_result', Val))) == W_val2,
                                   e_.get(roles['farthest_position'], Const('unbound_position', I)) == W_end2, 0 <= W_end2, W_end2 <= N)),
                Implies(Not(W_ok2), Not(status))]
        if needs_err:
            fep, fer = e_[roles['farthest_error_position']], e_[roles['farthest_error_result']]
            goal += [0 <= fep, fep <= N, reach(fep), is_err(ex.box(fer)), Implies(Not(seen2), fep == p0)]
        return And(*goal)

    def lsegment(self, kinds, idx):
        node, src = self.build(kinds)
        try:
            tree, head, segs, tail = split_longest(src)
        except Exception as e:
            return False, None, {'error': repr(e), 'src': src}
        roles = self.lroles(head, tree)
        needs_err = 'farthest_error_result' in roles
        seg = segs[idx]
        kids = [Child(i + 1, *NAME2FLAGS[k]) for i, k in enumerate(kinds) if k != 'FAIL']
        cx = Cx(None, {}, node, kids, False)
        cx.src, cx.tree = src, tree
        stmts = (head + seg) if idx == 0 else seg
        ex = Exec(ast.Module(body=stmts, type_ignores=[]))
        cx.ex = ex
        install_hooks(ex, cx)
        p0, N = cx.p0, cx.N
        if idx == 0:
            st = St(env={'_pos': p0, '_text': cx.text, '_status': Const('status_in', B), '_result': Const('result_in', Val)}, pc=[N >= 0, 0 <= p0, p0 <= N, reach(p0)])
            W_ok, W_val, W_end, seen_cps = BoolVal(False), Const('W_val', Val), Const('W_end', I), BoolVal(False)
        else:
            env, pc, (W_ok, W_val, W_end, seen_cps) = self.jstate(cx, roles, needs_err, first=False)
            st = St(env=env, pc=pc)
        c = cx.kids.get(idx + 1)
        okc = c.ok(p0, RHO0) if c is not None else BoolVal(False)
        try:
            outs = ex.block(stmts, st)
        except OutOfSubset as e:
            return False, None, {'error': f'out of subset: {e}', 'src': src}
        vcs = list(ex.vcs)
        better = And(okc, Or(Not(W_ok), W_end < c.end(p0, RHO0))) if c is not None else BoolVal(False)
        W2 = (Or(W_ok, okc), If(better, c.val(p0, RHO0), W_val) if c is not None else W_val, If(better, c.end(p0, RHO0), W_end) if c is not None else W_end)
        seen2 = Or(seen_cps, BoolVal(kinds[idx] in ('PS', 'FAIL')))
        for kind_, q in outs:
            if kind_ != 'fall':
                vcs.append(VC(f'segment leaves by {kind_}', q.pc, BoolVal(False), 'post'))
                continue
            status = ex.truth(q.env['_status'], q)
            vcs.append(VC('segment re-establishes J with the winner updated (larger end wins, first on ties)', q.pc,
                          self.jcheck(ex, cx, roles, needs_err, q.env, W2, seen2, status), 'post', path=list(q.trace)))
        for vc in vcs:
            v = discharge(vc, ex.axioms)
            if v.status != 'unsat':
                return False, (kinds[idx], norm(seg), needs_err), {'vc': vc.name, 'verdict': v.status, 'kinds': kinds, 'src': src, 'model': str(v.model)[:500]}
        return True, (kinds[idx], norm(seg), needs_err), None

    def ltail(self, kinds):
        node, src = self.build(kinds)
        tree, head, segs, tail = split_longest(src)
        roles = self.lroles(head, tree)
        needs_err = 'farthest_error_result' in roles
        cx = Cx(None, {}, node, [], False)
        ex = Exec(ast.Module(body=tail, type_ignores=[]))
        install_hooks(ex, cx)
        env, pc, (W_ok, W_val, W_end, seen_cps) = self.jstate(cx, roles, needs_err, first=False)
        if not needs_err:
            pc.append(W_ok)          # some option always succeeds
        outs = ex.block(tail, St(env=env, pc=pc))
        for kind_, q in outs:
            e_ = q.env
            status, result, pos = ex.truth(e_['_status'], q), ex.box(e_['_result']), e_['_pos']
            succ = And(W_ok, status, result == W_val, pos == W_end)
            fail = And(Not(W_ok), Not(status), is_err(result), reach(pos), 0 <= pos, pos <= cx.N, Implies(Not(seen_cps), pos == cx.p0)) if needs_err else BoolVal(False)
            v = discharge(VC('tail', q.pc, Or(succ, fail), 'post'), ex.axioms)
            if kind_ != 'fall' or v.status != 'unsat':
                return False, {'verdict': v.status, 'src': src, 'model': str(v.model)[:400]}
        return True, None


def class_body_closure(rep, tier, unit='segments:class-body'):
    """class bodies with 5..8 members (plain / let / pass in every mix): every member segment is, up to numbering, a segment shape of the
    bodies proved outright (<= 3 members), every name is assigned exactly once in its own segment, the constructor call lists exactly
    the plain fields in declaration order, and the span store follows it"""
    def build(shape, flags):
        names = [f'm{i + 1}' if k in 'fl' else None for i, k in enumerate(shape)]
        fields = [f'm{i + 1}' for i, k in enumerate(shape) if k == 'f']
        node = X.Seq(*[Stub(i + 1, *f) for i, f in enumerate(flags)], names=names, constructor='Foo', constructor_args=fields)
        return frag.emit(node, False), names, fields

    def segs_of(src):
        tree = ast.parse(src)
        loop = next(s for s in tree.body if isinstance(s, ast.While))
        body = loop.body
        starts = [i for i, s in enumerate(body) if '_CHILD_' in ast.unparse(s) and isinstance(s, ast.Assign)]
        return tree, [body[a:b] for a, b in zip(starts, starts[1:] + [None])]

    def nrm(stmts):
        return re.sub(r'\bm\d+\b', 'mK', re.sub(r'item\d+', 'itemK', norm(stmts)))
    known = set()
    for n in (1, 2, 3):
        for shape in itertools.product('flp', repeat=n):
            for fl in itertools.product(FLAGS, repeat=n):
                src, names, fields = build(shape, fl)
                tree, sg = segs_of(src)
                for i_, s in enumerate(sg[:-1]):
                    known.add((tuple(fl[i_]), nrm(s)))          # a shape is known FOR the flags of its member
                last = [x for x in sg[-1] if not isinstance(x, ast.Break) and not ast.unparse(x).startswith(('_result = Foo(', '_result._metadata'))]
                known.add((tuple(fl[len(sg) - 1]), nrm(last)))
    bad, checked = [], 0
    import random
    rnd = random.Random(5)
    for n in (5, 6, 8):
        for _ in range(25 if tier == 'quick' else 250):
            shape = [rnd.choice('flp') for _ in range(n)]
            fl = [rnd.choice(FLAGS) for _ in range(n)]
            checked += 1
            src, names, fields = build(shape, fl)
            tree, sg = segs_of(src)
            assigned = []
            for i, s in enumerate(sg):
                core_ = s if i < len(sg) - 1 else [x for x in s if not isinstance(x, ast.Break) and not ast.unparse(x).startswith(('_result = Foo(', '_result._metadata'))]
                if (tuple(fl[i]), nrm(core_)) not in known:
                    bad.append({'shape': ''.join(shape), 'segment': i, 'text': norm(core_)})
                m = re.search(r'\b(m\d+) = _result', norm(core_))
                assigned.append(m.group(1) if m else None)
            ctor = next((ast.unparse(x.value) for x in sg[-1] if ast.unparse(x).startswith('_result = Foo(')), None)
            tail_ok = [ast.unparse(x) for x in sg[-1]][-3:-1] == [f'_result = Foo({", ".join(fields)})', ast.unparse(sg[-1][-2])] and \
                ast.unparse(sg[-1][-2]).startswith('_result._metadata.position_info = (start_pos') and isinstance(sg[-1][-1], ast.Break)
            if assigned != names or ctor != f'Foo({", ".join(fields)})' or not tail_ok:
                bad.append({'shape': ''.join(shape), 'assigned': assigned, 'names': names, 'ctor': ctor})
    rep.add(unit, f'closure: {checked} class bodies with 5, 6, 8 members: member segments are proved shapes, names assigned once in order, constructor lists the plain fields in order, then the span store',
            'case_complete', not bad, detail={'unmatched': bad[:3]})


# ---------------------------------------------------------------------------------------------- Skip, every arity
class SkipSegments:
    """Skip(e1..en) for EVERY n.  The emitted text is  while True: HEAD ; SEG(e1) ; ... ; SEG(en) ; break   then TAIL.
    Per iteration, from an arbitrary state satisfying the cut-point invariant
        J:  _pos == cp == checkpoint  and (ghost) none of the earlier items progresses at cp
    every segment shape (always-succeeding / non-partial / partial item) is a Hoare triple
        {J} SEG(e) {continue with _pos = end_e(cp) and e progresses at cp   |   fall through with J and e not progressing at cp}
    and the last segment followed by `break` leaves the loop with _pos == cp and e not progressing.  So one iteration either takes
    the FIRST progressing item (one step of the chain of the Skip contract) or finds the position stuck - for any number of items;
    the loop invariant (chain) and the post (stuck, result None, status True) are those of SkipC.  Closure: every segment of sampled
    Skips of arity 4, 5 and 9 is one of the proved shapes, HEAD is the checkpoint assignment and the loop ends with `break`."""
    KINDS = ('AS', 'NP', 'PS')

    def build(self, kinds):
        nodes = [Stub(i + 1, *NAME2FLAGS[k]) for i, k in enumerate(kinds)]
        node = X.Skip(*nodes)
        return node, frag.emit(node, False)

    def split(self, src):
        tree = ast.parse(src)
        loops = [s for s in tree.body if isinstance(s, ast.While)]
        if len(loops) != 1 or not (isinstance(loops[0].test, ast.Constant) and loops[0].test.value is True):
            raise ValueError('Skip is not one `while True` block')
        body = loops[0].body
        starts = [i for i, s in enumerate(body) if isinstance(s, ast.Assign) and '_CHILD_' in ast.unparse(s)]
        if not starts:
            raise ValueError('no item attempt')
        head = body[:starts[0]]
        segs = [body[a:b] for a, b in zip(starts, starts[1:] + [len(body)])]
        # the loop ends with `break`, which belongs to no item
        if not isinstance(segs[-1][-1], ast.Break):
            raise ValueError('loop body does not end with break')
        segs[-1] = segs[-1][:-1]
        ix = tree.body.index(loops[0])
        return tree, tree.body[:ix], head, segs, tree.body[ix + 1:]

    @staticmethod
    def progresses(c, q):
        ok = c.ok(q, RHO0)
        return And(ok, c.end(q, RHO0) != q) if c.a_s else ok

    def segment(self, kinds, idx, last):
        node, src = self.build(kinds)
        try:
            tree, pre, head, segs, tail = self.split(src)
        except Exception as e:
            return False, None, {'error': repr(e), 'src': src}
        if len(head) != 1 or not (isinstance(head[0], ast.Assign) and ast.unparse(head[0].value) == '_pos' and isinstance(head[0].targets[0], ast.Name)):
            return False, None, {'error': 'HEAD is not `checkpoint = _pos`', 'src': src}
        cpname = head[0].targets[0].id
        seg = segs[idx]
        stmts = list(seg) + ([ast.Break()] if last else [])
        kids = [Child(i + 1, *NAME2FLAGS[k]) for i, k in enumerate(kinds)]
        cx = Cx(None, {}, node, kids, False)
        cx.src, cx.tree = src, tree
        ex = Exec(ast.Module(body=stmts, type_ignores=[]))
        cx.ex = ex
        install_hooks(ex, cx)
        cp, N = Const('cp', I), cx.N
        env = {'_pos': cp, cpname: cp, '_text': cx.text, '_status': Const('status_in', B), '_result': Const('result_in', Val)}
        st = St(env=env, pc=[N >= 0, 0 <= cp, cp <= N, reach(cp)])
        c = cx.kids[idx + 1]
        prog = self.progresses(c, cp)
        try:
            outs = ex.block(stmts, st)
        except OutOfSubset as e:
            return False, None, {'error': f'out of subset: {e}', 'src': src}
        vcs = list(ex.vcs)
        for kind_, q in outs:
            pos = q.env['_pos']
            if kind_ == 'continue':
                vcs.append(VC('continue: this item progresses at the checkpoint and _pos is where it ends (first progressing item, by J)', q.pc,
                              And(prog, pos == c.end(cp, RHO0), 0 <= pos, pos <= N, reach(pos)), 'post', path=list(q.trace)))
            elif kind_ == 'fall' and not last:
                vcs.append(VC('fall through: J again, with this item not progressing at the checkpoint', q.pc,
                              And(Not(prog), pos == cp, q.env[cpname] == cp), 'post', path=list(q.trace)))
            elif kind_ == 'break' and last:
                vcs.append(VC('last: the loop is left at the checkpoint with this item not progressing (so the position is stuck, by J)', q.pc,
                              And(Not(prog), pos == cp), 'post', path=list(q.trace)))
            else:
                vcs.append(VC(f'segment leaves by {kind_}', q.pc, BoolVal(False), 'post'))
        if not outs:
            return False, None, {'error': 'no path', 'src': src}
        for vc in vcs:
            v = discharge(vc, ex.axioms)
            if v.status != 'unsat':
                return False, (kinds[idx], norm(seg), last), {'vc': vc.name, 'verdict': v.status, 'kinds': kinds, 'src': src, 'model': str(v.model)[:600]}
        return True, (kinds[idx], norm(seg), last), None

    def run(self, rep, tier, unit='segments:Skip'):
        good = set()
        for cur in self.KINDS:
            for prev in self.KINDS:
                for nxt in self.KINDS:
                    ok, key, detail = self.segment([prev, cur, nxt], 1, last=False)
                    rep.add(unit, f'middle segment {cur} (after {prev}, before {nxt}): continues with the first progressing item or re-establishes J', 'smt', ok, detail=detail)
                    if ok and key:
                        good.add(key)
                ok, key, detail = self.segment([prev, cur], 1, last=True)
                rep.add(unit, f'last segment {cur} (after {prev}) + break: continues, or leaves the loop stuck at the checkpoint', 'smt', ok, detail=detail)
                if ok and key:
                    good.add(key)
            ok, key, detail = self.segment([cur, 'NP'], 0, last=False)
            rep.add(unit, f'first segment {cur}: as a middle segment from the state HEAD establishes (J with no earlier item)', 'smt', ok, detail=detail)
            if ok and key:
                good.add(key)
            ok, key, detail = self.segment([cur], 0, last=True)
            rep.add(unit, f'only segment {cur} + break', 'smt', ok, detail=detail)
            if ok and key:
                good.add(key)
        # vacuity: a deliberately wrong shape must NOT be accepted (the restore of a partial item dropped)
        node, src = self.build(['PS', 'NP'])
        broken = src.replace('    else:\n        _pos = checkpoint1\n', '')
        rep.add(unit, 'must-fail guard: the partial-item segment without its restore is NOT one of the proved shapes', 'case_complete',
                broken != src and ('PS', norm(self.split(broken)[3][0]), False) not in good, detail={'src': broken})
        combos = list(itertools.product(self.KINDS, repeat=4))
        combos += list(itertools.product(self.KINDS, repeat=5))[::(5 if tier == 'quick' else 1)]
        combos += [tuple(self.KINDS[(i * j + i // 2) % 3] for i in range(9)) for j in range(1, 7)]
        bad = []
        for kinds in combos:
            node, src = self.build(list(kinds))
            try:
                tree, pre, head, segs, tail = self.split(src)
            except Exception as e:
                bad.append({'kinds': kinds, 'error': repr(e)})
                continue
            tail_txt = [ast.unparse(s) for s in tail]
            # TAIL: sets (None, True); anything else it does is an assignment that leaves the registers, the position and the text alone
            tail_ok = '_result = None' in tail_txt and '_status = True' in tail_txt and all(
                isinstance(s, ast.Assign) and all(isinstance(t, ast.Name) and (ast.unparse(s) in ('_result = None', '_status = True') or
                                                                                  (t.id.startswith('_') and t.id not in ('_pos', '_text', '_ctx', '_result', '_status')))
                                                  for t in s.targets) and not any(isinstance(x, (ast.Call, ast.Yield)) for x in ast.walk(s)) for s in tail)
            if len(segs) != len(kinds) or pre or not tail_ok or len(head) != 1 or ast.unparse(head[0].value) != '_pos':
                bad.append({'kinds': kinds, 'error': 'frame of the emission (HEAD / TAIL / one segment per item)', 'src': src})
                continue
            for i, sg in enumerate(segs):
                if (kinds[i], norm(sg), i == len(segs) - 1) not in good:
                    bad.append({'kinds': kinds, 'segment': i, 'text': norm(sg)})
                    break
        rep.add(unit, f'closure: every segment of {len(combos)} Skips of arity 4, 5 and 9 is one of the proved shapes (up to numbering); HEAD = checkpoint, the loop ends with break, TAIL = (None, True)',
                'case_complete', not bad, detail={'unmatched': bad[:3]})
