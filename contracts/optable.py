"""Contracts for operator tables (C02).

OpTableC: the shunting-yard fragment over ABSTRACT operand / prefix / infix / postfix children whose values carry SYMBOLIC
(precedence, associativity) tags - one run covers all tables.  Proved (unbounded): stack safety (no IndexError / ValueError from
any pop, index or unpack), the position protocol (the expression ends right after the last operand or postfix operator that was
parsed: a dangling operator is left unconsumed, a second non-associative operator ends the expression), status/flags, and that
exactly one tree remains - and the SHAPE of that tree: a ghost record per operand-stack slot (open-left / open-right operator
precedence, first / one-past-last consumed occurrence) is maintained by the hooks on the real pops, appends and Infix / Prefix /
Postfix constructions; every construction carries the local well-shapedness obligations of the statement (operands are the adjacent
occurrences in input order; the left operand's open operator binds tighter, or equally in a left row; the right operand's binds
tighter, or equally in a right row; prefix / postfix operands bind at least as tight) and the stack invariants W0-W4 / K1-K6 carry
them through all loops.  The result spans exactly the committed occurrences.  What stays BOUNDED (optable_ref): maximality of the
run ("longest run that fits"), and the comparison against an independently written brute-force reference.

Stacks are held positionally (arrays + length); ghost PS[i] = number of infix entries among the first i operators (prefix sums:
closed under push, pop and truncation), so that  len(operands) = PS[len(operators)] + phase."""
import ast
import z3
from z3 import And, Or, Not, Implies, If, IntVal, BoolVal, Const, Function, Select, Store, Array, ForAll

from pyvc.frag import ex as X, Stub
from pyvc.fragver import FragContract, Child, Outcome, LoopSpec, RHO0, reach, RoleError
from pyvc.symx import (Val, I, B, NONE, Tup, ArrList, Opaque, OutOfSubset, VC, int_v, un_int, kind, K_INT, K_NONE, truthy)
from .core import NAME2FLAGS

comp = Function('comp', Val, I, Val)        # i-th component of a tuple value
arity = Function('arity', Val, I)


rowkind = Function('rowkind', I, I)      # associativity id of a row: a row has ONE kind (OperatorTable.create tags (row, kind(row), op): CreateC)
GHOST_T = {'ws': B, 'oL': I, 'oR': I, 'lo': I, 'hi': I}


def tag3(prec, assoc, op):
    return Function('tagged3', I, I, Val, Val)(prec, assoc, op)


def int_facts(x):
    t = int_v(x)
    return [un_int(t) == x, kind(t) == K_INT, truthy(t) == (x != 0)]


FIXED_TEMPS = ['_', '_is_infix', '_left', '_operand', '_operator', '_prec', '_right', '_top_assoc', '_top_prec']


class OpTableC(FragContract):
    cls_name = 'OperatorTable'

    def configs(self, tier):
        for pre in (False, True):
            for post in (False, True):
                for inf in (False, True):
                    for opd in ('NP', 'PS'):
                        opf = ('NP', 'PS') if tier == 'thorough' else ('PS',)
                        for of in opf:
                            yield {'prefix': pre, 'postfix': post, 'infix': inf, 'operand': opd, 'ops': of, 'ctx': False, 'frame_extra': FIXED_TEMPS}
        yield {'prefix': True, 'postfix': True, 'infix': True, 'operand': 'AS', 'ops': 'NP', 'ctx': False, 'frame_extra': FIXED_TEMPS}

    def label(self, cfg):
        parts = [k for k in ('prefix', 'postfix', 'infix') if cfg[k]]
        return f"rows={'+'.join(parts) or 'none'},operand={cfg['operand']},operators={cfg['ops']}"

    def build(self, cfg):
        kids = {1: Child(1, *NAME2FLAGS[cfg['operand']])}
        s = {1: Stub(1, *NAME2FLAGS[cfg['operand']])}
        for k, key in ((2, 'prefix'), (3, 'infix'), (4, 'postfix')):
            if cfg[key]:
                kids[k] = Child(k, *NAME2FLAGS[cfg['ops']])
                s[k] = Stub(k, *NAME2FLAGS[cfg['ops']])
        node = X.OperatorTable('opd', [], prefixes=s.get(2), operands=s[1], postfixes=s.get(4), infixes=s.get(3))
        return node, list(kids.values())

    # ------------------------------------------------------------------ setup / hooks
    def setup(self, cx, ex, st):
        cx.ctor_names = ('Infix', 'Prefix', 'Postfix')
        pr = {k: Function(f'prec{k}', I, I) for k in (2, 3, 4)}
        asf = Function('assoc3', I, I)
        opf = {k: Function(f'op{k}', I, Val) for k in (2, 3, 4)}
        cx.pr, cx.asf = pr, asf

        def triple(k, assoc_of):
            def ax(ex_, c, pos, rho):
                v = c.val(pos, rho)
                a = assoc_of(pos)
                return [arity(v) == 3, comp(v, 0) == int_v(pr[k](pos)), comp(v, 1) == int_v(a), comp(v, 2) == opf[k](pos), pr[k](pos) >= 0,
                        *int_facts(pr[k](pos)), *int_facts(a), v != NONE]
            return ax
        cx.child_value_axioms = {
            2: lambda ex_, c, pos, rho: triple(2, lambda pos_: IntVal(0))(ex_, c, pos, rho) + [rowkind(pr[2](pos)) == 0],    # prefix: (row, 0 = kind of the row, operator)
            3: lambda ex_, c, pos, rho: triple(3, asf)(ex_, c, pos, rho) + [asf(pos) >= 1, asf(pos) <= 3, asf(pos) == rowkind(pr[3](pos))],   # infix: (row, 1|2|3 = kind of the row, operator)
            4: lambda ex_, c, pos, rho: [arity(c.val(pos, rho)) == 2, comp(c.val(pos, rho), 0) == int_v(pr[4](pos)), comp(c.val(pos, rho), 1) == opf[4](pos),
                                         pr[4](pos) >= 0, *int_facts(pr[4](pos)), c.val(pos, rho) != NONE, rowkind(pr[4](pos)) == 4],    # postfix: (row, operator); a postfix row is no prefix / infix row
        }
        ex.axiom(kind(NONE) == K_NONE)
        g = st.ghost
        g['PS'] = Store(Array('PS0', I, I), 0, IntVal(0))
        g['nparsed'] = IntVal(0)
        g['last_end'] = cx.p0
        # ghost for the shape clauses: occurrences (operands / operators successfully parsed) are numbered in input order
        g['ntok'], g['ncommit'], g['cur_tok'], g['cur_k'], g['cur_val'], g['cur_ok'] = IntVal(0), IntVal(0), IntVal(-1), 0, None, None
        g['T'] = {k: Array(f'T_{k}_0', I, srt) for k, srt in GHOST_T.items()}      # per operand-stack slot
        g['Oidx'] = Array('Oidx_0', I, I)                                          # per operator-stack slot: its occurrence number
        g['popped'], g['popped_op'] = [], None

        def after_child(ex_, st_, k, pos, rho, ok, np):
            gg = st_.ghost
            if k == 1:
                gg['nparsed'] = If(ok, gg['nparsed'] + 1, gg['nparsed'])
            if k in (1, 4):
                gg['last_end'] = If(ok, np, gg['last_end'])     # end of the last operand / postfix operator parsed
            nt = gg['ntok']
            gg['cur_tok'], gg['cur_k'], gg['cur_val'], gg['cur_ok'] = nt, k, cx.kids[k].val(pos, rho), ok
            gg['ntok'] = If(ok, nt + 1, nt)
            if k in (1, 4):
                gg['ncommit'] = If(ok, nt + 1, gg['ncommit'])   # occurrences up to the last operand / postfix operator are committed
        cx.after_child = after_child

        # both stacks are held positionally
        def before(ex_, s, st_):
            if isinstance(s, ast.Assign) and isinstance(s.value, ast.List) and not s.value.elts and isinstance(s.targets[0], ast.Name):
                st_.env[s.targets[0].id] = ArrList([Array(f'{s.targets[0].id}_0', I, Val)], IntVal(0))
                return [('fall', st_)]
            return None
        ex.before_stmt = before
        orig = ex.arrlist_method
        roles = self.roles(cx)

        def find_popped(st_, v):
            for rec in reversed(st_.ghost.get('popped', [])):
                if isinstance(v, z3.ExprRef) and rec['val'].eq(v):
                    return rec
            raise OutOfSubset('an operand of a new tree node is not a value popped from the operand stack')

        def node_record(e, arg, st_):
            """-> (value appended, ghost record): the argument is evaluated ONCE (it may pop), the local shape obligations of the statement are emitted"""
            gg = st_.ghost
            if isinstance(arg, ast.Call) and isinstance(arg.func, ast.Name) and arg.func.id in cx.ctor_names:
                if arg.keywords:
                    raise OutOfSubset('tree node built with keywords')
                vals = [ex.ev(a, st_) for a in arg.args]
                # the node itself is built by the generic constructor hook, from the values just computed
                tmp = [f'__node_arg{k}' for k in range(len(vals))]
                for nm, v in zip(tmp, vals):
                    st_.env[nm] = v
                call = ast.Call(func=arg.func, args=[ast.Name(id=nm, ctx=ast.Load()) for nm in tmp], keywords=[])
                ast.copy_location(call, arg); ast.fix_missing_locations(call)
                value = ex.ev(call, st_)
                for nm in tmp:
                    del st_.env[nm]
                kind_ = arg.func.id
                if kind_ in ('Infix', 'Prefix'):
                    op = gg.get('popped_op')
                    if op is None:
                        raise OutOfSubset('tree node built without a popped operator entry')
                    if (kind_ == 'Infix' and len(vals) != 3) or (kind_ == 'Prefix' and len(vals) != 2):
                        raise OutOfSubset('tree node arity')
                if kind_ == 'Infix':
                    ra, rb, o = find_popped(st_, vals[0]), find_popped(st_, vals[2]), vals[1]
                    ex.safety(st_, 'shape: Infix is built for an infix entry', e, op['assoc'] != 0)
                    ex.safety(st_, 'shape: the operator of the node is the operator of the popped entry', e, ex.box(o) == comp(op['entry'], 2))
                    ex.safety(st_, 'shape: left operand, operator, right operand are adjacent occurrences in input order', e,
                              And(ra['hi'] == op['idx'], op['idx'] + 1 == rb['lo']))
                    ex.safety(st_, 'shape: both operands are well-shaped', e, And(ra['ws'], rb['ws']))
                    ex.safety(st_, 'shape: the left operand binds tighter than the operator, or equally in a left-associative row', e,
                              Or(ra['oR'] < op['prec'], And(ra['oR'] == op['prec'], op['assoc'] == 1)))
                    ex.safety(st_, 'shape: the right operand binds tighter than the operator, or equally in a right-associative row', e,
                              Or(rb['oL'] < op['prec'], And(rb['oL'] == op['prec'], op['assoc'] == 2)))
                    gg['popped_op'] = None
                    return value, {'ws': BoolVal(True), 'oL': op['prec'], 'oR': op['prec'], 'lo': ra['lo'], 'hi': rb['hi']}
                if kind_ == 'Prefix':
                    rb, o = find_popped(st_, vals[1]), vals[0]
                    ex.safety(st_, 'shape: Prefix is built for a prefix entry', e, op['assoc'] == 0)
                    ex.safety(st_, 'shape: the operator of the node is the operator of the popped entry', e, ex.box(o) == comp(op['entry'], 2))
                    ex.safety(st_, 'shape: prefix operator and its operand are adjacent occurrences in input order', e, op['idx'] + 1 == rb['lo'])
                    ex.safety(st_, 'shape: the operand is well-shaped', e, rb['ws'])
                    ex.safety(st_, 'shape: the operand of a prefix operator binds at least as tight', e, rb['oL'] <= op['prec'])
                    gg['popped_op'] = None
                    return value, {'ws': BoolVal(True), 'oL': IntVal(-1), 'oR': op['prec'], 'lo': op['idx'], 'hi': rb['hi']}
                # Postfix(operand, operator): the operator is the postfix operator just parsed
                if len(vals) != 2:
                    raise OutOfSubset('tree node arity')
                if gg['cur_k'] != 4:
                    ex.safety(st_, 'shape: Postfix is built right after a postfix operator was parsed', e, BoolVal(False))
                    return value, {'ws': BoolVal(True), 'oL': IntVal(-1), 'oR': IntVal(-1), 'lo': gg['cur_tok'], 'hi': gg['cur_tok'] + 1}
                ra, o, v4 = find_popped(st_, vals[0]), vals[1], gg['cur_val']
                q = un_int(comp(v4, 0))
                ex.safety(st_, 'shape: the operator of the node is the postfix operator just parsed', e, And(gg['cur_ok'], ex.box(o) == comp(v4, 1)))
                ex.safety(st_, 'shape: operand and postfix operator are adjacent occurrences in input order', e, ra['hi'] == gg['cur_tok'])
                ex.safety(st_, 'shape: the operand is well-shaped', e, ra['ws'])
                ex.safety(st_, 'shape: the operand of a postfix operator binds at least as tight', e, ra['oR'] <= q)
                return value, {'ws': BoolVal(True), 'oL': q, 'oR': IntVal(-1), 'lo': ra['lo'], 'hi': gg['cur_tok'] + 1}
            # a leaf: the operand just parsed
            v = ex.ev(arg, st_)
            ok_leaf = And(gg['cur_ok'], ex.box(v) == gg['cur_val']) if gg['cur_k'] == 1 else BoolVal(False)
            ex.safety(st_, 'shape: a leaf pushed on the operand stack is the operand just parsed', e, ok_leaf)
            return v, {'ws': BoolVal(True), 'oL': IntVal(-1), 'oR': IntVal(-1), 'lo': gg['cur_tok'], 'hi': gg['cur_tok'] + 1}

        def arrlist_method(e, name, meth, st_):
            gg = st_.ghost
            if name == roles['opd'] and meth == 'append':
                if len(e.args) != 1 or name in st_.frozen:
                    raise OutOfSubset('append arity / aliased stack')
                value, rec = node_record(e, e.args[0], st_)
                L = st_.env[name]                       # read AFTER the argument was evaluated: it may have popped
                st_.env[name] = ArrList([Store(L.arrs[0], L.n, ex.box(value))], L.n + 1)
                gg['T'] = {k: Store(a_, L.n, rec[k]) for k, a_ in gg['T'].items()}
                return NONE
            L = st_.env[name]
            if name == roles['ops'] and meth == 'append':
                r = orig(e, name, meth, st_)
                L = ArrList(st_.env[name].arrs, st_.env[name].n - 1)
                t = Select(st_.env[name].arrs[0], L.n)
                ps = gg['PS']
                gg['PS'] = Store(ps, L.n + 1, Select(ps, L.n) + If(un_int(comp(t, 1)) != 0, 1, 0))
                ok_op = And(gg['cur_ok'], t == gg['cur_val']) if gg['cur_k'] in (2, 3) else BoolVal(False)
                ex.safety(st_, 'shape: an entry pushed on the operator stack is the prefix / infix operator just parsed', e, ok_op)
                gg['Oidx'] = Store(gg['Oidx'], L.n, gg['cur_tok'])
                return r
            if name == roles['ops'] and meth == 'pop':
                r = orig(e, name, meth, st_)
                entry = Select(L.arrs[0], L.n - 1)
                gg['popped_op'] = {'entry': entry, 'prec': un_int(comp(entry, 0)), 'assoc': un_int(comp(entry, 1)), 'idx': Select(gg['Oidx'], L.n - 1)}
                return r
            if name == roles['opd'] and meth == 'pop':
                r = orig(e, name, meth, st_)
                rec = {k: Select(a_, L.n - 1) for k, a_ in gg['T'].items()}
                rec['val'] = r
                gg['popped'] = list(gg.get('popped', [])) + [rec]
                return r
            return orig(e, name, meth, st_)
        ex.arrlist_method = arrlist_method

        def subscript(ex_, node, recv, idx, st_):
            if isinstance(recv, z3.ExprRef) and recv.sort() == Val and isinstance(idx, z3.IntNumRef):
                i = idx.as_long()
                ex_.safety(st_, 'tuple-component-exists', node, And(arity(recv) > i, recv != NONE))
                return comp(recv, i)
            return NotImplemented
        ex.subscript_hook = subscript

        def unpack(ex_, tgt, v, n, st_):
            if isinstance(v, z3.ExprRef) and v.sort() == Val:
                ex_.safety(st_, 'unpack-arity', tgt, arity(v) == n)
                return [comp(v, i) for i in range(n)]
            return NotImplemented
        ex.unpack_hook = unpack
        orig_as_int = ex.as_int

        def as_int(v):
            if isinstance(v, z3.ExprRef) and v.sort() == Val:
                return un_int(v)          # ordering comparisons between tags: the values are ints (shape invariant S3)
            return orig_as_int(v)
        ex.as_int = as_int

    def roles(self, cx):
        lists = cx.names_initialised(lambda v: isinstance(v, ast.List) and not v.elts)
        if len(lists) != 2:
            raise RoleError(f'operand / operator stacks: {lists}')
        # the operator stack is the one that is sliced / compared by precedence; the operand stack receives Infix(...) nodes
        ops = None
        for n in ast.walk(cx.tree):
            if isinstance(n, ast.Call) and isinstance(n.func, ast.Attribute) and n.func.attr == 'append' and isinstance(n.func.value, ast.Name) \
                    and n.args and isinstance(n.args[0], ast.Call) and ast.unparse(n.args[0].func) in ('Infix', 'Prefix', 'Postfix'):
                opd = n.func.value.id
                ops = [x for x in lists if x != opd][0]
                break
        if ops is None:
            # no operator rows at all: the list that receives _result first is the operand stack
            opd = lists[0]
            ops = lists[1]
        pos_inits = cx.names_initialised(lambda v: isinstance(v, ast.Name) and v.id == '_pos')
        marker = cx.names_initialised(lambda v: isinstance(v, ast.Constant) and v.value == 0 and not isinstance(v.value, bool))
        return {'ops': ops, 'opd': opd, 'outer_cp': pos_inits[0] if pos_inits else None, 'marker': marker[0] if marker else None}

    # ------------------------------------------------------------------ invariants
    def loop_roles(self, cx):
        """ordinal -> role, from the structure of the emitted text"""
        roles = {}
        order = {}
        counter = [0]

        def number(n):
            if isinstance(n, (ast.While, ast.For)):
                counter[0] += 1
                order[id(n)] = counter[0]
            for c in ast.iter_child_nodes(n):
                number(c)
        number(cx.tree)
        outer = next(s for s in cx.tree.body if isinstance(s, ast.While))
        roles[order[id(outer)]] = 'outer'
        seen_operand = False
        for s in outer.body:
            txt = ast.unparse(s)
            if isinstance(s, ast.While):
                if not seen_operand:
                    roles[order[id(s)]] = 'prefix'
                elif '_CHILD_4' in txt:
                    roles[order[id(s)]] = 'postfix'
                    for inner in ast.walk(s):
                        if isinstance(inner, ast.While) and inner is not s:
                            roles[order[id(inner)]] = 'reduce'
                else:
                    roles[order[id(s)]] = 'reduce-infix'
            if '_CHILD_1' in txt and not isinstance(s, ast.While):
                seen_operand = True
        for s in cx.tree.body:
            if isinstance(s, ast.If):
                for inner in ast.walk(s):
                    if isinstance(inner, ast.While):
                        roles[order[id(inner)]] = 'reduce-final'
        return roles

    def loops(self, cx):
        R = self.roles(cx)
        i, j = Const('i', I), Const('j', I)

        def tags(st):
            a = st.env[R['ops']].arrs[0]
            P = lambda k: un_int(comp(Select(a, k), 0))
            A = lambda k: un_int(comp(Select(a, k), 1))
            return P, A

        def ok_right_of(st, n, k):
            """a tree whose open-left operator has precedence n (-1: none) may be the right operand of operator entry k"""
            P, A = tags(st)
            return If(A(k) == 0, n <= P(k), Or(n < P(k), And(n == P(k), A(k) == 2)))

        def ok_left_of(n, prec, assoc):
            return Or(n < prec, And(n == prec, assoc == 1))

        def common(ex, st, phase):
            ops, opd = st.env[R['ops']], st.env[R['opd']]
            PS = st.ghost['PS']
            sn, on = ops.n, opd.n
            a = ops.arrs[0]
            T, Oidx = st.ghost['T'], st.ghost['Oidx']
            P, A = tags(st)
            yield 'S1 lengths', And(sn >= 0, on >= 0, st.ghost['nparsed'] >= 0)
            yield 'S2 PS are the prefix sums of "is an infix entry"', And(Select(PS, 0) == 0, ForAll([i], Implies(And(0 <= i, i < sn), And(
                Select(PS, i + 1) == Select(PS, i) + If(un_int(comp(Select(a, i), 1)) != 0, 1, 0), Select(PS, i) >= 0))), Select(PS, sn) >= 0)
            yield 'S2m PS is monotone', ForAll([i, j], Implies(And(0 <= i, i <= j, j <= sn), Select(PS, i) <= Select(PS, j)))
            yield 'S3 every operator entry is a (precedence, associativity, operator) triple of ints', ForAll([i], Implies(And(0 <= i, i < sn), And(
                arity(Select(a, i)) == 3, kind(comp(Select(a, i), 0)) == K_INT, kind(comp(Select(a, i), 1)) == K_INT, Select(a, i) != NONE,
                truthy(comp(Select(a, i), 1)) == (un_int(comp(Select(a, i), 1)) != 0))))
            yield 'S4 operands = infix entries + phase', on == Select(PS, sn) + phase
            pos = st.env['_pos']
            yield 'S6 position in range', And(0 <= pos, pos <= cx.N, reach(pos))
            yield 'S8 an operand is on the stack iff one was parsed', (on >= 1) == (st.ghost['nparsed'] >= 1) if phase == 0 else And(on >= 1, st.ghost['nparsed'] >= 1)
            # ---- shape
            yield 'W0 tags: precedence >= 0, kind in 0..3, an entry carries the kind of its row', ForAll([i], Implies(And(0 <= i, i < sn), And(
                P(i) >= 0, 0 <= A(i), A(i) <= 3, A(i) == rowkind(P(i)),
                comp(Select(a, i), 0) == int_v(P(i)), comp(Select(a, i), 1) == int_v(A(i)))))
            yield 'W1 every tree on the operand stack is well-shaped', ForAll([j], Implies(And(0 <= j, j < on), Select(T['ws'], j)))
            yield 'W2 an infix entry lies above an entry only if it may end up in that entry\'s right operand', ForAll([i], Implies(
                And(0 <= i, i + 1 < sn, A(i + 1) != 0), ok_right_of(st, P(i + 1), i)))
            yield 'W3 the left operand of a pending infix entry may stay its left operand', ForAll([i], Implies(
                And(0 <= i, i < sn, A(i) != 0), ok_left_of(Select(T['oR'], Select(PS, i)), P(i), A(i))))
            yield 'K1 the left operand of a pending infix entry ends right before it', ForAll([i], Implies(
                And(0 <= i, i < sn, A(i) != 0), Select(T['hi'], Select(PS, i)) == Select(Oidx, i)))
            yield 'K2 what follows a pending entry starts right after it', ForAll([i], Implies(And(0 <= i, i + 1 < sn), If(
                A(i + 1) != 0, Select(T['lo'], Select(PS, i + 1)) == Select(Oidx, i) + 1, Select(Oidx, i + 1) == Select(Oidx, i) + 1)))
            yield 'K4 the pending sequence starts with occurrence 0', And(
                Implies(sn >= 1, If(A(0) != 0, Select(T['lo'], 0) == 0, Select(Oidx, 0) == 0)), Implies(And(sn == 0, on >= 1), Select(T['lo'], 0) == 0))

        def top_pair(ex, st):
            """phase 1: the top tree may be the right operand of the top entry and starts right after it"""
            ops, opd = st.env[R['ops']], st.env[R['opd']]
            T, Oidx = st.ghost['T'], st.ghost['Oidx']
            yield 'W4 the top tree may be the right operand of the top entry', Implies(ops.n >= 1, ok_right_of(st, Select(T['oL'], opd.n - 1), ops.n - 1))
            yield 'K5 the top tree starts right after the top entry', Implies(ops.n >= 1, Select(T['lo'], opd.n - 1) == Select(Oidx, ops.n - 1) + 1)

        def outer_inv(ex, st, at_head=True):
            yield from common(ex, st, 0)
            if at_head:
                yield 'S12 nothing is consumed before the first prefix / operand attempt', Implies(st.env[R['opd']].n == 0, st.env['_pos'] == cx.p0)
            ops, opd = st.env[R['ops']], st.env[R['opd']]
            PS = st.ghost['PS']
            T, Oidx, g = st.ghost['T'], st.ghost['Oidx'], st.ghost
            mk, cp = st.env[R['marker']], st.env[R['outer_cp']]
            yield 'S7 the operators above the marker are one pending infix operator and prefix operators', Implies(opd.n >= 1, And(
                0 <= mk, mk < ops.n, opd.n == Select(PS, mk) + 1, tags(st)[1](mk) != 0))
            yield 'S9 outer checkpoint = end of the last operand / postfix parsed', And(cp == st.ghost['last_end'], 0 <= cp, cp <= cx.N, reach(cp),
                                                                                           Implies(opd.n == 0, cp == cx.p0))
            if at_head:
                yield 'S13 no operator is pending before the first operand', Implies(opd.n == 0, ops.n == 0)
            yield 'K5p every occurrence parsed so far is pending', And(Implies(ops.n >= 1, Select(Oidx, ops.n - 1) + 1 == g['ntok']), Implies(ops.n == 0, g['ntok'] == 0))
            yield 'W4m the top tree may be the right operand of the entry below the marker', Implies(And(opd.n >= 1, mk >= 1), ok_right_of(st, Select(T['oL'], opd.n - 1), mk - 1))
            yield 'K5m the top tree starts right after the entry below the marker', Implies(And(opd.n >= 1, mk >= 1), Select(T['lo'], opd.n - 1) == Select(Oidx, mk - 1) + 1)
            yield 'K6 the top tree ends with the last committed occurrence', Implies(opd.n >= 1, Select(T['hi'], opd.n - 1) == g['ncommit'])

        def prefix_inv(ex, st):
            yield from outer_inv(ex, st, at_head=False)

        def after_operand_inv(ex, st):
            yield from common(ex, st, 1)
            yield 'S14 position = end of the last operand / postfix parsed', st.env['_pos'] == st.ghost['last_end']
            yield from top_pair(ex, st)
            T, g, on = st.ghost['T'], st.ghost, st.env[R['opd']].n
            yield 'W5 the top tree has no open right side', Select(T['oR'], on - 1) == -1
            yield 'K7 the top tree ends with the last occurrence parsed, which is committed', And(Select(T['hi'], on - 1) == g['ntok'], g['ncommit'] == g['ntok'])

        def reduce_postfix_inv(ex, st):
            yield from common(ex, st, 1)
            yield 'S14 position = end of the last operand / postfix parsed', st.env['_pos'] == st.ghost['last_end']
            yield from top_pair(ex, st)
            T, g, on = st.ghost['T'], st.ghost, st.env[R['opd']].n
            q = un_int(comp(ex.box(st.env['_result']), 0))
            yield 'W5q the open right operator of the top tree binds tighter than the postfix operator', Select(T['oR'], on - 1) < q
            yield 'K7q the top tree ends right before the postfix operator, the last occurrence parsed', And(
                Select(T['hi'], on - 1) == g['cur_tok'], g['cur_tok'] + 1 == g['ntok'], g['ncommit'] == g['ntok'])

        def reduce_infix_inv(ex, st):
            yield from common(ex, st, 1)
            ops = st.env[R['ops']]
            mk, cp = st.env[R['marker']], st.env[R['outer_cp']]
            yield 'S10 reductions only shrink the operator stack below the marker', And(ops.n <= mk)
            yield 'S15 the incoming operator\'s precedence is kept', And(st.env['_prec'] == st.ghost['prec_in'], st.ghost['prec_in'] != NONE)
            yield 'S9 outer checkpoint = end of the last operand / postfix parsed', And(cp == st.ghost['last_end'], 0 <= cp, cp <= cx.N, reach(cp))
            yield from top_pair(ex, st)
            T, g, on = st.ghost['T'], st.ghost, st.env[R['opd']].n
            res = ex.box(st.env['_result'])
            yield 'W5i the top tree may be the left operand of the incoming operator', ok_left_of(Select(T['oR'], on - 1), un_int(comp(res, 0)), un_int(comp(res, 1)))
            yield 'K7i the top tree ends right before the incoming operator, the last occurrence parsed; it is not committed', And(
                Select(T['hi'], on - 1) == g['cur_tok'], g['cur_tok'] + 1 == g['ntok'], g['ncommit'] == g['cur_tok'])

        def final_inv(ex, st):
            yield from common(ex, st, 1)
            yield 'S11 final position = end of the last operand / postfix parsed', st.env['_pos'] == st.ghost['last_end']
            yield from top_pair(ex, st)
            T, g, on = st.ghost['T'], st.ghost, st.env[R['opd']].n
            yield 'K8 the top tree ends with the last committed occurrence', Select(T['hi'], on - 1) == g['ncommit']

        def havoc_for(role):
            def havoc(ex, st):
                g = st.ghost
                g['T'] = {k: ex.fv(f'T_{k}', z3.ArraySort(I, srt)) for k, srt in GHOST_T.items()}
                g['popped'], g['popped_op'] = [], None
                if role in ('outer', 'prefix', 'postfix'):
                    # loops that parse children and push operators
                    g['PS'] = ex.fv('PS', z3.ArraySort(I, I))
                    g['Oidx'] = ex.fv('Oidx', z3.ArraySort(I, I))
                    g['nparsed'], g['last_end'] = ex.fv('nparsed', I), ex.fv('last_end', I)
                    g['ntok'], g['ncommit'], g['cur_tok'] = ex.fv('ntok', I), ex.fv('ncommit', I), ex.fv('cur_tok', I)
                    g['cur_k'], g['cur_val'], g['cur_ok'] = 0, None, None
            return havoc

        def enter_reduce_infix(ex, st):
            st.ghost['prec_in'] = ex.box(st.env['_prec'])

        def leave_reduce_infix(ex, st):
            # the state in which the reductions for the incoming infix operator stopped: would pushing it chain a non-associative row?
            ops = st.env[R['ops']]
            P, A = tags(st)
            res = ex.box(st.env['_result'])
            st.ghost['chain_at_stop'] = And(ops.n >= 1, P(ops.n - 1) == un_int(comp(res, 0)), A(ops.n - 1) == 3)

        specs = {}
        for ordn, role in self.loop_roles(cx).items():
            inv = {'outer': outer_inv, 'prefix': prefix_inv, 'postfix': after_operand_inv, 'reduce': reduce_postfix_inv,
                   'reduce-infix': reduce_infix_inv, 'reduce-final': final_inv}[role]
            specs[ordn] = LoopSpec(inv, havoc=havoc_for(role), enter=enter_reduce_infix if role == 'reduce-infix' else None,
                                   leave=leave_reduce_infix if role == 'reduce-infix' else None)
        return specs

    # ------------------------------------------------------------------ postcondition
    def spec(self, cx, ex, st):
        R = self.roles(cx)
        g = st.ghost
        ok = g['nparsed'] >= 1
        opd = st.env[R['opd']]
        extra = [
            ('P-one-tree: exactly one tree remains on the operand stack', Implies(ok, opd.n == 1)),
            ('P-fail: without any operand the table fails', Implies(Not(ok), opd.n == 0)),
        ]
        T = g['T']
        extra += [
            ('P-shape: the resulting tree is well-shaped (every node built satisfied the precedence / associativity / attachment clauses)', Implies(ok, Select(T['ws'], 0))),
            ('P-fringe: the tree spans exactly the committed occurrences, in input order', Implies(ok, And(Select(T['lo'], 0) == 0, Select(T['hi'], 0) == g['ncommit']))),
        ]
        # where the expression ends: only where the statement says (maximality of the run, as far as one activation can tell)
        k, cok = g['cur_k'], g['cur_ok']
        cfg = cx.cfg
        if k == 1:
            stop = Or(Not(cok), BoolVal(not cfg['infix'] and not cfg['postfix']))      # no operand follows | nothing can follow an operand
        elif k == 4:
            stop = And(Not(cok), BoolVal(not cfg['infix']))                             # no further postfix operator, and no infix rows
        elif k == 3:
            chain = g.get('chain_at_stop')
            stop = Or(Not(cok), chain if chain is not None else BoolVal(False))         # no infix operator follows | it would chain a non-associative row
        else:
            stop = BoolVal(False)
        extra.append(('P-stop: the expression ends only because no operand / no infix operator follows or a non-associative operator would be chained', stop))
        res = st.env['_result']
        return Outcome(ok, res, g['last_end'], extra)

    def bounded(self, cx):
        """stand-in when the fragment leaves the executor's subset: the brute-force reference of the statement against the real
        generated parser (labelled bounded, never counted as proved)"""
        from . import optable_ref
        return optable_ref.bounded(5)

    def mustfail(self, cx, ex, st, oc):
        g = st.ghost
        yield 'P-fringe-off-by-one', Implies(g['nparsed'] >= 1, Select(g['T']['hi'], 0) == g['ncommit'] + 1)


class CreateC:
    """OperatorTable.create: tagging of rows (case-complete over row kinds, abstract operators)"""
    KINDS = ['prefix', 'left', 'right', 'infix', 'postfix', 'mixfix']

    def obligations(self, rep, tier, unit='ground:OperatorTable.create'):
        import itertools

        def row(assoc, ops):
            return type('Row', (), {'associativity': assoc, 'operators': ops})()
        n = 2 if tier == 'quick' else 3
        for kinds in itertools.chain.from_iterable(itertools.product(self.KINDS, repeat=r) for r in range(1, n + 1)):
            opd = Stub(1, False, True)
            stubs = {}
            rows = []
            k = 10
            for ri, kd in enumerate(kinds):
                ops = [Stub(k, False, False)] if ri % 2 == 0 else [Stub(k, False, False), Stub(k + 1, False, True)]
                stubs[ri] = ops
                k += 2
                rows.append(row(kd, ops))
            t = X.OperatorTable.create(opd, rows)
            ok, why = self.check(t, opd, kinds, stubs)
            rep.add(unit, f'rows {"/".join(kinds)}: each row becomes its operators tagged (row index, kind) in the right group, groups combined by Longest in row order',
                    'case_complete', ok, detail={'why': why})
        # empty rows are skipped, an empty table is the operand itself
        t = X.OperatorTable.create(Stub(1, False, True), [row('left', [])])
        rep.add(unit, 'a row without operators contributes nothing', 'case_complete', t.infixes is None and t.prefixes is None and t.postfixes is None)

    def check(self, t, opd, kinds, stubs):
        def members(e):
            if e is None:
                return []
            return list(e.exprs) if isinstance(e, X.Longest) else [e]
        want = {'prefixes': [], 'infixes': [], 'postfixes': [], 'operands': [('operand', None, None)]}
        assoc_id = {'prefix': 0, 'left': 1, 'right': 2, 'infix': 3}
        for ri, kd in enumerate(kinds):
            if kd == 'mixfix':
                want['operands'].append(('mixfix', ri, None))
            elif kd == 'postfix':
                want['postfixes'].append((f'lambda x: ({ri}, x)', ri, None))
            elif kd == 'prefix':
                want['prefixes'].append((f'lambda x: ({ri}, 0, x)', ri, None))
            else:
                want['infixes'].append((f'lambda x: ({ri}, {assoc_id[kd]}, x)', ri, None))
        for group, exp in want.items():
            got = members(getattr(t, group))
            if len(got) != len(exp):
                return False, f'{group}: {len(got)} members, expected {len(exp)}'
            for g, (tagger, ri, _) in zip(got, exp):
                if tagger == 'operand':
                    if g is not opd:
                        return False, 'first operand form is not the operand'
                    continue
                ops = stubs[ri]
                inner = g if tagger == 'mixfix' else (g.expr1 if isinstance(g, X.Apply) and not g.apply_left else None)
                if inner is None:
                    return False, f'{group}: member is not Apply(operators, tagger)'
                if tagger != 'mixfix' and not (isinstance(g.expr2, X.PythonExpression) and g.expr2.source_code == tagger):
                    return False, f'{group}: tagger {getattr(g.expr2, "source_code", None)!r}, expected {tagger!r}'
                if len(ops) == 1:
                    if inner is not ops[0]:
                        return False, f'{group}: single operator not used as is'
                elif not (isinstance(inner, X.Choice) and list(inner.exprs) == ops):
                    return False, f'{group}: several operators of a row are not an ordered choice in row order'
        return True, None


OPTABLE = [OpTableC()]
