"""Contracts for operator tables (C02).

OpTableC: the shunting-yard fragment over ABSTRACT operand / prefix / infix / postfix children whose values carry SYMBOLIC
(precedence, associativity) tags - one run covers all tables.  Proved (unbounded): stack safety (no IndexError / ValueError from
any pop, index or unpack), the position protocol (the expression ends right after the last operand or postfix operator that was
parsed: a dangling operator is left unconsumed, a second non-associative operator ends the expression), status/flags, and that
exactly one tree remains.  The shape of that tree (precedence / associativity / fringe) is a BOUNDED stand-in (optable_ref).

Stacks are held positionally (arrays + length); ghost PS[i] = number of infix entries among the first i operators (prefix sums:
closed under push, pop and truncation), so that  len(operands) = PS[len(operators)] + phase."""
import ast
import z3
from z3 import And, Or, Not, Implies, If, IntVal, BoolVal, Const, Function, Select, Store, Array, ForAll

from pyvc.frag import ex as X, Stub
from pyvc.fragver import FragContract, Child, Outcome, LoopSpec, RHO0, reach, RoleError
from pyvc.symx import (Val, I, B, NONE, Tup, ArrList, Opaque, OutOfSubset, VC, int_v, un_int, kind, K_INT, K_NONE, truthy)
from .core import NAME2FLAGS

comp = Function('comp', Val, I, Val)        # i-th component of a tuple value
arity = Function('arity', Val, I)


def tag3(prec, assoc, op):
    return Function('tagged3', I, I, Val, Val)(prec, assoc, op)


def int_facts(x):
    t = int_v(x)
    return [un_int(t) == x, kind(t) == K_INT, truthy(t) == (x != 0)]


FIXED_TEMPS = ['_', '_is_infix', '_left', '_operand', '_operator', '_prec', '_right', '_top_assoc', '_top_prec']


class OpTableC(FragContract):
    cls_name = 'OperatorTable'

    def configs(self, tier):
        for pre in (False, True):
            for post in (False, True):
                for inf in (False, True):
                    for opd in ('NP', 'PS'):
                        opf = ('NP', 'PS') if tier == 'thorough' else ('PS',)
                        for of in opf:
                            yield {'prefix': pre, 'postfix': post, 'infix': inf, 'operand': opd, 'ops': of, 'ctx': False, 'frame_extra': FIXED_TEMPS}
        yield {'prefix': True, 'postfix': True, 'infix': True, 'operand': 'AS', 'ops': 'NP', 'ctx': False, 'frame_extra': FIXED_TEMPS}

    def label(self, cfg):
        parts = [k for k in ('prefix', 'postfix', 'infix') if cfg[k]]
        return f"rows={'+'.join(parts) or 'none'},operand={cfg['operand']},operators={cfg['ops']}"

    def build(self, cfg):
        kids = {1: Child(1, *NAME2FLAGS[cfg['operand']])}
        s = {1: Stub(1, *NAME2FLAGS[cfg['operand']])}
        for k, key in ((2, 'prefix'), (3, 'infix'), (4, 'postfix')):
            if cfg[key]:
                kids[k] = Child(k, *NAME2FLAGS[cfg['ops']])
                s[k] = Stub(k, *NAME2FLAGS[cfg['ops']])
        node = X.OperatorTable('opd', [], prefixes=s.get(2), operands=s[1], postfixes=s.get(4), infixes=s.get(3))
        return node, list(kids.values())

    # ------------------------------------------------------------------ setup / hooks
    def setup(self, cx, ex, st):
        cx.ctor_names = ('Infix', 'Prefix', 'Postfix')
        pr = {k: Function(f'prec{k}', I, I) for k in (2, 3, 4)}
        asf = Function('assoc3', I, I)
        opf = {k: Function(f'op{k}', I, Val) for k in (2, 3, 4)}
        cx.pr, cx.asf = pr, asf

        def triple(k, assoc_of):
            def ax(ex_, c, pos, rho):
                v = c.val(pos, rho)
                a = assoc_of(pos)
                return [arity(v) == 3, comp(v, 0) == int_v(pr[k](pos)), comp(v, 1) == int_v(a), comp(v, 2) == opf[k](pos), pr[k](pos) >= 0,
                        *int_facts(pr[k](pos)), *int_facts(a), v != NONE]
            return ax
        cx.child_value_axioms = {
            2: triple(2, lambda pos: IntVal(0)),                                     # prefix: (row, 0, operator)
            3: lambda ex_, c, pos, rho: triple(3, asf)(ex_, c, pos, rho) + [asf(pos) >= 1, asf(pos) <= 3],   # infix: (row, 1|2|3, operator)
            4: lambda ex_, c, pos, rho: [arity(c.val(pos, rho)) == 2, comp(c.val(pos, rho), 0) == int_v(pr[4](pos)), comp(c.val(pos, rho), 1) == opf[4](pos),
                                         pr[4](pos) >= 0, *int_facts(pr[4](pos)), c.val(pos, rho) != NONE],    # postfix: (row, operator)
        }
        ex.axiom(kind(NONE) == K_NONE)
        g = st.ghost
        g['PS'] = Store(Array('PS0', I, I), 0, IntVal(0))
        g['nparsed'] = IntVal(0)
        g['last_end'] = cx.p0

        def after_child(ex_, st_, k, pos, rho, ok, np):
            if k == 1:
                st_.ghost['nparsed'] = If(ok, st_.ghost['nparsed'] + 1, st_.ghost['nparsed'])
            if k in (1, 4):
                st_.ghost['last_end'] = If(ok, np, st_.ghost['last_end'])     # end of the last operand / postfix operator parsed
        cx.after_child = after_child

        # both stacks are held positionally
        def before(ex_, s, st_):
            if isinstance(s, ast.Assign) and isinstance(s.value, ast.List) and not s.value.elts and isinstance(s.targets[0], ast.Name):
                st_.env[s.targets[0].id] = ArrList([Array(f'{s.targets[0].id}_0', I, Val)], IntVal(0))
                return [('fall', st_)]
            return None
        ex.before_stmt = before
        orig = ex.arrlist_method
        roles = self.roles(cx)

        def arrlist_method(e, name, meth, st_):
            if name == roles['ops'] and meth == 'append':
                L = st_.env[name]
                r = orig(e, name, meth, st_)
                t = Select(st_.env[name].arrs[0], L.n)
                ps = st_.ghost['PS']
                st_.ghost['PS'] = Store(ps, L.n + 1, Select(ps, L.n) + If(un_int(comp(t, 1)) != 0, 1, 0))
                return r
            return orig(e, name, meth, st_)
        ex.arrlist_method = arrlist_method

        def subscript(ex_, node, recv, idx, st_):
            if isinstance(recv, z3.ExprRef) and recv.sort() == Val and isinstance(idx, z3.IntNumRef):
                i = idx.as_long()
                ex_.safety(st_, 'tuple-component-exists', node, And(arity(recv) > i, recv != NONE))
                return comp(recv, i)
            return NotImplemented
        ex.subscript_hook = subscript

        def unpack(ex_, tgt, v, n, st_):
            if isinstance(v, z3.ExprRef) and v.sort() == Val:
                ex_.safety(st_, 'unpack-arity', tgt, arity(v) == n)
                return [comp(v, i) for i in range(n)]
            return NotImplemented
        ex.unpack_hook = unpack
        orig_as_int = ex.as_int

        def as_int(v):
            if isinstance(v, z3.ExprRef) and v.sort() == Val:
                return un_int(v)          # ordering comparisons between tags: the values are ints (shape invariant S3)
            return orig_as_int(v)
        ex.as_int = as_int

    def roles(self, cx):
        lists = cx.names_initialised(lambda v: isinstance(v, ast.List) and not v.elts)
        if len(lists) != 2:
            raise RoleError(f'operand / operator stacks: {lists}')
        # the operator stack is the one that is sliced / compared by precedence; the operand stack receives Infix(...) nodes
        ops = None
        for n in ast.walk(cx.tree):
            if isinstance(n, ast.Call) and isinstance(n.func, ast.Attribute) and n.func.attr == 'append' and isinstance(n.func.value, ast.Name) \
                    and n.args and isinstance(n.args[0], ast.Call) and ast.unparse(n.args[0].func) in ('Infix', 'Prefix', 'Postfix'):
                opd = n.func.value.id
                ops = [x for x in lists if x != opd][0]
                break
        if ops is None:
            # no operator rows at all: the list that receives _result first is the operand stack
            opd = lists[0]
            ops = lists[1]
        pos_inits = cx.names_initialised(lambda v: isinstance(v, ast.Name) and v.id == '_pos')
        marker = cx.names_initialised(lambda v: isinstance(v, ast.Constant) and v.value == 0 and not isinstance(v.value, bool))
        return {'ops': ops, 'opd': opd, 'outer_cp': pos_inits[0] if pos_inits else None, 'marker': marker[0] if marker else None}

    # ------------------------------------------------------------------ invariants
    def loop_roles(self, cx):
        """ordinal -> role, from the structure of the emitted text"""
        roles = {}
        order = {}
        counter = [0]

        def number(n):
            if isinstance(n, (ast.While, ast.For)):
                counter[0] += 1
                order[id(n)] = counter[0]
            for c in ast.iter_child_nodes(n):
                number(c)
        number(cx.tree)
        outer = next(s for s in cx.tree.body if isinstance(s, ast.While))
        roles[order[id(outer)]] = 'outer'
        seen_operand = False
        for s in outer.body:
            txt = ast.unparse(s)
            if isinstance(s, ast.While):
                if not seen_operand:
                    roles[order[id(s)]] = 'prefix'
                elif '_CHILD_4' in txt:
                    roles[order[id(s)]] = 'postfix'
                    for inner in ast.walk(s):
                        if isinstance(inner, ast.While) and inner is not s:
                            roles[order[id(inner)]] = 'reduce'
                else:
                    roles[order[id(s)]] = 'reduce-infix'
            if '_CHILD_1' in txt and not isinstance(s, ast.While):
                seen_operand = True
        for s in cx.tree.body:
            if isinstance(s, ast.If):
                for inner in ast.walk(s):
                    if isinstance(inner, ast.While):
                        roles[order[id(inner)]] = 'reduce-final'
        return roles

    def loops(self, cx):
        R = self.roles(cx)
        i = Const('i', I)

        def common(ex, st, phase):
            ops, opd = st.env[R['ops']], st.env[R['opd']]
            PS = st.ghost['PS']
            sn, on = ops.n, opd.n
            a = ops.arrs[0]
            yield 'S1 lengths', And(sn >= 0, on >= 0, st.ghost['nparsed'] >= 0)
            yield 'S2 PS are the prefix sums of "is an infix entry"', And(Select(PS, 0) == 0, ForAll([i], Implies(And(0 <= i, i < sn), And(
                Select(PS, i + 1) == Select(PS, i) + If(un_int(comp(Select(a, i), 1)) != 0, 1, 0), Select(PS, i) >= 0))), Select(PS, sn) >= 0)
            yield 'S3 every operator entry is a (precedence, associativity, operator) triple of ints', ForAll([i], Implies(And(0 <= i, i < sn), And(
                arity(Select(a, i)) == 3, kind(comp(Select(a, i), 0)) == K_INT, kind(comp(Select(a, i), 1)) == K_INT, Select(a, i) != NONE,
                truthy(comp(Select(a, i), 1)) == (un_int(comp(Select(a, i), 1)) != 0))))
            yield 'S4 operands = infix entries + phase', on == Select(PS, sn) + phase
            pos = st.env['_pos']
            yield 'S6 position in range', And(0 <= pos, pos <= cx.N, reach(pos))
            yield 'S8 an operand is on the stack iff one was parsed', (on >= 1) == (st.ghost['nparsed'] >= 1) if phase == 0 else And(on >= 1, st.ghost['nparsed'] >= 1)

        def outer_inv(ex, st, at_head=True):
            yield from common(ex, st, 0)
            if at_head:
                yield 'S12 nothing is consumed before the first prefix / operand attempt', Implies(st.env[R['opd']].n == 0, st.env['_pos'] == cx.p0)
            ops, opd = st.env[R['ops']], st.env[R['opd']]
            PS = st.ghost['PS']
            mk, cp = st.env[R['marker']], st.env[R['outer_cp']]
            yield 'S7 the operators above the marker are one pending infix operator and prefix operators', Implies(opd.n >= 1, And(
                0 <= mk, mk < ops.n, opd.n == Select(PS, mk) + 1))
            yield 'S9 outer checkpoint = end of the last operand / postfix parsed', And(cp == st.ghost['last_end'], 0 <= cp, cp <= cx.N, reach(cp),
                                                                                           Implies(opd.n == 0, cp == cx.p0))
            if at_head:
                yield 'S13 no operator is pending before the first operand', Implies(opd.n == 0, ops.n == 0)

        def prefix_inv(ex, st):
            yield from outer_inv(ex, st, at_head=False)

        def after_operand_inv(ex, st):
            yield from common(ex, st, 1)
            yield 'S14 position = end of the last operand / postfix parsed', st.env['_pos'] == st.ghost['last_end']

        def reduce_infix_inv(ex, st):
            yield from common(ex, st, 1)
            ops = st.env[R['ops']]
            mk, cp = st.env[R['marker']], st.env[R['outer_cp']]
            yield 'S10 reductions only shrink the operator stack below the marker', And(ops.n <= mk)
            yield 'S15 the incoming operator\'s precedence is kept', And(st.env['_prec'] == st.ghost['prec_in'], st.ghost['prec_in'] != NONE)
            yield 'S9 outer checkpoint = end of the last operand / postfix parsed', And(cp == st.ghost['last_end'], 0 <= cp, cp <= cx.N, reach(cp))

        def final_inv(ex, st):
            yield from common(ex, st, 1)
            yield 'S11 final position = end of the last operand / postfix parsed', st.env['_pos'] == st.ghost['last_end']

        def havoc(ex, st):
            st.ghost['PS'] = ex.fv('PS', z3.ArraySort(I, I))
            st.ghost['nparsed'] = ex.fv('nparsed', I)
            st.ghost['last_end'] = ex.fv('last_end', I)
            # ground instance of S2/S3 at the top of the operator stack (what a pop / top-of-stack read needs)
            ops = st.env[R['ops']]
            PS, a, sn = st.ghost['PS'], ops.arrs[0], ops.n
            top = Select(a, sn - 1)

        def enter_reduce_infix(ex, st):
            st.ghost['prec_in'] = ex.box(st.env['_prec'])

        specs = {}
        for ordn, role in self.loop_roles(cx).items():
            inv = {'outer': outer_inv, 'prefix': prefix_inv, 'postfix': after_operand_inv, 'reduce': after_operand_inv,
                   'reduce-infix': reduce_infix_inv, 'reduce-final': final_inv}[role]
            specs[ordn] = LoopSpec(inv, havoc=havoc, enter=enter_reduce_infix if role == 'reduce-infix' else None)
        return specs

    # ------------------------------------------------------------------ postcondition
    def spec(self, cx, ex, st):
        R = self.roles(cx)
        g = st.ghost
        ok = g['nparsed'] >= 1
        opd = st.env[R['opd']]
        extra = [
            ('P-one-tree: exactly one tree remains on the operand stack', Implies(ok, opd.n == 1)),
            ('P-fail: without any operand the table fails', Implies(Not(ok), opd.n == 0)),
        ]
        res = st.env['_result']
        return Outcome(ok, res, g['last_end'], extra)


class CreateC:
    """OperatorTable.create: tagging of rows (case-complete over row kinds, abstract operators)"""
    KINDS = ['prefix', 'left', 'right', 'infix', 'postfix', 'mixfix']

    def obligations(self, rep, tier, unit='ground:OperatorTable.create'):
        import itertools

        def row(assoc, ops):
            return type('Row', (), {'associativity': assoc, 'operators': ops})()
        n = 2 if tier == 'quick' else 3
        for kinds in itertools.chain.from_iterable(itertools.product(self.KINDS, repeat=r) for r in range(1, n + 1)):
            opd = Stub(1, False, True)
            stubs = {}
            rows = []
            k = 10
            for ri, kd in enumerate(kinds):
                ops = [Stub(k, False, False)] if ri % 2 == 0 else [Stub(k, False, False), Stub(k + 1, False, True)]
                stubs[ri] = ops
                k += 2
                rows.append(row(kd, ops))
            t = X.OperatorTable.create(opd, rows)
            ok, why = self.check(t, opd, kinds, stubs)
            rep.add(unit, f'rows {"/".join(kinds)}: each row becomes its operators tagged (row index, kind) in the right group, groups combined by Longest in row order',
                    'case_complete', ok, detail={'why': why})
        # empty rows are skipped, an empty table is the operand itself
        t = X.OperatorTable.create(Stub(1, False, True), [row('left', [])])
        rep.add(unit, 'a row without operators contributes nothing', 'case_complete', t.infixes is None and t.prefixes is None and t.postfixes is None)

    def check(self, t, opd, kinds, stubs):
        def members(e):
            if e is None:
                return []
            return list(e.exprs) if isinstance(e, X.Longest) else [e]
        want = {'prefixes': [], 'infixes': [], 'postfixes': [], 'operands': [('operand', None, None)]}
        assoc_id = {'prefix': 0, 'left': 1, 'right': 2, 'infix': 3}
        for ri, kd in enumerate(kinds):
            if kd == 'mixfix':
                want['operands'].append(('mixfix', ri, None))
            elif kd == 'postfix':
                want['postfixes'].append((f'lambda x: ({ri}, x)', ri, None))
            elif kd == 'prefix':
                want['prefixes'].append((f'lambda x: ({ri}, 0, x)', ri, None))
            else:
                want['infixes'].append((f'lambda x: ({ri}, {assoc_id[kd]}, x)', ri, None))
        for group, exp in want.items():
            got = members(getattr(t, group))
            if len(got) != len(exp):
                return False, f'{group}: {len(got)} members, expected {len(exp)}'
            for g, (tagger, ri, _) in zip(got, exp):
                if tagger == 'operand':
                    if g is not opd:
                        return False, 'first operand form is not the operand'
                    continue
                ops = stubs[ri]
                inner = g if tagger == 'mixfix' else (g.expr1 if isinstance(g, X.Apply) and not g.apply_left else None)
                if inner is None:
                    return False, f'{group}: member is not Apply(operators, tagger)'
                if tagger != 'mixfix' and not (isinstance(g.expr2, X.PythonExpression) and g.expr2.source_code == tagger):
                    return False, f'{group}: tagger {getattr(g.expr2, "source_code", None)!r}, expected {tagger!r}'
                if len(ops) == 1:
                    if inner is not ops[0]:
                        return False, f'{group}: single operator not used as is'
                elif not (isinstance(inner, X.Choice) and list(inner.exprs) == ops):
                    return False, f'{group}: several operators of a row are not an ordered choice in row order'
        return True, None


OPTABLE = [OpTableC()]
