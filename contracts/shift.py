"""C08 shift clause, as a lemma over the SPEC functions (not over code): if every child outcome is shift-invariant
(ok'(q) = ok(q+k), end'(q)+k = end(q+k), equal values - primed = the same grammar run on text[k:]), then so is the outcome the
spec assigns to the combinator; the literal leaves are shift-invariant by definition of text[k:].  Loop classes (List, Sep,
Skip) are covered through their recursive spec functions by the same argument on paper; Regex by the re contract without
anchors / look-behind; Backtrack is excluded (it looks behind the start)."""
import z3
from z3 import And, Or, Not, Implies, If, IntVal, BoolVal, Const, Function, ForAll, Select, Array

from pyvc.fragver import Child, Cx, Outcome, RHO0
from pyvc.symx import Val, I, B, St, Exec, VC, TextV
from pyvc.solve import discharge
import ast


class ShiftedChild(Child):
    pass


def lemma_for(contract, cfg, rep, unit):
    node, kids = contract.build(cfg)
    k = Const('k_shift', I)
    # world A: text T (length N), start p0 + k ; world B: text T' = T[k:] (length N - k), start p0
    cxA = Cx(contract, dict(cfg), node, kids, False)
    kidsB = [Child(100 + c.k, c.a_s, c.cps) for c in kids]
    cxB = Cx(contract, dict(cfg), node, kidsB, False)
    cxB.kids = {c.k: kb for c, kb in zip(kids, kidsB)}          # same child numbers, other function symbols
    exA, exB = Exec(ast.parse('pass')), Exec(ast.parse('pass'))
    cxA.ex, cxB.ex = exA, exB
    p = Const('p_shift', I)
    cxA.p0 = p + k
    cxB.p0 = p
    cxB.N = cxA.N - k
    TA = Array('TEXT', I, I)
    TB = Array('TEXT_shifted', I, I)
    cxA.text = TextV(TA, cxA.N, bool(cfg.get('bytes', False)))
    cxB.text = TextV(TB, cxB.N, bool(cfg.get('bytes', False)))
    q = Const('q_shift', I)
    hyps = [k >= 0, p >= 0, p + k <= cxA.N, ForAll([q], Select(TB, q) == Select(TA, q + k))]
    for c, cb in zip(kids, kidsB):
        hyps.append(ForAll([q], And(cb.ok(q, RHO0) == c.ok(q + k, RHO0), cb.val(q, RHO0) == c.val(q + k, RHO0),
                                    cb.end(q, RHO0) + k == c.end(q + k, RHO0))))
    stA, stB = St(), St()
    contract.setup(cxA, exA, stA) if hasattr(contract, 'setup') else None
    contract.setup(cxB, exB, stB) if hasattr(contract, 'setup') else None
    cxA.entry_env, cxB.entry_env = {}, {}
    oa, ob = contract.spec(cxA, exA, stA), contract.spec(cxB, exB, stB)
    goal = And(oa.ok == ob.ok, Implies(oa.ok, And(exA.box(oa.val) == exB.box(ob.val), oa.end == ob.end + k)))
    v = discharge(VC('shift', hyps, goal, 'lemma'), exA.axioms + exB.axioms)
    rep.add(unit, f'{contract.cls_name}[{contract.label(cfg)}]: shift-invariant children give a shift-invariant outcome', 'smt-lemma',
            True if v.status == 'unsat' else (False if v.status == 'sat' else None), detail={'model': str(v.model)[:500]})


def shift_lemmas(rep, tier, unit='lemma:shift-invariance-of-the-spec'):
    from . import core, bind
    done = 0
    for c in (core.OptC(), core.ChoiceC(), core.LongestC(), core.SeqC(), core.DiscardC(), core.ExpectC(), core.ExpectNotC(), core.StrC(), core.ByteC(),
              bind.WhereC(), bind.ApplyC()):
        seen = set()
        for cfg in c.configs(tier):
            if cfg.get('ctx') or cfg.get('skip'):
                continue
            key = (len(cfg.get('flags', [])), cfg.get('value_ix'), cfg.get('byte'), cfg.get('discard_left'), cfg.get('apply_left'))
            if key in seen:          # the spec does not depend on the child flags: one lemma per arity / literal / option
                continue
            seen.add(key)
            lemma_for(c, cfg, rep, unit)
            done += 1
    # guard: the lemma must NOT be provable for Backtrack (it looks behind the start) - an engine that proves it proves anything
    from pyvc.report import Report
    probe = Report('probe', tier, 0)
    lemma_for(core.BacktrackC(), {'amount': 2}, probe, unit)
    rep.add(unit, 'guard: the shift lemma is refuted for Backtrack(2), as it must be', 'smt-lemma', probe.obls[0].verdict == 'failed')
    return done
