"""Contracts for binding forms and data-dependent predicates (C05): Let, Where, Apply, class bodies
(Seq with names / constructor), inline Python.

Environment model: user-visible names are python locals of the generated function; a child's outcome is
a function of (position, rho) where rho packs the CURRENT values of the user names in scope."""
import itertools
import z3
from z3 import And, Or, Not, Implies, If, IntVal, BoolVal, Const, Function, Select, Store, Array

from pyvc.frag import ex as X, Stub, FLAGS
from pyvc.fragver import (FragContract, Child, Outcome, RHO0, env_f, reach, md, md_owner, class_of, nfields, field, birth)
from pyvc.symx import Val, I, B, NONE, truthy, app, kind, K_OBJ, Tup
from .core import mk_children, flag_products


def rho_of(names, vals):
    n = len(names)
    if n not in env_f:
        env_f[n] = Function(f'env{n}', *([Val] * n), Val)
    return env_f[n](*vals)


class LetC(FragContract):
    """let x = a in b : b runs where a ended, with x bound to a's value; fails when a fails (b not run)"""
    cls_name = 'Let'

    def configs(self, tier):
        for fl in flag_products(2):
            for ctx in (False, True):
                # x is already in scope at entry (shadowing), y is an unrelated outer binding
                yield {'flags': fl, 'ctx': ctx, 'user_names': ['x', 'y'], 'user_sorts': {'x': 'val', 'y': 'val'},
                       'binds': ['x'], 'scope_names': ['x', 'y']}

    def build(self, cfg):
        nodes, kids = mk_children(cfg['flags'])
        return X.Let('x', nodes[0], nodes[1]), kids

    def spec(self, cx, ex, st):
        a, b = cx.kids[1], cx.kids[2]
        x0, y0 = cx.entry_env['x'], cx.entry_env['y']
        r0 = rho_of(['x', 'y'], [x0, y0])
        p = cx.p0
        r1 = rho_of(['x', 'y'], [a.val(p, r0), y0])
        q = a.end(p, r0)
        # the binding is made only when its expression succeeded: an abandoned let leaves the name as it was (this clause is separate from
        # G-scope[x], whose failure on the SUCCESS path - the binding outlives the let - is the known finding)
        extra = [('Let-abandoned: when the binding expression fails the name keeps its value', Implies(Not(a.ok(p, r0)), ex.box(st.env['x']) == x0))]
        return Outcome(And(a.ok(p, r0), b.ok(q, r1)), b.val(q, r1), b.end(q, r1), extra)

    def ref(self, cx, W, user):
        ok, v, q = W.child(1, W.p0, user)
        if not ok:
            return False, None, q
        u2 = dict(user, x=v)
        return W.child(2, q, u2)


class WhereC(FragContract):
    """e where f : e's value iff f (parsed after e) yields a callable that is truthy on it"""
    cls_name = 'Where'

    def configs(self, tier):
        for fl in flag_products(2):
            yield {'flags': fl, 'ctx': False}

    def build(self, cfg):
        nodes, kids = mk_children(cfg['flags'])
        return X.Where(nodes[0], nodes[1]), kids

    def spec(self, cx, ex, st):
        e, f = cx.kids[1], cx.kids[2]
        p = cx.p0
        q = e.end(p, RHO0)
        ok = And(e.ok(p, RHO0), f.ok(q, RHO0), truthy(app(f.val(q, RHO0), e.val(p, RHO0))))
        return Outcome(ok, e.val(p, RHO0), f.end(q, RHO0))

    def ref(self, cx, W, user):
        ok, v, q = W.child(1, W.p0)
        if not ok:
            return False, None, q
        ok2, fv, q2 = W.child(2, q)
        if not ok2:
            return False, None, q2
        t = W.truth(truthy(app(W.to_term(fv), W.to_term(v))))
        return (True, v, q2) if t else (False, None, q2)


class ApplyC(FragContract):
    """a |> f  and  f <| a : the second operand is parsed after the first; the result is f(a)"""
    cls_name = 'Apply'

    def configs(self, tier):
        for fl in flag_products(2):
            for left in (False, True):
                yield {'flags': fl, 'apply_left': left, 'ctx': False}

    def build(self, cfg):
        nodes, kids = mk_children(cfg['flags'])
        return X.Apply(nodes[0], nodes[1], apply_left=cfg['apply_left']), kids

    def spec(self, cx, ex, st):
        a, b = cx.kids[1], cx.kids[2]
        p = cx.p0
        q = a.end(p, RHO0)
        v1, v2 = a.val(p, RHO0), b.val(q, RHO0)
        val = app(v1, v2) if cx.cfg['apply_left'] else app(v2, v1)
        return Outcome(And(a.ok(p, RHO0), b.ok(q, RHO0)), val, b.end(q, RHO0))

    def ref(self, cx, W, user):
        from pyvc.replay import Applied
        ok, v1, q = W.child(1, W.p0)
        if not ok:
            return False, None, q
        ok2, v2, q2 = W.child(2, q)
        if not ok2:
            return False, None, q2
        return True, (Applied(v1, (v2,)) if cx.cfg['apply_left'] else Applied(v2, (v1,))), q2

    def native_check(self, cx, W, nat):
        return []


class PyExprC(FragContract):
    """inline python: always succeeds with the expression's value, consumes nothing; a bound name denotes its current value"""
    cls_name = 'PythonExpression'

    def configs(self, tier):
        yield {'code': 'n', 'user_sorts': {'n': 'val'}, 'ctx': False}
        yield {'code': 'None', 'ctx': False}
        yield {'code': '42', 'ctx': False}
        yield {'code': 'G', 'globals': {'G': 'val'}, 'ctx': True}

    def build(self, cfg):
        return X.PythonExpression(cfg['code']), []

    def spec(self, cx, ex, st):
        code = cx.cfg['code']
        val = {'n': lambda: cx.entry_env['n'], 'None': lambda: NONE, '42': lambda: ex.box(IntVal(42)),
               'G': lambda: Const('G_G', Val)}[code]()
        return Outcome(BoolVal(True), val, cx.p0)

    def ref(self, cx, W, user):
        code = cx.cfg['code']
        val = {'n': lambda: user['n'], 'None': lambda: None, '42': lambda: 42, 'G': lambda: W.tok(Const('G_G', Val))}[code]()
        return True, val, W.p0


# member kinds of a class body: f = plain named field, l = `let` field (named, omitted), p = pass / requires (unnamed)
MEMBER_SHAPES = ['', 'f', 'l', 'p', 'ff', 'fl', 'lf', 'pf', 'fp', 'lp', 'flf', 'lfp', 'pff', 'fpf', 'lll']


class ClassSeqC(FragContract):
    """body of a class rule (what Class._compile builds): members run in order, member j sees the earlier NAMED members;
    result = fresh instance of the class over the named non-omitted members in declaration order, with the raw span
    (start, end) in its metadata; nothing else on the heap is written"""
    cls_name = 'Seq'

    def label(self, cfg):
        return f"class-body,members={cfg['members']!r},flags={cfg['flags']},ctx={cfg['ctx']}"

    def configs(self, tier):
        shapes = MEMBER_SHAPES if tier == 'thorough' else [s for s in MEMBER_SHAPES if len(s) <= 2] + ['flf', 'lfp']
        for sh in shapes:
            n = len(sh)
            combos = flag_products(n) if n <= 2 else [list(t) for t in itertools.product(('AS', 'NP', 'PS'), repeat=n)][::4]
            for fl in combos:
                names = [f'm{i + 1}' if k in 'fl' else None for i, k in enumerate(sh)]
                user = [x for x in names if x] + ['prm']
                yield {'members': sh, 'flags': fl, 'ctx': False, 'user_names': user, 'user_sorts': {'prm': 'val'},
                       'binds': [x for x in names if x], 'scope_names': ['prm']}

    def build(self, cfg):
        nodes, kids = mk_children(cfg['flags'])
        sh = cfg['members']
        names = [f'm{i + 1}' if k in 'fl' else None for i, k in enumerate(sh)]
        fields = [f'm{i + 1}' for i, k in enumerate(sh) if k == 'f']
        n = X.Seq(*nodes, names=names, constructor='Foo', constructor_args=fields)
        return n, kids

    def setup(self, cx, ex, st):
        cx.ctor_names = ('Foo',)
        st.heap['position_info'] = Array('H0_position_info', Val, Val)

    def walk(self, cx):
        """-> (oks, vals per member, end, names)"""
        sh = cx.cfg['members']
        names = cx.user_names
        cur = {n: Const(f'UNBOUND_{n}', Val) for n in names}
        cur['prm'] = cx.entry_env['prm']
        q, oks, vals = cx.p0, [], []
        for i, k in enumerate(sh):
            c = cx.kids[i + 1]
            rho = rho_of(names, [cur[n] for n in names])
            oks.append(c.ok(q, rho))
            v = c.val(q, rho)
            vals.append(v)
            if k in 'fl':
                cur[f'm{i + 1}'] = v
            q = c.end(q, rho)
        return oks, vals, q

    def spec(self, cx, ex, st):
        sh = cx.cfg['members']
        oks, vals, q = self.walk(cx)
        ok = And(*oks) if oks else BoolVal(True)
        res = ex.box(st.env['_result'])
        fvals = [v for v, k in zip(vals, sh) if k == 'f']
        H0 = Array('H0_position_info', Val, Val)
        H = st.heap['position_info']
        span = ex.box(Tup([cx.p0, q]))
        extra = [
            ('C-instance', Implies(ok, And(kind(res) == K_OBJ, class_of(res) == Const('CLASS_Foo', Val), nfields(res) == len(fvals)))),
            ('C-fresh', Implies(ok, birth(res) > 0)),
            ('C-span', Implies(ok, Select(H, md(res)) == span)),
            ('C-heap-frame', If(ok, H == Store(H0, md(res), span), H == H0)),
        ]
        for i, v in enumerate(fvals):
            extra.append((f'C-field[{i}]', Implies(ok, field(res, i) == v)))
        return Outcome(ok, res, q, extra)

    def ref(self, cx, W, user):
        sh = cx.cfg['members']
        cur = dict(user)
        q, vals = W.p0, []
        for i, k in enumerate(sh):
            ok, v, q = W.child(i + 1, q, cur)
            if not ok:
                return False, None, q
            vals.append(v)
            if k in 'fl':
                cur[f'm{i + 1}'] = v
        return True, ('Foo', [v for v, k in zip(vals, sh) if k == 'f'], (W.p0, q)), q

    def native_check(self, cx, W, nat):
        return []


BIND = [LetC(), WhereC(), ApplyC(), PyExprC(), ClassSeqC()]
