#!/usr/bin/env python3
"""regenerates MANIFEST.json from checks/manifest_data.py (kept in one place so it stays valid)"""
import json, os, sys
sys.path.insert(0, os.path.dirname(os.path.abspath(__file__)))
from checks.manifest_data import CHECKS, NOT_APPLICABLE, NOTES
props = [json.loads(l)['id'] for l in open('properties.jsonl')]
checks = []
for pid in props:
    if pid in CHECKS:
        c = CHECKS[pid]
        checks.append({
            'property_id': pid,
            'quick_cmd': f'./check {pid} --tier quick',
            'thorough_cmd': f'./check {pid} --tier thorough',
            'evidence_file': f'evidence/{pid}.json',
            'replay_cmd_template': f'./check {pid} --replay {{path}}',
            'engine': 'pyvc',
            'level_claimed': {'category': c['category'], 'text': c['text'], 'design_ref': c['design_ref']},
            'level_note': c['note'],
            'technique': c['technique'],
        })
na = [{'property_id': pid, 'reason': NOT_APPLICABLE.get(pid, 'check not built yet (work in progress, see DESIGN.md section 9)')}
      for pid in props if pid not in CHECKS]
m = {
    'version': 1,
    'setup_cmd': './setup.sh',
    'hooks': {'guard': 'JVS_SOURCER_VERIF', 'enable': 'no hooks in /repo: extraction uses the public Python objects of the working tree (VERIF_REPO, default /repo); the guard variable is set by the checks but nothing in /repo reads it',
              'baseline_off_cmd': 'cd /repo && /venv/bin/python -m pytest -ra -q -p no:cacheprovider --timeout=900 --continue-on-collection-errors',
              'source_commits': [], 'add_only': True},
    'engines': [{'name': 'pyvc', 'path': 'pyvc/', 'serves_properties': sorted(CHECKS),
                 'kind_free_text': 'contract-based deductive verification: mechanical extraction of emitted fragments (real _compile over abstract stub children) and of run-time functions from the translator templates; AST -> VC generation by forward symbolic execution against sidecar contracts; z3 (+cvc5) discharge; native replay of counter-models'}],
    'checks': checks,
    'notes': NOTES,
    'not_applicable': na,
}
json.dump(m, open('MANIFEST.json', 'w'), indent=1)
print('MANIFEST.json:', len(checks), 'checks,', len(na), 'not applicable')
