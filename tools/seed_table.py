#!/usr/bin/env python3
"""runs every stored seeded change against its property's quick check and writes seeded/RESULTS.md (a table for DESIGN.md)"""
import json, os, subprocess, glob, re
os.chdir('/verif')
env = dict(os.environ, VERIF_EVIDENCE_DIR='/scratch/seed_evidence')
os.makedirs('/scratch/seed_evidence', exist_ok=True)
rows = []
for d in sorted(glob.glob('seeded/C*-*/')):
    sid = os.path.basename(d.rstrip('/'))
    prop = sid.split('-')[0]
    meta = json.load(open(d + 'meta.json'))
    patch = os.path.abspath(d + 'patch.diff')
    # a scratch export of /repo's HEAD with the change applied (VERIF_REPO): /repo itself is never touched
    S = '/scratch/seed_table_repo'
    subprocess.run(f'rm -rf {S}; mkdir -p {S}; git -C /repo archive HEAD | tar -x -C {S}', shell=True, check=True)
    if subprocess.run(f'cd {S} && patch -p1 -s < {patch}', shell=True, capture_output=True).returncode != 0:
        rows.append((sid, 'patch does not apply', '', meta)); continue
    r = subprocess.run(['./check', prop], capture_output=True, text=True, env=dict(env, VERIF_REPO=S), timeout=1800)
    v = [l for l in r.stdout.splitlines() if l.startswith('VIOLATION')]
    nrep = sum(1 for l in v if 'no-failing-input-found' not in l)
    first = ''
    if v:
        m = re.search(r'obligation=(.*?)( no-failing-input-found)?$', v[0])
        first = m.group(1)[:110] if m else ''
    und = [l for l in r.stdout.splitlines() if l.startswith(('UNDECIDED', 'CHECKER'))]
    verdict = {0: 'MISSED (exit 0)', 1: f'VIOLATION ({len(v)} line(s), {nrep} with replayed input)', 2: 'UNDECIDED (exit 2, alarm without VIOLATION line)', 3: 'CHECKER-FAULT (exit 3)'}.get(r.returncode, str(r.returncode))
    rows.append((sid, verdict, first or (und[0][:110] if und else ''), meta))
with open('seeded/RESULTS.md', 'w') as f:
    f.write('| seed | what the change does (independent sub-agent) | result of `./check <property>` | first failing obligation |\n|---|---|---|---|\n')
    for sid, verdict, first, meta in rows:
        what = ' '.join(meta['breaks'].split())[:230].replace('|', '\\|')
        f.write(f'| {sid} | {what} | {verdict} | `{first.replace("|", "/")}` |\n')
subprocess.run('rm -rf /scratch/seed_table_repo', shell=True)
print(len(rows), 'seeds;', sum(1 for r in rows if r[1].startswith('VIOLATION')), 'violations;', [r[0] for r in rows if not r[1].startswith('VIOLATION')])
