#!/usr/bin/env python3
"""runs every stored seeded change against its property's quick check and writes seeded/RESULTS.md (a table for DESIGN.md)"""
import json, os, subprocess, glob, re
os.chdir('/verif')
env = dict(os.environ, VERIF_EVIDENCE_DIR='/scratch/seed_evidence')
os.makedirs('/scratch/seed_evidence', exist_ok=True)
from concurrent.futures import ThreadPoolExecutor
WORKERS = int(os.environ.get('SEED_TABLE_WORKERS', '3'))


def one(d):
    sid = os.path.basename(d.rstrip('/'))
    prop = sid.split('-')[0]
    meta = json.load(open(d + 'meta.json'))
    patch = os.path.abspath(d + 'patch.diff')
    # a scratch export of /repo's HEAD with the change applied (VERIF_REPO): /repo itself is never touched
    S = f'/scratch/seed_table_repo_{sid}'
    subprocess.run(f'rm -rf {S}; mkdir -p {S}; git -C /repo archive HEAD | tar -x -C {S}', shell=True, check=True)
    try:
        if subprocess.run(f'cd {S} && patch -p1 -s < {patch}', shell=True, capture_output=True).returncode != 0:
            return (sid, 'patch does not apply', '', meta)
        ev = f'/scratch/seed_evidence/{sid}'
        os.makedirs(ev, exist_ok=True)
        r = subprocess.run(['./check', prop], capture_output=True, text=True, env=dict(env, VERIF_REPO=S, VERIF_EVIDENCE_DIR=ev, VERIF_REPLAY_DIR=ev + '/replays'), timeout=2400)
    finally:
        subprocess.run(f'rm -rf {S}', shell=True)
    v = [l for l in r.stdout.splitlines() if l.startswith('VIOLATION')]
    nrep = sum(1 for l in v if 'no-failing-input-found' not in l)
    first = ''
    if v:
        m = re.search(r'obligation=(.*?)( no-failing-input-found)?$', v[0])
        first = m.group(1)[:110] if m else ''
    und = [l for l in r.stdout.splitlines() if l.startswith(('UNDECIDED', 'CHECKER'))]
    verdict = {0: 'MISSED (exit 0)', 1: f'VIOLATION ({len(v)} line(s), {nrep} with replayed input)', 2: 'UNDECIDED (exit 2, alarm without VIOLATION line)', 3: 'CHECKER-FAULT (exit 3)'}.get(r.returncode, str(r.returncode))
    print(sid, verdict, flush=True)
    return (sid, verdict, first or (und[0][:110] if und else ''), meta)


# SEED_TABLE_ONLY=<regex>: re-run only the seeds whose id matches; the other rows are kept from the existing RESULTS.md
ONLY = os.environ.get('SEED_TABLE_ONLY')
kept = {}
if ONLY and os.path.exists('seeded/RESULTS.md'):
    for line in open('seeded/RESULTS.md'):
        m = re.match(r'\| (C\d\d-[^ ]+) \|', line)
        if m:
            kept[m.group(1)] = line
dirs = sorted(glob.glob('seeded/C*-*/'))
todo = [d for d in dirs if not ONLY or re.search(ONLY, os.path.basename(d.rstrip('/'))) or os.path.basename(d.rstrip('/')) not in kept]
with ThreadPoolExecutor(WORKERS) as pool:
    done = {r[0]: r for r in pool.map(one, todo)}
rows = [done.get(os.path.basename(d.rstrip('/'))) or (os.path.basename(d.rstrip('/')), 'KEPT', kept[os.path.basename(d.rstrip('/'))], None) for d in dirs]
with open('seeded/RESULTS.md', 'w') as f:
    f.write('| seed | what the change does (independent sub-agent) | result of `./check <property>` | first failing obligation |\n|---|---|---|---|\n')
    for sid, verdict, first, meta in rows:
        if verdict == 'KEPT':
            f.write(first)
            continue
        what = ' '.join(meta['breaks'].split())[:230].replace('|', '\\|')
        f.write(f'| {sid} | {what} | {verdict} | `{first.replace("|", "/")}` |\n')
subprocess.run('rm -rf /scratch/seed_evidence', shell=True)
print(len(rows), 'seeds;', len(todo), 're-run;', sum(1 for r in rows if r[1].startswith('VIOLATION')), 'violations among them;', [r[0] for r in rows if not r[1].startswith(('VIOLATION', 'KEPT'))])
