#!/bin/bash
# usage: stability.sh <rounds> [parallel]  : runs every claimed check repeatedly (optionally several at once, to create load) and reports any non-zero exit
cd "$(dirname "$0")/.."
[ -x .venv/bin/python ] || ./setup.sh >/dev/null
export VERIF_EVIDENCE_DIR=$(mktemp -d)
R=${1:-3}; P=${2:-1}
ids=$(python3 -c "import json; print(' '.join(c['property_id'] for c in json.load(open('MANIFEST.json'))['checks']))")
fail=0
for r in $(seq 1 $R); do
  for id in $ids; do
    ( out=$(./check $id 2>&1); code=$?; if [ $code -ne 0 ]; then echo "ROUND $r $id exit=$code"; echo "$out" | grep -E "VIOLATION|UNDECIDED|CHECKER" | head -3 | cut -c1-250; fi ) &
    while [ $(jobs -r | wc -l) -ge $P ]; do sleep 0.2; done
  done
done
wait
rm -rf "$VERIF_EVIDENCE_DIR"
echo "stability run finished: $R rounds x $(echo $ids | wc -w) checks, parallel=$P"
