#!/bin/bash
# like run_harmless_agent.sh, but on a scratch export of /repo's HEAD (VERIF_REPO), so /repo itself is never touched
# usage: run_harmless_scratch.sh <dir with ref_*.diff> [scratch dir]
export VERIF_EVIDENCE_DIR=/scratch/seed_evidence_h; mkdir -p $VERIF_EVIDENCE_DIR
D=$(realpath ${1:-harmless}); S=${2:-/scratch/h_repo}
cd /verif
ids=$(python3 -c "import json; print(' '.join(c['property_id'] for c in json.load(open('MANIFEST.json'))['checks']))")
for d in $D/ref_*.diff; do
  rm -rf $S; mkdir -p $S; git -C /repo archive HEAD | tar -x -C $S
  # the hunks for the GENERATED sourcer/parser.py are dropped and the file is regenerated from the edited tree, as the project does
  # (so that a diff made before a later fix: commit regenerated parser.py still applies)
  python3 - "$d" > /tmp/h_noparser.diff <<'PY'
import re, sys
parts = re.split(r'(?m)^(?=diff --git )', open(sys.argv[1]).read())
sys.stdout.write(''.join(p for p in parts if not p.startswith('diff --git a/sourcer/parser.py')))
PY
  if ! (cd $S && patch -p1 -s --dry-run < /tmp/h_noparser.diff >/dev/null 2>&1); then echo "$(basename $d): does not apply"; continue; fi
  (cd $S && patch -p1 -s < /tmp/h_noparser.diff)
  python3 /verif/tools/regen_parser.py $S >/dev/null 2>&1
  suite=$(cd $S && /venv/bin/python -m pytest -q -p no:cacheprovider 2>&1 | tail -1)
  alarms=""
  first=1
  for id in $ids; do
    # the dependency layer is the same in every check: run it with the first check only
    if [ $first = 1 ]; then out=$(VERIF_REPO=$S timeout 1800 ./check $id 2>&1); code=$?; first=0
    else out=$(VERIF_REPO=$S VERIF_NO_DEPENDENCY_LAYER=1 timeout 1800 ./check $id 2>&1); code=$?; fi
    if [ $code -ne 0 ]; then alarms="$alarms $id(exit=$code: $(echo "$out" | grep -E '^(VIOLATION|UNDECIDED|CHECKER)' | head -1 | cut -c1-200))"; fi
    bo=$(echo "$out" | grep -c '^BOUNDED-ONLY'); [ $bo -gt 0 ] && alarms="$alarms [$id bounded-only=$bo]"
  done
  echo "$(basename $d): suite: $suite | ${alarms:-no alarm}"
done
rm -rf $S
