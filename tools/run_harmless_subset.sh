#!/bin/bash
# quick re-validation of the stored behaviour-preserving edits after a change of the machinery: per edit, the checks named in CHECKS
# (first one with the dependency layer, i.e. every shared obligation once) on a scratch export; usage: run_harmless_subset.sh <dir> <scratch>
D=$(realpath ${1:-harmless}); S=${2:-/scratch/hs_repo}
CHECKS=${CHECKS:-"C05 C01 C03 C13"}
export VERIF_EVIDENCE_DIR=$S.ev VERIF_REPLAY_DIR=$S.ev/replays; mkdir -p $VERIF_EVIDENCE_DIR
cd /verif
for d in $D/ref_*.diff; do
  rm -rf $S; mkdir -p $S; git -C /repo archive HEAD | tar -x -C $S
  python3 - "$d" > $S.diff <<'PY'
import re, sys
parts = re.split(r'(?m)^(?=diff --git )', open(sys.argv[1]).read())
sys.stdout.write(''.join(p for p in parts if not p.startswith('diff --git a/sourcer/parser.py')))
PY
  if ! (cd $S && patch -p1 -s --dry-run < $S.diff >/dev/null 2>&1); then echo "$(basename $D)/$(basename $d): does not apply"; continue; fi
  (cd $S && patch -p1 -s < $S.diff)
  python3 /verif/tools/regen_parser.py $S >/dev/null 2>&1
  alarms=""; first=1
  for id in $CHECKS; do
    if [ $first = 1 ]; then out=$(VERIF_REPO=$S timeout 1800 ./check $id 2>&1); code=$?; first=0
    else out=$(VERIF_REPO=$S VERIF_NO_DEPENDENCY_LAYER=1 timeout 1800 ./check $id 2>&1); code=$?; fi
    if [ $code -ne 0 ]; then alarms="$alarms $id(exit=$code: $(echo "$out" | grep -E '^(VIOLATION|UNDECIDED|CHECKER)' | head -1 | cut -c1-220))"; fi
    bo=$(echo "$out" | grep -c '^BOUNDED-ONLY'); [ $bo -gt 0 ] && alarms="$alarms [$id bounded-only=$bo]"
  done
  echo "$(basename $D)/$(basename $d): ${alarms:-no alarm}"
done
rm -rf $S $S.diff $S.ev
