#!/bin/bash
export VERIF_EVIDENCE_DIR=/scratch/seed_evidence; mkdir -p $VERIF_EVIDENCE_DIR
# usage: run_seeds.sh [pattern]  : for every stored seeded change, apply to /repo, run its property's quick check, revert
cd /verif
for d in seeded/${1:-*}/; do
  id=$(basename $d); prop=${id%%-*}
  [ -f checks/$(echo $prop | tr A-Z a-z).py ] || { echo "$id: no check for $prop yet"; continue; }
  if ! git -C /repo apply --check /verif/$d/patch.diff 2>/dev/null; then echo "$id: PATCH DOES NOT APPLY"; continue; fi
  git -C /repo apply /verif/$d/patch.diff
  out=$(timeout 600 ./check $prop 2>&1); code=$?
  git -C /repo reset -q --hard HEAD
  nv=$(echo "$out" | grep -c "^VIOLATION"); nrep=$(echo "$out" | grep "^VIOLATION" | grep -vc "no-failing-input-found")
  echo "$id: exit=$code violations=$nv with-replayed-input=$nrep $(echo "$out" | grep -E '^(UNDECIDED|CHECKER)' | head -1 | cut -c1-120)"
done
git -C /repo status --short | head -3
