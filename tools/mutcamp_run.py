"""worker: python run.py <worker-index> <nworkers> ; evaluates mutants i with i % nworkers == worker-index"""
import json, os, subprocess, sys, time
w, nw = int(sys.argv[1]), int(sys.argv[2])
muts = json.load(open('/scratch/mutcamp/mutants.json'))
limit = int(sys.argv[3]) if len(sys.argv) > 3 else len(muts)
S = f'/scratch/mutcamp/w{w}'
out = open(f'/scratch/mutcamp/results_{w}.jsonl', 'a')
done = set()
if os.path.exists(f'/scratch/mutcamp/results_{w}.jsonl'):
    for l in open(f'/scratch/mutcamp/results_{w}.jsonl'):
        try: done.add(json.loads(l)['i'])
        except Exception: pass
ids = [c['property_id'] for c in json.load(open('/verif/MANIFEST.json'))['checks']]
order = [i for i in ids if i != 'C02'] + ['C02']
for i, m in enumerate(muts[:limit]):
    if i % nw != w or i in done:
        continue
    subprocess.run(f'rm -rf {S}; mkdir -p {S}; git -C /repo archive HEAD | tar -x -C {S}', shell=True, check=True)
    p = os.path.join(S, m['file'])
    lines = open(p).read().split('\n')
    if 'text_old' in m:
        if lines[m['line'] - 1] != m['text_old']:
            continue
        lines[m['line'] - 1] = m['text_new']
    else:
        t = lines[m['line'] - 1]
        if t[m['col']:m['end_col']] != m['old']:
            continue
        lines[m['line'] - 1] = t[:m['col']] + m['new'] + t[m['end_col']:]
    open(p, 'w').write('\n'.join(lines))
    rec = {'i': i, **m}
    # templates changed -> regenerate parser.py as the project would (keeps C12/G0 meaningful)
    r = subprocess.run(['/venv/bin/python', '-m', 'pytest', '-q', '-x', '-p', 'no:cacheprovider', '--timeout=120'], cwd=S, capture_output=True, text=True, timeout=900)
    tail = (r.stdout.strip().splitlines() or [''])[-1]
    if '52 passed' not in tail:
        rec['status'] = 'killed-by-tests'
        out.write(json.dumps(rec) + '\n'); out.flush()
        continue
    if 'text_old' in m:
        subprocess.run(['python3', '/verif/tools/regen_parser.py', S], capture_output=True, text=True, timeout=600)
    killed = None
    t0 = time.time()
    for pid in order:
        env = dict(os.environ, VERIF_REPO=S, VERIF_EVIDENCE_DIR=f'/scratch/mutcamp/ev{w}')
        try:
            c = subprocess.run(['./check', pid], cwd='/verif', capture_output=True, text=True, env=env, timeout=1800)
        except subprocess.TimeoutExpired:
            killed = (pid, 'timeout', ''); break
        if c.returncode != 0:
            first = next((l for l in c.stdout.splitlines() if l.startswith(('VIOLATION', 'UNDECIDED', 'CHECKER'))), '')
            killed = (pid, c.returncode, first[:200]); break
    rec['status'] = 'survived' if killed is None else f'killed-by-{killed[0]}-exit{killed[1]}'
    rec['first'] = killed[2] if killed else ''
    rec['secs'] = round(time.time() - t0)
    out.write(json.dumps(rec) + '\n'); out.flush()
subprocess.run(f'rm -rf {S}', shell=True)
