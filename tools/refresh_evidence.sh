#!/bin/bash
# re-runs every claimed check (quick) on /repo as it is and rewrites evidence/<id>.json; run before committing evidence
cd /verif
[ -z "$(git -C /repo status --porcelain)" ] || { echo "/repo has uncommitted changes - refusing"; exit 1; }
unset VERIF_EVIDENCE_DIR
for id in $(python3 -c "import json; print(' '.join(c['property_id'] for c in json.load(open('MANIFEST.json'))['checks']))"); do
  out=$(./check $id 2>&1); code=$?
  echo "$id exit=$code $(echo "$out" | tail -1 | cut -c1-140)"
done
.venv/bin/python - <<'PY'
import json, jsonschema, glob
sc = json.load(open('/root/.vp/EVIDENCE.schema.json'))
for f in sorted(glob.glob('/verif/evidence/*.json')):
    ev = json.load(open(f)); jsonschema.validate(ev, sc)
    c = ev['coverage']
    assert c['obligations'] == c['discharged'], (f, c['obligations'], c['discharged'])
print('evidence files valid and complete:', len(glob.glob('/verif/evidence/*.json')))
PY
