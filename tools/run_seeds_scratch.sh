#!/bin/bash
# run stored seeds on scratch exports (VERIF_REPO) so /repo is untouched; usage: run_seeds_scratch.sh 'pattern'
export VERIF_EVIDENCE_DIR=/scratch/seed_evidence_s; mkdir -p $VERIF_EVIDENCE_DIR
cd /verif
for d in seeded/${1:-*}/; do
  id=$(basename $d); prop=${id%%-*}
  S=/scratch/s_repo_$$; rm -rf $S; mkdir -p $S; git -C /repo archive HEAD | tar -x -C $S
  if ! (cd $S && patch -p1 -s < /verif/$d/patch.diff >/dev/null 2>&1); then echo "$id: PATCH DOES NOT APPLY"; rm -rf $S; continue; fi
  out=$(VERIF_REPO=$S timeout 1800 ./check $prop 2>&1); code=$?
  rm -rf $S
  nv=$(echo "$out" | grep -c "^VIOLATION"); nrep=$(echo "$out" | grep "^VIOLATION" | grep -vc "no-failing-input-found")
  echo "$id: exit=$code violations=$nv with-replayed-input=$nrep $(echo "$out" | grep -E '^(UNDECIDED|CHECKER|BOUNDED-ONLY)' | head -1 | cut -c1-140)"
done
