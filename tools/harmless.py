#!/usr/bin/env python3
"""false-alarm self-test: harmless edits of the repository (renamed temporaries, reordered independent statements, changed
comments, renamed locals in run-time templates) applied to a scratch copy; every check must still exit 0."""
import os, shutil, subprocess, sys, json
EDITS = {
 'H1 List: temporary renamed (staging -> _acc)': [('sourcer/expressions/list.py', "out.var('staging', [])", "out.var('_acc', [])")],
 'H2 Opt: independent statements reordered': [('sourcer/expressions/opt.py', "            out += POS << backtrack\n            out += RESULT << None\n            out += STATUS << True\n", "            out += STATUS << True\n            out += RESULT << None\n            out += POS << backtrack\n")],
 'H3 Choice: comment text changed': [('sourcer/expressions/choice.py', "comment = f'Option {i + 1}:'", "comment = f'Alternative number {i + 1}:'")],
 'H4 _run: locals renamed (memo -> cache, stack -> work)': [('sourcer/translator.py', None, None)],
 'H5 visit: locals renamed (visited -> seen_ids, stack -> todo)': [('sourcer/translator.py', None, None)],
 'H6 line/column map: appends swapped, counters renamed': [('sourcer/translator.py', None, None)],
 'H7 excerpt: intermediate variable introduced': [('sourcer/translator.py', "    if end - start < 96:\n        return text[start : end] + _caret_at(col - 1)\n", "    line_len = end - start\n    if line_len < 96:\n        return text[start : end] + _caret_at(col - 1)\n")],
 'H8 _transform / __eq__: locals renamed': [('sourcer/translator.py', None, None)],
 'H9 Sep: checkpoint temporary renamed (-> _mark)': [('sourcer/expressions/sep.py', "out.var('checkpoint', POS)", "out.var('_mark', POS)")],
 'H12 _run: request test through a local': [('sourcer/translator.py', "        if result[0] != $CALL:\n            stack.pop()\n            memo[key] = result\n", "        is_request = result[0] == $CALL\n        if not is_request:\n            stack.pop()\n            memo[key] = result\n")],
 'H13 finalize: span read by index instead of unpacking': [('sourcer/translator.py', "            start, end = pos_info\n            end -= 1\n", "            start = pos_info[0]\n            end = pos_info[1] - 1\n")],
 'H14 traverse: helper inlined': [('sourcer/translator.py', None, None)],
 'H15 List: checkpoint kept even when the element cannot partially succeed': [('sourcer/expressions/list.py', None, None)],
 'H17 Str: match by startswith instead of slice comparison': [('sourcer/expressions/str.py', "with out.IF(TEXT[POS : end] == value):", "with out.IF(TEXT.startswith(value, POS)):")],
 'H10 Skip: unrelated assignment inserted': [('sourcer/expressions/skip.py', "        out += RESULT << None\n        out += STATUS << True\n", "        out += RESULT << None\n        out += Code('_unused_marker = 0')\n        out += STATUS << True\n")],
}
def special(name, src):
    import re
    def in_func(src, fname, fn):
        i = src.index(f'def {fname}(')
        j = src.index('\n\n\n', i)
        return src[:i] + fn(src[i:j]) + src[j:]
    if name.startswith('H4'):
        return in_func(src, '_run', lambda b: re.sub(r'\bstack\b', 'work', re.sub(r'\bmemo\b', 'cache', b)))
    if name.startswith('H5'):
        return in_func(src, 'visit', lambda b: re.sub(r'\bstack\b', 'todo', re.sub(r'\bvisited\b', 'seen_ids', b)))
    if name.startswith('H6'):
        def f(b):
            b = b.replace('        line_numbers.append(current_line)\n        column_numbers.append(current_column)\n', '        column_numbers.append(current_column)\n        line_numbers.append(current_line)\n')
            return re.sub(r'\bcurrent_line\b', 'ln', re.sub(r'\bcurrent_column\b', 'cn', b))
        return in_func(src, '_map_index_to_line_and_column', f)
    if name.startswith('H14'):
        def f(b):
            b = b.replace("        def extend(items):\n            stack.extend(reversed(list(items)))\n\n", "")
            return b.replace("            extend(\n", "            stack.extend(reversed(list(\n").replace("                for i, x in enumerate(child)\n            )", "                for i, x in enumerate(child)\n            )))").replace("                for k, v in child.items()\n            )", "                for k, v in child.items()\n            )))").replace("                for x in child._fields\n            )", "                for x in child._fields\n            )))")
        return in_func(src, 'traverse', f)
    if name.startswith('H15'):
        return src.replace("            if self.expr.can_partially_succeed():\n                checkpoint = out.var('checkpoint', POS)\n", "            checkpoint = out.var('checkpoint', POS)\n").replace("                if self.expr.can_partially_succeed():\n                    out += POS << checkpoint\n", "                out += POS << checkpoint\n")
    if name.startswith('H8'):
        src = in_func(src, '_transform', lambda b: re.sub(r'\bupdates\b', 'changed', b))
        i = src.index('    def __eq__(self, other):'); j = src.index('    def __hash__', i)
        return src[:i] + re.sub(r'\bleft\b', 'mine', re.sub(r'\bright\b', 'theirs', src[i:j])) + src[j:]
    raise KeyError(name)
only = sys.argv[1:]
res = {}
for name, edits in EDITS.items():
    if only and not any(name.startswith(o) for o in only):
        continue
    dst = '/scratch/harmless_repo'
    shutil.rmtree(dst, ignore_errors=True)
    shutil.copytree('/repo', dst, ignore=shutil.ignore_patterns('.git', '__pycache__', '.benchmarks'))
    for rel, old, new in edits:
        p = os.path.join(dst, rel); src = open(p).read()
        if old is None:
            src2 = special(name, src)
        else:
            assert src.count(old) == 1, (name, src.count(old))
            src2 = src.replace(old, new)
        assert src2 != src, name
        open(p, 'w').write(src2)
    r = subprocess.run(['python3', '/verif/tools/regen_parser.py', dst], capture_output=True, text=True)
    t = subprocess.run('cd %s && /venv/bin/python -m pytest -q -p no:cacheprovider 2>&1 | tail -1' % dst, shell=True, capture_output=True, text=True).stdout.strip()
    env = dict(os.environ, VERIF_REPO=dst, VERIF_EVIDENCE_DIR='/scratch/seed_evidence')
    ids = [c['property_id'] for c in json.load(open('/verif/MANIFEST.json'))['checks']]
    bad = []
    for n_, i in enumerate(ids):
        # the dependency layer is the same in every check: run it with the first check only
        c = subprocess.run(['/verif/check', i], capture_output=True, text=True, env=env if n_ == 0 else dict(env, VERIF_NO_DEPENDENCY_LAYER='1'))
        if c.returncode != 0:
            lines = [l for l in c.stdout.splitlines() if l.startswith(('VIOLATION', 'UNDECIDED', 'CHECKER'))]
            bad.append((i, c.returncode, lines[0][:200] if lines else c.stdout[-200:]))
    res[name] = bad
    print(name, '| suite:', t, '| alarms:', bad if bad else 'none', flush=True)
    shutil.rmtree(dst, ignore_errors=True)
