#!/bin/bash
# usage: confirm_seed.sh <property> <k> [checks-that-catch...]
# confirms a sub-agent's seeded change in its scratch worktree (moved to /repo's current HEAD) and stores it under /verif/seeded/
set -u
P="$1"; K="$2"; shift 2
WT=${WTPREFIX:-/tmp/wt-}$P
TAG=${SEEDTAG:-}
HEAD=$(git -C /repo rev-parse HEAD)
cd "$WT" || exit 9
git checkout -q -- . ; git checkout -q --detach "$HEAD" || exit 9
D=$WT/mut_$K.diff
git apply --check "$D" 2>/dev/null || git apply -3 --check "$D" || { echo "patch does not apply at $HEAD"; exit 9; }
base_demo=$(cd $WT && timeout 300 /venv/bin/python demo_$K.py >/dev/null 2>&1; echo $?)
git apply "$D" 2>/dev/null || git apply -3 "$D"
git diff HEAD > /tmp/seed_patch_${P}_${K}.diff
suite=$(timeout 600 /venv/bin/python -m pytest -q -p no:cacheprovider 2>&1 | tail -1)
mut_demo=$(timeout 300 /venv/bin/python demo_$K.py >/dev/null 2>&1; echo $?)
git reset -q --hard HEAD 2>/dev/null
echo "$P/$K: suite-with-change: $suite | demo exit with change: $mut_demo | demo exit without: $base_demo"
if [[ "$suite" == *"52 passed"* && "$mut_demo" != "0" && "$base_demo" == "0" ]]; then
  S=/verif/seeded/$P-$TAG$K; mkdir -p $S
  cp /tmp/seed_patch_${P}_${K}.diff $S/patch.diff; cp $WT/demo_$K.py $S/demo.py
  python3 - "$P" "$K" "$HEAD" "$suite" "$mut_demo" "$base_demo" "$WT/mut_$K.txt" "$S" "$WT" "$@" <<'PY'
import json, sys
P, K, HEAD, suite, md, bd, txt, S, WT = sys.argv[1:10]
caught = sys.argv[10:]
json.dump({'property': P, 'breaks': open(txt).read().strip(), 'needs_to_manifest': 'see "breaks" (written by the independent sub-agent that produced the change)',
           'confirmed_at_repo_commit': HEAD,
           'what_i_ran': [f'in scratch worktree {WT} at {HEAD[:7]}: git apply patch.diff; /venv/bin/python -m pytest -q -p no:cacheprovider -> {suite}',
                          f'/venv/bin/python demo.py with the change -> exit {md}', f'/venv/bin/python demo.py without the change -> exit {bd}'],
           'caught_by': caught}, open(f'{S}/meta.json', 'w'), indent=1)
PY
  echo "  kept as $S"
else
  echo "  NOT kept"
fi
