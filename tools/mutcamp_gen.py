"""generate simple mutants of the generator-side python code (AST) and of the run-time templates (text)"""
import ast, os, re, json, random, subprocess, sys
ROOT = '/scratch/mutcamp/base'
subprocess.run(f'rm -rf {ROOT}; mkdir -p {ROOT}; git -C /repo archive HEAD | tar -x -C {ROOT}', shell=True, check=True)
files = ['sourcer/grammar.py', 'sourcer/translator.py'] + sorted('sourcer/expressions/' + f for f in os.listdir(ROOT + '/sourcer/expressions') if f.endswith('.py'))
muts = []
CMP = {ast.Lt: ast.LtE, ast.LtE: ast.Lt, ast.Gt: ast.GtE, ast.GtE: ast.Gt, ast.Eq: ast.NotEq, ast.NotEq: ast.Eq, ast.Is: ast.IsNot, ast.IsNot: ast.Is, ast.In: ast.NotIn, ast.NotIn: ast.In}
for f in files:
    src = open(os.path.join(ROOT, f)).read()
    tree = ast.parse(src)
    lines = src.split('\n')
    # template string ranges (module-level assignments of long strings): text mutations only
    tmpl = []
    for n in tree.body:
        if isinstance(n, ast.Assign) and isinstance(n.value, ast.Constant) and isinstance(n.value.value, str) and n.value.value.count('\n') > 3:
            tmpl.append((n.lineno, n.end_lineno))
    def in_tmpl(l):
        return any(a <= l <= b for a, b in tmpl)
    for n in ast.walk(tree):
        if not hasattr(n, 'lineno') or in_tmpl(n.lineno):
            continue
        seg = ast.get_source_segment(src, n)
        if seg is None or '\n' in seg:
            continue
        new = None
        if isinstance(n, ast.Compare) and len(n.ops) == 1 and type(n.ops[0]) in CMP:
            m = ast.Compare(left=n.left, ops=[CMP[type(n.ops[0])]()], comparators=n.comparators)
            new = ast.unparse(m); kind = 'cmp'
        elif isinstance(n, ast.BoolOp) and len(n.values) == 2:
            m = ast.BoolOp(op=ast.Or() if isinstance(n.op, ast.And) else ast.And(), values=n.values)
            new = ast.unparse(m); kind = 'boolop'
        elif isinstance(n, ast.UnaryOp) and isinstance(n.op, ast.Not):
            new = ast.unparse(n.operand); kind = 'not'
        elif isinstance(n, ast.Constant) and isinstance(n.value, bool):
            new = repr(not n.value); kind = 'bool'
        elif isinstance(n, ast.Constant) and isinstance(n.value, int) and not isinstance(n.value, bool) and 0 <= n.value <= 3:
            new = repr(n.value + 1); kind = 'int'
        if new is None or new == seg:
            continue
        muts.append({'file': f, 'line': n.lineno, 'col': n.col_offset, 'end_col': n.end_col_offset, 'old': seg, 'new': '(' + new + ')' if kind in ('cmp', 'boolop') else new, 'kind': kind})
    # template text mutations
    for a, b in tmpl:
        for l in range(a, b + 1):
            t = lines[l - 1]
            for pat, rep_, kind in ((r' < ', ' <= ', 't-lt'), (r' <= ', ' < ', 't-le'), (r' == ', ' != ', 't-eq'), (r' is not ', ' is ', 't-isnot'), (r' is None', ' is not None', 't-isnone'),
                                    (r'\bnot ', '', 't-not'), (r' and ', ' or ', 't-and'), (r' or ', ' and ', 't-or'), (r' - 1\b', '', 't-minus1'), (r' \+ 1\b', '', 't-plus1'), (r'\bTrue\b', 'False', 't-true'), (r'\bFalse\b', 'True', 't-false'),
                                    (r'\bcontinue\b', 'pass', 't-continue'), (r'reversed\(([^()]*)\)', r'\1', 't-reversed')):
                m = re.search(pat, t)
                if m and not t.lstrip().startswith('#'):
                    muts.append({'file': f, 'line': l, 'text_old': t, 'text_new': t[:m.start()] + m.expand(rep_) + t[m.end():], 'kind': kind})
random.Random(7).shuffle(muts)
json.dump(muts, open('/scratch/mutcamp/mutants.json', 'w'), indent=0)
from collections import Counter
print(len(muts), Counter(m['file'] for m in muts).most_common(40))
