#!/bin/bash
# applies each behaviour-preserving refactoring produced by an independent sub-agent (harmless/ref_k.diff) to /repo, runs ALL checks, reverts
export VERIF_EVIDENCE_DIR=/scratch/seed_evidence; mkdir -p $VERIF_EVIDENCE_DIR
cd /verif
ids=$(python3 -c "import json; print(' '.join(c['property_id'] for c in json.load(open('MANIFEST.json'))['checks']))")
for d in ${1:-harmless}/ref_*.diff; do
  if ! git -C /repo apply --check $(realpath $d) 2>/dev/null; then echo "$(basename $d): does not apply"; continue; fi
  git -C /repo apply $(realpath $d)
  alarms=""
  for id in $ids; do
    out=$(timeout 900 ./check $id 2>&1); code=$?
    if [ $code -ne 0 ]; then alarms="$alarms $id(exit=$code: $(echo "$out" | grep -E '^(VIOLATION|UNDECIDED|CHECKER)' | head -1 | cut -c1-160))"; fi
  done
  git -C /repo reset -q --hard HEAD
  echo "$(basename $d): ${alarms:-no alarm}"
done
