#!/bin/bash
export VERIF_EVIDENCE_DIR=/scratch/seed_evidence; mkdir -p $VERIF_EVIDENCE_DIR
# usage: try_seed.sh <patch.diff> <check ids...> : apply to /repo, run the checks, revert
set -u
d="$1"; shift
cd /repo || exit 9
if ! git apply --check "$d" 2>/dev/null; then
  if ! git apply -3 --check "$d" 2>/dev/null; then echo "PATCH DOES NOT APPLY: $d"; exit 9; fi
fi
git apply "$d" 2>/dev/null || git apply -3 "$d"
for id in "$@"; do
  out=$(/verif/check "$id" 2>&1); code=$?
  echo "== $id exit=$code"; echo "$out" | grep -E "VIOLATION|UNDECIDED|CHECKER|KNOWN" | cut -c1-260 | head -5; echo "$out" | tail -1 | cut -c1-200
done
git reset -q --hard HEAD; git status --short | head -3
